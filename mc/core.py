"""Explorer core: accumulators, fork-once sharding, evidence / replay writers, known-findings matching.

Every check module enumerates a finite space of cases (DEV mode: base x deviations up to a bound; BFS mode:
operation histories de-duplicated on a canonical state) and executes each case against the real library.
Nothing in here samples: a run either completes its enumeration (exhaustive=True) or fails.
"""
import collections
import hashlib
import json
import multiprocessing
import os
import re
import subprocess
import sys
import time
import traceback

VERIF = os.path.dirname(os.path.dirname(os.path.abspath(__file__)))
REPO = os.environ.get("VERIF_REPO", "/repo")
OUT = os.environ.get("VERIF_OUT") or os.path.dirname(os.path.dirname(os.path.abspath(__file__)))   # development runs against scratch trees may write their evidence / replays elsewhere
JOBS = int(os.environ.get("VERIF_JOBS", "0")) or (os.cpu_count() or 4)


def digest(x):
    """Process-independent 8-byte digest of a canonical (repr-able / str) value."""
    if not isinstance(x, (str, bytes)):
        x = repr(x)
    if isinstance(x, str):
        x = x.encode("utf-8", "surrogatepass")
    return hashlib.blake2b(x, digest_size=8).digest()


def jsonable(x, depth=0):
    """Best-effort conversion of a case description to JSON (for replay files / samples)."""
    if depth > 12:
        return repr(x)
    if x is None or isinstance(x, (bool, int, str)):
        return x
    if isinstance(x, float):
        if x != x or x in (float("inf"), float("-inf")):
            return {"$float": repr(x)}
        return x
    if isinstance(x, bytes):
        return {"$bytes": x.hex()}
    if isinstance(x, dict):
        return {str(k): jsonable(v, depth + 1) for k, v in x.items()}
    if isinstance(x, (list, tuple)):
        return [jsonable(v, depth + 1) for v in x]
    if isinstance(x, (set, frozenset)):
        return sorted((jsonable(v, depth + 1) for v in x), key=repr)
    return repr(x)


class Part(object):
    """Picklable accumulator filled by one worker (or by the parent), merged deterministically."""

    MAX_SAMPLES = 6

    def __init__(self):
        self.evaluations = 0
        self.transitions = 0
        self.outcomes = collections.Counter()
        self.states = set()
        self.nontrivial = set()
        self.violations = {}   # key -> {"count", "index", "what", "case", "expected", "observed", "repro"}
        self.samples = []
        self.notes = collections.Counter()
        self.index = 0          # index of the case being executed (for minimal-first reporting)
        self.results = []       # (index, value) returned by the case function (BFS successors etc.)

    # -- recording ---------------------------------------------------------------------------------
    def outcome(self, name, n=1):
        self.outcomes[name] += n

    def state(self, canon, nontrivial=True):
        d = digest(canon)
        new = d not in self.states
        self.states.add(d)
        if nontrivial:
            self.nontrivial.add(d)
        return new

    def sample(self, case, force=False):
        if force or len(self.samples) < self.MAX_SAMPLES:
            self.samples.append(jsonable(case))

    def violation(self, key, what, case, expected=None, observed=None, repro=None):
        v = self.violations.get(key)
        if v is None:
            self.violations[key] = {
                "count": 1, "index": self.index, "what": what, "case": jsonable(case),
                "expected": jsonable(expected), "observed": jsonable(observed), "repro": repro,
            }
        else:
            v["count"] += 1

    # -- merging -----------------------------------------------------------------------------------
    def merge(self, other):
        self.evaluations += other.evaluations
        self.transitions += other.transitions
        self.outcomes.update(other.outcomes)
        self.notes.update(other.notes)
        self.states |= other.states
        self.nontrivial |= other.nontrivial
        for k, v in other.violations.items():
            mine = self.violations.get(k)
            if mine is None:
                self.violations[k] = dict(v)
            else:
                cnt = mine["count"] + v["count"]
                if v["index"] < mine["index"]:
                    self.violations[k] = dict(v)
                self.violations[k]["count"] = cnt
        for s in other.samples:
            if len(self.samples) < self.MAX_SAMPLES:
                self.samples.append(s)
        self.results.extend(other.results)


# ---- fork-once sharding -----------------------------------------------------------------------------
_WORK = None


def _run_chunk(k):
    fn, items, nchunks, prop = _WORK
    part = Part()
    for i in range(k, len(items), nchunks):
        part.index = i
        try:
            r = fn(items[i], part)
            if r is not None:
                part.results.append((i, r))
        except Exception as e:   # an exception escaping a case = the library did something no oracle expected
            tb = traceback.extract_tb(e.__traceback__)
            where = "?"
            for fr in reversed(tb):
                if "/mc/" not in fr.filename:
                    where = "%s:%s" % (os.path.basename(fr.filename), fr.name)
                    break
            else:
                if tb:
                    where = "%s:%s" % (os.path.basename(tb[-1].filename), tb[-1].name)
            part.state(("aborted-case", i), nontrivial=False)   # the case was executed up to the exception: it is an explored state
            part.outcome("case-aborted-by-unexpected-exception")
            part.violation("%s/unexpected-exception/%s@%s" % (prop, type(e).__name__, where),
                           "case raised an exception no oracle clause anticipates: %s: %s" % (type(e).__name__, str(e)[:300]),
                           items[i], observed="".join(traceback.format_exception(type(e), e, e.__traceback__))[-1500:])
    return part


def pmap(prop, fn, items, part, jobs=None, serial=False):
    """Execute fn(item, part) for every item; shards over a fork-once pool; merges into `part`."""
    global _WORK
    items = items if isinstance(items, list) else list(items)
    jobs = jobs or JOBS
    if serial or jobs <= 1 or len(items) < 4:
        _WORK = (fn, items, 1, prop)
        part.merge(_run_chunk(0))
        return
    nchunks = min(len(items), jobs * 4)
    _WORK = (fn, items, nchunks, prop)
    ctx = multiprocessing.get_context("fork")
    pool = ctx.Pool(min(jobs, nchunks))
    try:
        for p in pool.imap(_run_chunk, range(nchunks)):
            part.merge(p)
    finally:
        pool.close()
        pool.join()
    _WORK = None


# ---- known findings ----------------------------------------------------------------------------------
def load_known():
    path = os.path.join(VERIF, "known_findings.json")
    if not os.path.exists(path):
        return []
    with open(path) as f:
        return json.load(f)


def safe(s):
    return re.sub(r"[^A-Za-z0-9_.=+-]+", "_", s).strip("_")[:120]


class Run(object):
    """One check run: owns the master Part, the stated bounds and the evidence/replay output."""

    def __init__(self, prop, tier, seed):
        self.prop = prop
        self.tier = tier
        self.seed = seed
        self.part = Part()
        self.t0 = time.time()
        self.rule = ""
        self.bound = {}
        self.alphabets = {}
        self.assumptions = [
            "CPython %d.%d, stix2 imported from %s" % (sys.version_info[0], sys.version_info[1], REPO),
            "PYTHONHASHSEED=%s" % os.environ.get("PYTHONHASHSEED"),
        ]
        self.exhaustive = True
        self.mode = "DEV"
        self.extra = {}
        self.vacuous = []

    @property
    def thorough(self):
        return self.tier == "thorough"

    def pmap(self, fn, items, serial=False, order_independent=False):
        """order_independent=True declares that the cases do not depend on one another; in the thorough tier (or with VERIF_ORDER_PASS=1) they are then executed a
        second time in REVERSED order in fresh worker processes and the two passes must agree on the outcome histogram and on the set of violation keys: state
        that an earlier case leaves behind in the library (a cache, a table, a reused object) shows as a difference even where no single oracle clause sees it."""
        items = items if isinstance(items, list) else list(items)
        before_outcomes = collections.Counter(self.part.outcomes)
        before_keys = set(self.part.violations)
        pmap(self.prop, fn, items, self.part, serial=serial)
        if not order_independent or not (self.thorough or os.environ.get("VERIF_ORDER_PASS") == "1") or len(items) < 2:
            return
        keep_results = self.part.results
        fwd_outcomes = collections.Counter(self.part.outcomes)
        fwd_outcomes.subtract(before_outcomes)
        fwd_keys = set(self.part.violations) - before_keys
        rev = Part()
        pmap(self.prop, fn, items[::-1], rev, serial=serial)
        self.extra.setdefault("order_passes", []).append({"items": len(items), "reversed_evaluations": rev.evaluations})
        self.part.transitions += rev.transitions
        self.part.evaluations += rev.evaluations
        diff = {k: [fwd_outcomes.get(k, 0), rev.outcomes.get(k, 0)] for k in set(fwd_outcomes) | set(rev.outcomes) if fwd_outcomes.get(k, 0) != rev.outcomes.get(k, 0)}
        kdiff = sorted(fwd_keys ^ (set(rev.violations) - before_keys))
        for k, v in rev.violations.items():
            if k not in self.part.violations:
                self.part.violations[k] = dict(v)
        if diff or kdiff:
            self.part.violation("%s/order-dependent-outcomes" % self.prop, "the same independent cases give different outcomes when they are executed in the reversed order (state left behind between calls)",
                                {"kind": "order-pass", "items": len(items)}, "identical outcome histograms and violation keys", {"outcomes[forward, reversed]": diff, "keys_only_in_one_pass": kdiff[:10]})
        self.part.results = keep_results

    def bfs(self, initial, expand, depth, on_level=None):
        """Level-synchronous explicit-state search. `initial`: list of (canon, item). expand(item, part) -> list of (canon, item')
        successors (it also evaluates invariants / the lock-step model for `item`). States are de-duplicated on canon; every state up to
        `depth` is expanded (i.e. histories of length <= depth+1 are executed; states at distance depth+1 are reached but not expanded
        unless `expand` is also asked to examine them through on_level). Returns the list of levels (lists of items)."""
        seen = set()
        frontier = []
        for canon, item in initial:
            d = digest(canon)
            if d not in seen:
                seen.add(d)
                frontier.append(item)
        levels = []
        for lvl in range(depth + 1):
            levels.append(frontier)
            if not frontier:
                break
            self.part.results = []
            pmap(self.prop, expand, frontier, self.part)
            res = sorted(self.part.results, key=lambda t: t[0])
            self.part.results = []
            nxt = []
            for _, succs in res:
                for canon, item in succs:
                    d = digest(canon)
                    if d not in seen:
                        seen.add(d)
                        nxt.append(item)
            if on_level:
                on_level(lvl, frontier, nxt)
            frontier = nxt
        self.extra["bfs_states_discovered"] = len(seen)
        self.extra["bfs_levels"] = [len(l) for l in levels] + ([len(frontier)] if frontier and len(levels) == depth + 1 else [])
        self.unexpanded = frontier
        return levels

    def require(self, cond, msg):
        """Vacuity guard: the exploration must have reached what it claims to reach."""
        if not cond:
            self.vacuous.append(msg)

    # -- finishing ---------------------------------------------------------------------------------
    def repo_state(self):
        try:
            head = subprocess.run(["git", "-C", REPO, "rev-parse", "--short", "HEAD"], capture_output=True, text=True).stdout.strip()
            dirty = bool(subprocess.run(["git", "-C", REPO, "status", "--porcelain", "--untracked-files=no"], capture_output=True, text=True).stdout.strip())
            return head, dirty
        except Exception:
            return "?", False

    def finish(self):
        part = self.part
        known = {(k["property"], k["key"]): k for k in load_known() if k.get("status") == "open"}
        head, dirty = self.repo_state()
        new, seen_known = [], []
        for key in sorted(part.violations, key=lambda k: (part.violations[k]["index"], k)):
            v = part.violations[key]
            if (self.prop, key) in known:
                seen_known.append(key)
            else:
                new.append(key)
        os.makedirs(os.path.join(OUT, "replays"), exist_ok=True)
        lines = []
        def write_replay(key, overwrite=True):
            v = part.violations[key]
            path = os.path.join(OUT, "replays", "%s-%s.json" % (self.prop, safe(key.split("/", 1)[-1])))
            if os.path.exists(path):
                try:
                    other = json.load(open(path)).get("key")
                except Exception:
                    other = key
                if other != key:        # two keys that differ only in characters a file name cannot carry ("op<=" / "op>=")
                    path = path[:-5] + "-" + hashlib.blake2b(key.encode(), digest_size=3).hexdigest() + ".json"
            if overwrite or not os.path.exists(path):
                doc = {"property": self.prop, "key": key, "tier": self.tier, "seed": self.seed, "repo_head": head, "dirty": dirty,
                       "what": v["what"], "count": v["count"], "case": v["case"], "expected": v["expected"], "observed": v["observed"],
                       "repro": v["repro"]}
                with open(path, "w") as f:
                    json.dump(doc, f, indent=1, sort_keys=True)
            return path
        for key in seen_known:
            v = part.violations[key]
            write_replay(key, overwrite=False)      # the committed replay of a listed finding is kept as it is
            print("KNOWN-FINDING: property=%s key=%s (%d cases) %s" % (self.prop, key, v["count"], known[(self.prop, key)].get("what", v["what"])))
        rc = 0
        for key in new:
            v = part.violations[key]
            path = write_replay(key)
            print("  %s: %s  [%d cases]" % (key, v["what"], v["count"]))
            print("    expected: %s" % (json.dumps(v["expected"])[:300],))
            print("    observed: %s" % (json.dumps(v["observed"])[:300],))
            lines.append("VIOLATION property=%s replay=%s" % (self.prop, path))
            rc = 1
        wall = time.time() - self.t0
        cov = {
            "states": max(len(part.states), 0),
            "transitions": part.transitions if part.transitions else part.evaluations,
            "traces_validated_against_impl": part.evaluations,
            "evaluations": part.evaluations,
            "distinct_nontrivial": len(part.nontrivial),
            "rule": self.rule,
            "exhaustive": bool(self.exhaustive),
            "mode": self.mode,
            "bound": self.bound,
            "alphabets": self.alphabets,
            "distinct_outcomes": dict(sorted(part.outcomes.items())),
            "notes": dict(sorted(part.notes.items())),
            "samples": part.samples,
            "explanation": "every explored trace is an execution of the implementation in %s; the reference model runs in lock-step" % REPO,
        }
        cov.update(self.extra)
        ev = {
            "property_id": self.prop, "tier": self.tier, "seed": self.seed, "level": "model_checking",
            "coverage": cov, "assumptions": self.assumptions, "wall_s": round(wall, 2),
            "violations": len(new), "known_findings_seen": seen_known, "new_violation_keys": new,
            "repo_head": head, "dirty": dirty, "vacuity_guards_failed": self.vacuous,
        }
        os.makedirs(os.path.join(OUT, "evidence"), exist_ok=True)
        evpath = os.path.join(OUT, "evidence", "%s.json" % self.prop)
        with open(evpath, "w") as f:
            json.dump(ev, f, indent=1, sort_keys=True)
        try:
            validate_evidence(evpath)
        except Exception as e:
            # a degenerate run must still report what it found
            for line in lines:
                print(line)
            print("HARNESS: evidence for %s does not validate: %s" % (self.prop, str(e)[:300]))
            if rc:
                return rc
            raise
        print("%s tier=%s seed=%s states=%d transitions=%d executions=%d distinct_nontrivial=%d outcomes=%d known=%d new=%d wall=%.1fs" % (
            self.prop, self.tier, self.seed, cov["states"], cov["transitions"], part.evaluations, cov["distinct_nontrivial"],
            len(part.outcomes), len(seen_known), len(new), wall))
        top = sorted(part.outcomes.items(), key=lambda kv: -kv[1])[:12]
        print("  outcomes: " + ", ".join("%s=%d" % kv for kv in top))
        for line in lines:
            print(line)
        if rc == 0 and self.vacuous:
            for m in self.vacuous:
                print("VACUOUS: %s" % m)
            return 3
        return rc


def validate_evidence(path):
    try:
        import jsonschema
    except Exception:
        return
    schema_path = "/root/.vp/EVIDENCE.schema.json"
    if not os.path.exists(schema_path):
        schema_path = os.path.join(VERIF, "mc", "EVIDENCE.schema.json")
        if not os.path.exists(schema_path):
            return
    with open(schema_path) as f:
        schema = json.load(f)
    with open(path) as f:
        doc = json.load(f)
    jsonschema.validate(doc, schema)
