"""Reference model of data markings: a set of (selector | None, marking) pairs; None = object level.
Ancestry follows the property-path tree (component-wise prefix), never string prefixes."""

LANGS = ("en", "fr", "de")


def comps(sel):
    return tuple(sel.split("."))


def is_ancestor(a, b):
    """a is a strict path-tree ancestor of b"""
    ca, cb = comps(a), comps(b)
    return len(ca) < len(cb) and cb[:len(ca)] == ca


def is_lang(m):
    return not str(m).startswith("marking-definition--")


def pairs_of(obj):
    """Expand an object's (or dict's) stored markings into (pair set, multiset-duplicates, malformed entries)."""
    out, dups, bad = set(), [], []
    for m in obj.get("object_marking_refs", []) or []:
        m = str(m)
        if (None, m) in out:
            dups.append((None, m))
        out.add((None, m))
    for g in obj.get("granular_markings", []) or []:
        ref, lng = g.get("marking_ref"), g.get("lang")
        sels = list(g.get("selectors", []))
        if not sels or (ref is None and lng is None) or (ref is not None and lng is not None):
            bad.append(dict(g))
        m = str(ref) if ref is not None else lng
        for s in sels:
            if (s, m) in out:
                dups.append((s, m))
            out.add((s, m))
    return frozenset(out), dups, bad


def add(ps, markings, selectors):
    sels = [None] if selectors is None else selectors
    return frozenset(set(ps) | {(s, m) for s in sels for m in markings})


def remove(ps, markings, selectors):
    sels = [None] if selectors is None else selectors
    req = {(s, m) for s in sels for m in markings}
    return frozenset(set(ps) - req), req <= set(ps), bool(req & set(ps))


def clear(ps, selectors, marking_ref=True, lang=True):
    sels = [None] if selectors is None else selectors

    def hit(p):
        s, m = p
        if s not in sels:
            return False
        if s is None:
            return True
        return (lang if is_lang(m) else marking_ref)
    gone = {p for p in ps if hit(p)}
    return frozenset(set(ps) - gone), bool(gone)


def get(ps, selectors, inherited=False, descendants=False, marking_ref=True, lang=True, object_level_filtered=False):
    """Markings reported for `selectors` (None = object level). object_level_filtered: whether marking_ref=False also hides
    object-level markings when inherited (the documentation is silent; callers accept both readings)."""
    if selectors is None:
        return {m for s, m in ps if s is None}
    r = set()
    for (s, m) in ps:
        if s is None:
            if inherited and (marking_ref or not object_level_filtered):
                r.add(m)
            continue
        if not (lang if is_lang(m) else marking_ref):
            continue
        for sel in selectors:
            if s == sel or (inherited and is_ancestor(s, sel)) or (descendants and is_ancestor(sel, s)):
                r.add(m)
    return r


def string_prefix_related(ps, selectors):
    """pairs related to the selectors by string prefix but not by path ancestry (the classic created / created_by_ref confusion)"""
    out = set()
    for (s, m) in ps:
        if s is None:
            continue
        for sel in selectors or []:
            if s != sel and (sel.startswith(s) or s.startswith(sel)) and not (is_ancestor(s, sel) or is_ancestor(sel, s)):
                out.add((s, m))
    return out


def selftest():
    ps = frozenset({(None, "marking-definition--1"), ("labels", "marking-definition--2"), ("labels.[0]", "en"), ("created", "fr")})
    assert get(ps, ["labels.[0]"]) == {"en"}
    assert get(ps, ["labels.[0]"], inherited=True) == {"en", "marking-definition--2", "marking-definition--1"}
    assert get(ps, ["labels"], descendants=True) == {"marking-definition--2", "en"}
    assert get(ps, ["created_by_ref"], inherited=True, descendants=True) == {"marking-definition--1"}
    assert string_prefix_related(ps, ["created_by_ref"]) == {("created", "fr")}
    assert clear(ps, ["labels.[0]"], lang=False)[0] == ps and clear(ps, ["labels.[0]"])[0] == ps - {("labels.[0]", "en")}
    assert remove(ps, ["en"], ["labels.[0]", "labels"])[1:] == (False, True)
    assert add(ps, ["x"], None) == ps | {(None, "x")}
    return 8
