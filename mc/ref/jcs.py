"""Independent RFC 8785 (JSON Canonicalization Scheme) reference. No dependency on stix2.

Numbers: shortest round-trip digits and decimal exponent are read from CPython's repr(float) through decimal.Decimal and laid
out by the ECMAScript Number::toString rules (ECMA-262 7.1.12.1). Strings: minimal escaping. Objects: members sorted by UTF-16
code units of the key.
"""
import decimal
import math


def es6_number(x):
    if isinstance(x, bool):
        raise TypeError("bool is not a number")
    if isinstance(x, int):
        x = float(x)          # RFC 8785: numbers are IEEE-754 doubles
    if x != x or x in (math.inf, -math.inf):
        raise ValueError("NaN/Infinity are not JSON")
    if x == 0:
        return "0"
    sign = ""
    if x < 0:
        sign, x = "-", -x
    t = decimal.Decimal(repr(x)).as_tuple()
    digits = "".join(str(d) for d in t.digits).lstrip("0")
    exp = t.exponent
    stripped = digits.rstrip("0")
    exp += len(digits) - len(stripped)
    digits = stripped
    k = len(digits)
    n = exp + k                       # value = 0.d1d2...dk x 10^n
    if k <= n <= 21:
        return sign + digits + "0" * (n - k)
    if 0 < n <= 21:
        return sign + digits[:n] + "." + digits[n:]
    if -6 < n <= 0:
        return sign + "0." + "0" * (-n) + digits
    e = n - 1
    es = ("+" if e >= 0 else "-") + str(abs(e))
    if k == 1:
        return sign + digits + "e" + es
    return sign + digits[0] + "." + digits[1:] + "e" + es


_SHORT = {'"': '\\"', "\\": "\\\\", "\b": "\\b", "\f": "\\f", "\n": "\\n", "\r": "\\r", "\t": "\\t"}


def string(s):
    out = ['"']
    for ch in s:
        if ch in _SHORT:
            out.append(_SHORT[ch])
        elif ord(ch) < 0x20:
            out.append("\\u%04x" % ord(ch))
        else:
            out.append(ch)
    out.append('"')
    return "".join(out)


def utf16_units(s):
    b = s.encode("utf-16-be", "surrogatepass")
    return [(b[i] << 8) | b[i + 1] for i in range(0, len(b), 2)]


def jcs(v, sort=True):
    """RFC 8785 text of a JSON value; sort=False keeps member insertion order (the canonicalizer's non-sorting 'serialize' form)"""
    if v is None:
        return "null"
    if v is True:
        return "true"
    if v is False:
        return "false"
    if isinstance(v, (int, float)):
        return es6_number(v)
    if isinstance(v, str):
        return string(v)
    if isinstance(v, (list, tuple)):
        return "[" + ",".join(jcs(x, sort) for x in v) + "]"
    if isinstance(v, dict):
        items = sorted(v.items(), key=lambda kv: utf16_units(kv[0])) if sort else list(v.items())
        return "{" + ",".join(string(k) + ":" + jcs(x, sort) for k, x in items) + "}"
    raise TypeError("not a JSON value: %r" % (v,))


def selftest():
    # RFC 8785 Appendix B (IEEE-754 sample values) + section 3.2.2/3.2.3 examples
    import struct
    vec = [
        ("0000000000000000", "0"), ("8000000000000000", "0"), ("0000000000000001", "5e-324"), ("8000000000000001", "-5e-324"),
        ("7fefffffffffffff", "1.7976931348623157e+308"), ("ffefffffffffffff", "-1.7976931348623157e+308"),
        ("4340000000000000", "9007199254740992"), ("c340000000000000", "-9007199254740992"), ("4430000000000000", "295147905179352830000"),
        ("44b52d02c7e14af5", "9.999999999999997e+22"), ("44b52d02c7e14af6", "1e+23"), ("44b52d02c7e14af7", "1.0000000000000001e+23"),
        ("444b1ae4d6e2ef4e", "999999999999999700000"), ("444b1ae4d6e2ef4f", "999999999999999900000"), ("444b1ae4d6e2ef50", "1e+21"),
        ("3eb0c6f7a0b5ed8c", "9.999999999999997e-7"), ("3eb0c6f7a0b5ed8d", "0.000001"), ("41b3de4355555553", "333333333.3333332"),
        ("41b3de4355555554", "333333333.33333325"), ("41b3de4355555555", "333333333.3333333"), ("41b3de4355555556", "333333333.3333334"),
        ("41b3de4355555557", "333333333.33333343"), ("becbf647612f3696", "-0.0000033333333333333333"), ("43143ff3c1cb0959", "1424953923781206.2"),
    ]
    for hx, want in vec:
        x = struct.unpack(">d", bytes.fromhex(hx))[0]
        got = es6_number(x)
        assert got == want, (hx, got, want)
    src = "\u20ac$\x0f\nA'B\"\\\\\"/"
    assert jcs({"numbers": [333333333.33333329, 1E30, 4.50, 2e-3, 0.000000000000000000000000001], "string": src, "literals": [None, True, False]}) == \
        '{"literals":[null,true,false],"numbers":[333333333.3333333,1e+30,4.5,0.002,1e-27],"string":"\u20ac$\\u000f\\nA\'B\\"\\\\\\\\\\"/"}'
    # RFC 8785 3.2.3 sorting example
    d = {"€": "Euro Sign", "\r": "Carriage Return", "דּ": "Hebrew Letter Dalet With Dagesh", "1": "One", "\U0001f600": "Emoji: Grinning Face",
         "\u0080": "Control", "ö": "Latin Small Letter O With Diaeresis"}
    order = [k for k in sorted(d, key=utf16_units)]
    assert order == ["\r", "1", "\u0080", "ö", "€", "\U0001f600", "דּ"], order
    assert es6_number(10 ** 21) == "1e+21" and es6_number(10 ** 21 - 1) == "1e+21" and es6_number(123456789012345680000) == "123456789012345680000"
    assert es6_number(1e-6) == "0.000001" and es6_number(1e-7) == "1e-7" and es6_number(-0.0) == "0" and es6_number(2 ** 53 + 1) == "9007199254740992"
    return len(vec) + 8
