"""Integer-arithmetic reference for STIX timestamps (no datetime, no strftime).

instant  = microseconds since 0001-01-01T00:00:00Z (proleptic Gregorian), an int
parse_ts = exact reader of 'YYYY-MM-DDTHH:MM:SS[.f+]Z' into (instant in picoseconds, number of fraction digits)
fmt      = canonical writer: four-digit year, 'Z', truncation (never rounding) to the precision, digit-count rule
"""
import re

US = 1000000
PS_PER_US = 1000000


def days_from_civil(y, m, d):
    """Days since 0001-01-01 (day 0) for a proleptic Gregorian date (H. Hinnant's algorithm, shifted)."""
    y -= m <= 2
    era = (y if y >= 0 else y - 399) // 400
    yoe = y - era * 400
    doy = (153 * (m + (-3 if m > 2 else 9)) + 2) // 5 + d - 1
    doe = yoe * 365 + yoe // 4 - yoe // 100 + doy
    return era * 146097 + doe - 719468 + 719162   # 719162 = days from 0001-01-01 to 1970-01-01


def civil_from_days(z):
    z = z - 719162 + 719468
    era = (z if z >= 0 else z - 146096) // 146097
    doe = z - era * 146097
    yoe = (doe - doe // 1460 + doe // 36524 - doe // 146096) // 365
    y = yoe + era * 400
    doy = doe - (365 * yoe + yoe // 4 - yoe // 100)
    mp = (5 * doy + 2) // 153
    d = doy - (153 * mp + 2) // 5 + 1
    m = mp + (3 if mp < 10 else -9)
    return (y + (m <= 2), m, d)


def is_leap(y):
    return y % 4 == 0 and (y % 100 != 0 or y % 400 == 0)


def days_in_month(y, m):
    return [31, 29 if is_leap(y) else 28, 31, 30, 31, 30, 31, 31, 30, 31, 30, 31][m - 1]


def instant(y, mo, d, h=0, mi=0, s=0, us=0, offset_min=0):
    """UTC instant (int microseconds since 0001-01-01T00:00:00Z) of a local wall time with a UTC offset in minutes."""
    return ((days_from_civil(y, mo, d) * 86400 + h * 3600 + mi * 60 + s) - offset_min * 60) * US + us


MIN_INSTANT = 0
MAX_INSTANT = instant(9999, 12, 31, 23, 59, 59, 999999)


def split(inst):
    days, rem = divmod(inst, 86400 * US)
    secs, us = divmod(rem, US)
    y, mo, d = civil_from_days(days)
    return y, mo, d, secs // 3600, (secs // 60) % 60, secs % 60, us


def truncate(inst, precision, constraint):
    """precision in {'any','second','millisecond'}, constraint in {'exact','min'}"""
    if constraint == "exact":
        if precision == "second":
            return inst - inst % US
        if precision == "millisecond":
            return inst - inst % 1000
    return inst


def fmt(inst, precision="any", constraint="exact"):
    inst = truncate(inst, precision, constraint)
    y, mo, d, h, mi, s, us = split(inst)
    digits = "%06d" % us
    minimal = digits.rstrip("0")
    if precision == "any":
        frac = minimal
    elif precision == "second":
        frac = "" if constraint == "exact" else minimal
    else:
        frac = digits[:3] if constraint == "exact" else (minimal if len(minimal) >= 3 else digits[:3])
    return "%04d-%02d-%02dT%02d:%02d:%02d%s%sZ" % (y, mo, d, h, mi, s, "." if frac else "", frac)


TS_RE = re.compile(r"^(\d{4})-(\d{2})-(\d{2})T(\d{2}):(\d{2}):(\d{2})(?:\.(\d+))?Z\Z")


def parse_ts(text):
    """Exact reader of the canonical form. Returns (instant_in_picoseconds, fraction_digit_count) or None if not canonical."""
    if not isinstance(text, str):
        return None
    m = TS_RE.match(text)
    if not m:
        return None
    y, mo, d, h, mi, s = (int(g) for g in m.groups()[:6])
    frac = m.group(7) or ""
    if not (1 <= y <= 9999 and 1 <= mo <= 12 and 1 <= d <= days_in_month(y, mo) and h <= 23 and mi <= 59 and s <= 60):
        return None
    if len(frac) > 12:
        frac12 = frac[:12]
    else:
        frac12 = frac.ljust(12, "0")
    ps = instant(y, mo, d, h, mi, s) * PS_PER_US + int(frac12 or "0")
    return ps, len(frac)


def instant_of(text):
    """Instant in picoseconds of a canonical timestamp string, or None."""
    r = parse_ts(text)
    return None if r is None else r[0]


def canonical_shape(text, precision="any", constraint="exact"):
    """Does `text` have the canonical shape the precision demands (four-digit year, Z, digit count)?"""
    r = parse_ts(text)
    if r is None:
        return False
    n = r[1]
    frac = TS_RE.match(text).group(7) or ""
    if precision == "any":
        return n == 0 or not frac.endswith("0")
    if precision == "second":
        return n == 0 if constraint == "exact" else (n == 0 or not frac.endswith("0"))
    if constraint == "exact":
        return n == 3
    return n == 3 or (n > 3 and not frac.endswith("0"))


def selftest():
    import datetime as dt
    n = 0
    epoch = dt.datetime(1, 1, 1)
    for y in (1, 4, 100, 400, 999, 1000, 1582, 1600, 1900, 1970, 2000, 2016, 2017, 2100, 9999):
        for (mo, d) in ((1, 1), (2, 28), (3, 1), (12, 31), (2, 29) if is_leap(y) else (6, 15)):
            for (h, mi, s, us) in ((0, 0, 0, 0), (23, 59, 59, 999999), (12, 34, 56, 7800)):
                want = dt.datetime(y, mo, d, h, mi, s, us) - epoch
                want_us = (want.days * 86400 + want.seconds) * US + want.microseconds
                got = instant(y, mo, d, h, mi, s, us)
                assert got == want_us, (y, mo, d, got, want_us)
                assert split(got) == (y, mo, d, h, mi, s, us)
                n += 1
    assert fmt(instant(2017, 1, 1, 0, 0, 0, 0)) == "2017-01-01T00:00:00Z"
    assert fmt(instant(2017, 1, 1, 0, 0, 0, 120000)) == "2017-01-01T00:00:00.12Z"
    assert fmt(instant(2017, 1, 1, 0, 0, 0, 129999), "millisecond", "exact") == "2017-01-01T00:00:00.129Z"
    assert fmt(instant(2017, 1, 1, 0, 0, 0, 100000), "millisecond", "min") == "2017-01-01T00:00:00.100Z"
    assert fmt(instant(2017, 1, 1, 0, 0, 0, 123400), "millisecond", "min") == "2017-01-01T00:00:00.1234Z"
    assert fmt(instant(2017, 1, 1, 0, 0, 0, 999999), "second", "exact") == "2017-01-01T00:00:00Z"
    assert fmt(instant(2017, 1, 1, 0, 0, 0, 500000), "second", "min") == "2017-01-01T00:00:00.5Z"
    assert fmt(instant(999, 1, 1)) == "0999-01-01T00:00:00Z"
    assert fmt(instant(2017, 1, 1, 5, 30, 0, 0, offset_min=330)) == "2017-01-01T00:00:00Z"
    assert parse_ts("2017-01-01T00:00:00.5Z") == (instant(2017, 1, 1, 0, 0, 0, 500000) * PS_PER_US, 1)
    assert parse_ts("2017-01-01T00:00:00.1234567Z")[0] == instant(2017, 1, 1, 0, 0, 0, 123456) * PS_PER_US + 700000
    assert parse_ts("999-01-01T00:00:00Z") is None and parse_ts("2017-02-30T00:00:00Z") is None
    assert canonical_shape("2017-01-01T00:00:00.100Z", "millisecond", "min") and not canonical_shape("2017-01-01T00:00:00.1000Z", "millisecond", "min")
    return n + 14
