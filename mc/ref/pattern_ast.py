"""Independent STIX pattern syntax tree: own printer, own reader (third-party ANTLR parse tree of stix2-patterns + my listener and my
unescaping; nothing from stix2), normal form, and the generator menus shared by C10 and C09.

AST (tuples):
  obs  := ("leaf", cmp) | ("obs", OP, (obs, ...)) | ("qual", qualifier, obs) | ("oparen", obs)          OP in AND / OR / FOLLOWEDBY
  cmp  := ("cmp", op, negated, path, const|None) | ("bool", OP, (cmp, ...)) | ("cparen", cmp)            OP in AND / OR
  path := ("path", object_type, (step, ...))      step := ("key", name) | ("idx", int | "*")
  const:= ("int", n) | ("float", x) | ("str", s) | ("bool", b) | ("hex", lowercase digits) | ("bin", base64) | ("ts", instant_ps) | ("set", (const, ...))
  qualifier := ("REPEATS", n) | ("WITHIN", seconds) | ("STARTSTOP", instant_ps, instant_ps)
"""
import itertools
import re

from mc.ref import tsfmt

OBS_PREC = {"FOLLOWEDBY": 1, "OR": 2, "AND": 3}
CMP_PREC = {"OR": 1, "AND": 2}
IDENT = re.compile(r"^[a-zA-Z_][a-zA-Z0-9_]*\Z")
# words the lexer turns into keyword tokens: as a path step they can only be written quoted
RESERVED = {"AND", "OR", "NOT", "FOLLOWEDBY", "LIKE", "MATCHES", "ISSUPERSET", "ISSUBSET", "EXISTS", "LAST", "IN", "START", "STOP", "SECONDS", "true", "false", "WITHIN", "REPEATS", "TIMES"}


# ---- printer -------------------------------------------------------------------------------------------
def esc(s):
    return s.replace("\\", "\\\\").replace("'", "\\'")


def p_const(c):
    k = c[0]
    if k == "int":
        return str(c[1])
    if k == "float":
        # the grammar has no exponent form: positional digits of the shortest round-trip representation
        from decimal import Decimal
        t = format(Decimal(repr(float(c[1]))), "f")
        return t if "." in t else t + ".0"
    if k == "str":
        return "'%s'" % esc(c[1])
    if k == "bool":
        return "true" if c[1] else "false"
    if k == "hex":
        return "h'%s'" % c[1]
    if k == "bin":
        return "b'%s'" % c[1]
    if k == "ts":
        return "t'%s'" % (c[2] if len(c) > 2 else tsfmt.fmt(c[1] // tsfmt.PS_PER_US))
    if k == "set":
        return "(" + ", ".join(p_const(x) for x in c[1]) + ")"
    raise ValueError(c)


def p_path(p):
    out = []
    for i, st in enumerate(p[2]):
        if st[0] == "key":
            name = st[1] if IDENT.match(st[1]) and st[1] not in RESERVED else "'%s'" % esc(st[1])
            out.append(("." if i else "") + name)
        else:
            out.append("[%s]" % st[1])
    return "%s:%s" % (p[1], "".join(out))


def p_cmp(c, parent=0):
    k = c[0]
    if k == "cparen":
        return "(" + p_cmp(c[1]) + ")"
    if k == "bool":
        s = (" %s " % c[1]).join(p_cmp(x, CMP_PREC[c[1]]) for x in c[2])
        return "(" + s + ")" if CMP_PREC[c[1]] < parent else s
    op, neg, path, const = c[1], c[2], c[3], c[4]
    if op == "EXISTS":
        return "%sEXISTS %s" % ("NOT " if neg else "", p_path(path))
    return "%s %s%s %s" % (p_path(path), "NOT " if neg else "", op, p_const(const))


def p_qual(q):
    if q[0] == "REPEATS":
        return "REPEATS %d TIMES" % q[1]
    if q[0] == "WITHIN":
        return "WITHIN %s SECONDS" % q[1]
    return "START t'%s' STOP t'%s'" % (tsfmt.fmt(q[1] // tsfmt.PS_PER_US), tsfmt.fmt(q[2] // tsfmt.PS_PER_US))


def p_obs(o, parent=0):
    k = o[0]
    if k == "leaf":
        return "[" + p_cmp(o[1]) + "]"
    if k == "oparen":
        return "(" + p_obs(o[1]) + ")"
    if k == "qual":
        inner = o[2]
        s = p_obs(inner, 9)
        return "%s %s" % (s, p_qual(o[1]))
    s = (" %s " % o[1]).join(p_obs(x, OBS_PREC[o[1]]) for x in o[2])
    return "(" + s + ")" if OBS_PREC[o[1]] < parent else s


def to_text(ast):
    return p_obs(ast)


def explicit_parens(o):
    """the same tree with a paren node wherever the printer has to emit parentheses (for programmatic model construction, where
    grouping must be expressed with the model's parenthetical node)"""
    def ob(x, parent=0):
        k = x[0]
        if k == "leaf":
            return ("leaf", cm(x[1]))
        if k == "oparen":
            return ("oparen", ob(x[1]))
        if k == "qual":
            inner = ob(x[2], 9)
            return ("qual", x[1], inner)
        y = ("obs", x[1], tuple(ob(z, OBS_PREC[x[1]]) for z in x[2]))
        return ("oparen", y) if OBS_PREC[x[1]] < parent else y

    def cm(x, parent=0):
        k = x[0]
        if k == "cparen":
            return ("cparen", cm(x[1]))
        if k == "bool":
            y = ("bool", x[1], tuple(cm(z, CMP_PREC[x[1]]) for z in x[2]))
            return ("cparen", y) if CMP_PREC[x[1]] < parent else y
        return x
    return ob(o)


# ---- independent reader ----------------------------------------------------------------------------------
def unesc(s):
    out, i = [], 0
    while i < len(s):
        if s[i] == "\\" and i + 1 < len(s):
            out.append(s[i + 1])
            i += 2
        else:
            out.append(s[i])
            i += 1
    return "".join(out)


def _reader(version):
    from antlr4 import TerminalNode
    if version == "2.0":
        from stix2patterns.v20.grammars.STIXPatternParser import STIXPatternParser as PP
        from stix2patterns.v20.pattern import Pattern as PT
    else:
        from stix2patterns.v21.grammars.STIXPatternParser import STIXPatternParser as PP
        from stix2patterns.v21.pattern import Pattern as PT

    def lit(tok):
        t, s = tok.symbol.type, tok.getText()
        if t in (PP.IntPosLiteral, PP.IntNegLiteral):
            return ("int", int(s))
        if t in (PP.FloatPosLiteral, PP.FloatNegLiteral):
            return ("float", float(s))
        if t == PP.StringLiteral:
            return ("str", unesc(s[1:-1]))
        if t == PP.BoolLiteral:
            return ("bool", s.lower() == "true")
        if t == PP.HexLiteral:
            return ("hex", s[2:-1].lower())
        if t == PP.BinaryLiteral:
            return ("bin", s[2:-1])
        if t == PP.TimestampLiteral:
            body = s[2:-1]
            i = tsfmt.instant_of(body)
            return ("ts", i if i is not None else body)
        raise ValueError("unexpected literal " + s)

    def rd(ctx):
        n = type(ctx).__name__
        ch = list(ctx.getChildren())
        if n == "PatternContext":
            return rd(ch[0])
        if n in ("ObservationExpressionsContext", "ObservationExpressionOrContext", "ObservationExpressionAndContext"):
            if len(ch) == 1:
                return rd(ch[0])
            return ("obs", ch[1].getText().upper(), (rd(ch[0]), rd(ch[2])))
        if n == "ObservationExpressionSimpleContext":
            return ("leaf", rd(ch[1]))
        if n == "ObservationExpressionCompoundContext":
            return ("oparen", rd(ch[1]))
        if n in ("ObservationExpressionRepeatedContext", "ObservationExpressionWithinContext", "ObservationExpressionStartStopContext"):
            return ("qual", rd(ch[1]), rd(ch[0]))
        if n == "RepeatedQualifierContext":
            return ("REPEATS", lit(ch[1])[1])
        if n == "WithinQualifierContext":
            return ("WITHIN", lit(ch[1])[1])
        if n == "StartStopQualifierContext":
            a, b = lit(ch[1]), lit(ch[3])
            conv = lambda c: c[1] if c[0] == "ts" else (tsfmt.instant_of(c[1]) if tsfmt.instant_of(c[1]) is not None else c[1])
            return ("STARTSTOP", conv(a), conv(b))
        if n in ("ComparisonExpressionContext", "ComparisonExpressionAndContext"):
            if len(ch) == 1:
                return rd(ch[0])
            return ("bool", ch[1].getText().upper(), (rd(ch[0]), rd(ch[2])))
        if n == "PropTestParenContext":
            return ("cparen", rd(ch[1]))
        if n == "PropTestExistsContext":
            return ("cmp", "EXISTS", ctx.NOT() is not None, rd(ctx.objectPath()), None)
        if n.startswith("PropTest"):
            neg = ctx.NOT() is not None
            toks = [t for t in ch if isinstance(t, TerminalNode) and t.symbol.type != PP.NOT]
            op = toks[0].getText().upper()
            rhs = ch[-1]
            return ("cmp", op, neg, rd(ctx.objectPath()), lit(rhs) if isinstance(rhs, TerminalNode) else rd(rhs))
        if n == "SetLiteralContext":
            return ("set", tuple(rd(c) for c in ch if not isinstance(c, TerminalNode)))
        if n in ("PrimitiveLiteralContext", "OrderableLiteralContext"):
            c = ch[0]
            return lit(c) if isinstance(c, TerminalNode) else rd(c)
        if n == "ObjectPathContext":
            steps = []

            def walk(c):
                m = type(c).__name__
                if m == "FirstPathComponentContext":
                    t = c.getChild(0)
                    steps.append(("key", unesc(t.getText()[1:-1]) if t.symbol.type == PP.StringLiteral else t.getText()))
                elif m == "KeyPathStepContext":
                    t = c.getChild(1)
                    steps.append(("key", unesc(t.getText()[1:-1]) if t.symbol.type == PP.StringLiteral else t.getText()))
                elif m == "IndexPathStepContext":
                    t = c.getChild(1).getText()
                    steps.append(("idx", "*" if t == "*" else int(t)))
                elif not isinstance(c, TerminalNode):
                    for kk in c.getChildren():
                        walk(kk)
            for c in ch[2:]:
                walk(c)
            return ("path", ch[0].getText(), tuple(steps))
        raise ValueError("unexpected parse tree node " + n)

    def read(text):
        p = PT(text)
        return rd(p._Pattern__parse_tree)
    return read


_READERS = {}


def read(text, version="2.1"):
    if version not in _READERS:
        _READERS[version] = _reader(version)
    return _READERS[version](text)


# ---- normal form (structural equivalence that ignores redundant parentheses and flattens associative chains) ---------------
def norm(a):
    k = a[0]
    if k in ("oparen", "cparen"):
        return norm(a[1])
    if k in ("obs", "bool"):
        op, items = a[1], []
        for s in (norm(x) for x in a[2]):
            if s[0] == k and s[1] == op:
                items.extend(s[2])
            else:
                items.append(s)
        return (k, op, tuple(items))
    if k == "leaf":
        return ("leaf", norm(a[1]))
    if k == "qual":
        return ("qual", a[1], norm(a[2]))
    if k == "cmp":
        op, neg = a[1], a[2]
        if op in ("!=", "<>"):
            op, neg = "=", not neg            # 'a != 1' and 'a NOT = 1' denote the same test
        return ("cmp", op, neg, a[3], nconst(a[4]))
    return a


def nconst(c):
    if c is None:
        return None
    if c[0] == "float":
        return ("float", float(c[1]))
    if c[0] == "hex":
        return ("hex", c[1].lower())
    if c[0] == "ts":
        return ("ts", c[1])
    if c[0] == "set":
        return ("set", tuple(nconst(x) for x in c[1]))
    return c


def atoms(a, out=None):
    out = [] if out is None else out
    k = a[0]
    if k == "cmp":
        out.append(a)
    elif k in ("oparen", "cparen", "leaf"):
        atoms(a[1], out)
    elif k == "qual":
        atoms(a[2], out)
    else:
        for x in a[2]:
            atoms(x, out)
    return out


def diff_feature(exp, got):
    """smallest explanation of a structural difference between two normal forms"""
    ea, ga = atoms(exp), atoms(got)
    if len(ea) == len(ga):
        for x, y in zip(ea, ga):
            if x != y:
                if x[1] == y[1] and x[3] == y[3] and x[4] == y[4] and x[2] != y[2]:
                    return "negation-%s/op=%s" % ("lost" if x[2] else "added", x[1])
                if x[1] != y[1] and x[3] == y[3] and x[4] == y[4]:
                    return "operator-changed/%s%s->%s%s" % ("NOT " if x[2] else "", x[1], "NOT " if y[2] else "", y[1])
                if x[3] != y[3]:
                    return "path-changed/%s" % path_feature(x[3])
                return "constant-changed/%s" % (x[4][0] if x[4] else "none")
        return "structure-changed"
    return "atoms-lost-or-added"


def path_feature(p):
    f = []
    for st in p[2]:
        if st[0] == "idx":
            f.append("index*" if st[1] == "*" else "index")
        elif st[1] in RESERVED:
            f.append("keyword-as-key")
        elif not IDENT.match(st[1]):
            f.append("quoted-key" + ("-with-hyphen" if "-" in st[1] else "-without-hyphen"))
        elif st[1].endswith("_ref"):
            f.append("ref")
        else:
            f.append("key")
    if "-" in p[1]:
        f.append("hyphen-type")
    consecutive = any(a[0] == "idx" and b[0] == "idx" for a, b in zip(p[2], p[2][1:]))
    return ("consecutive-indices+" if consecutive else "") + "+".join(sorted(set(f)))


# ---- generator menus -------------------------------------------------------------------------------------
T1 = tsfmt.instant_of("2017-01-01T00:00:00Z")
T2 = tsfmt.instant_of("2017-01-01T00:00:00.123456Z")
T3 = tsfmt.instant_of("2018-01-01T00:00:00Z")
PRIMS = [("int", 1), ("int", -1), ("int", 0), ("float", 1.5), ("float", -0.5), ("float", 1e-7), ("float", 1e22), ("float", 0.1), ("int", 2 ** 63), ("float", 1.2345678e-12), ("float", 5e-324), ("float", 1.7976931348623157e308), ("float", 4.9e-18),
         ("float", 2.220446049250313e-16), ("float", -1.2345678901234567e-5), ("str", "a"), ("str", "it's"), ("str", "back\\slash"), ("str", "both\\'"), ("str", "ü😀"), ("str", ""),
         ("str", "\\\\host\\share"), ("str", "line\nfeed\ttab"), ("bool", True), ("bool", False), ("hex", "ab"), ("bin", "YQ=="), ("ts", T1), ("ts", T2), ("ts", T1, "2017-01-01T00:00:00.000Z"),
         # literals whose payload begins / ends with the letter that introduces their own kind, and strings that look like a literal of another kind
         ("bin", "bW9k"), ("bin", "bbbbTWFu"), ("bin", "AAAb"), ("bin", "bg=="), ("bin", "dGhpcyBpcyBhIHRlc3Q="), ("hex", "ba0b"), ("hex", "0123456789abcdef"), ("str", "'"), ("str", "'a'"),
         ("str", "b'YQ=='"), ("str", "h'ab'"), ("str", "t'2017-01-01T00:00:00Z'"), ("str", "true"), ("str", " a "), ("str", "\\")]
SETS = [("set", (("int", 1), ("int", 2))), ("set", (("str", "a"), ("str", "b'c"))), ("set", (("int", 1),)), ("set", (("ts", T1), ("ts", T3))),
        ("set", (("int", 1), ("str", "x"))), ("set", (("bool", True), ("int", 1), ("float", 1.5))), ("set", (("hex", "ab"), ("hex", "aa"))), ("set", (("str", "a"), ("ts", T1)))]
PATHS = [(("key", "p"),), (("key", "p"), ("key", "q")), (("key", "p"), ("idx", 1)), (("key", "p"), ("idx", "*"), ("key", "q")), (("key", "p_ref"), ("key", "q")),
         (("key", "k-k"),), (("key", "hashes"), ("key", "SHA-256")), (("key", "hashes"), ("key", "MD5")), (("key", "k k"),), (("key", "k.k"),), (("key", "p"), ("key", "it's")),
         (("key", "p"), ("idx", 1), ("idx", 2)), (("key", "p"), ("idx", 10), ("key", "q"), ("idx", "*")),
         # steps that are letters / identifiers only outside ASCII, or end in white space: they stay quoted
         (("key", "p"), ("key", "caf\u00e9")), (("key", "p"), ("key", "\u043a\u043b\u044e\u0447"), ("idx", 1)), (("key", "p"), ("key", "k\n")), (("key", "p"), ("key", "9lives")),
         (("key", "p"), ("key", "\uff4b\uff11")),
         # steps spelled like keywords of the grammar
         (("key", "p"), ("key", "AND")), (("key", "p"), ("key", "true")), (("key", "p"), ("key", "IN"), ("idx", 1)), (("key", "WITHIN"), ("key", "q")), (("key", "p"), ("key", "and")),
         # step names that BEGIN with a quote without being a quoted step: names like any other
         (("key", "p"), ("key", "'abc")), (("key", "p"), ("key", "'a'b'")), (("key", "'"),), (("key", "p"), ("key", "'a\\'")), (("key", "p"), ("key", "a'"), ("idx", 1)),
         # ... and names that LOOK like a quoted step (the quotes belong to the name)
         (("key", "p"), ("key", "'ab'")), (("key", "'ab'"),), (("key", "p"), ("key", "''")), (("key", "p"), ("key", "'a-b'"), ("idx", 1)),
         (("key", "p"), ("key", "k k"), ("idx", "*")), (("key", "p"), ("key", "k-k"), ("idx", "*"), ("key", "q")), (("key", "k k"), ("idx", 1)),
         # quoted steps that need ESCAPES, before each kind of index step and as the first step
         (("key", "p"), ("key", "c'd"), ("idx", "*")), (("key", "p"), ("key", "c\\d"), ("idx", "*")), (("key", "p"), ("key", "c'd"), ("idx", 2)), (("key", "c'd"), ("idx", "*")),
         (("key", "p"), ("key", "c\\'d"), ("idx", "*"), ("key", "q")), (("key", "p"), ("key", "c'd"), ("key", "e\\f"))]
OPS = ["=", "!=", "<", "<=", ">", ">=", "IN", "LIKE", "MATCHES", "ISSUBSET", "ISSUPERSET", "EXISTS"]


def consts_for(op):
    if op == "IN":
        return SETS
    if op in ("LIKE", "MATCHES"):
        return [("str", "a%"), ("str", "^a'b\\\\d$")]
    if op in ("ISSUBSET", "ISSUPERSET"):
        return [("str", "198.51.100.0/24")]
    if op == "EXISTS":
        return [None]
    if op in ("<", "<=", ">", ">="):
        return [c for c in PRIMS if c[0] != "bool"]
    return PRIMS


def atom_menu(objtype="x"):
    """full product of the atom menus: operator x NOT x compatible constant x path (the base is x:p = 1)"""
    out = []
    for op in OPS:
        for neg in (False, True):
            for c in consts_for(op):
                out.append(("cmp", op, neg, ("path", objtype, PATHS[0]), c))
    for path in PATHS[1:]:
        for op, c in (("=", ("int", 1)), ("IN", SETS[0]), ("LIKE", ("str", "a%")), ("EXISTS", None)):
            for neg in (False, True):
                out.append(("cmp", op, neg, ("path", objtype, path), c))
    out.append(("cmp", "=", False, ("path", "x-y", PATHS[0]), ("int", 1)))
    out.append(("cmp", "=", False, ("path", "x-y", PATHS[5]), ("str", "a")))
    return out


def trees(leaves, ops, n, wrap, node, optional_parens=True):
    """all binary trees with n leaves (in order, leaves drawn from `leaves` cyclically), every operator assignment, every choice of
    redundant parentheses around internal nodes and leaves"""
    def shapes(k):
        if k == 1:
            return ["L"]
        out = []
        for i in range(1, k):
            for a in shapes(i):
                for b in shapes(k - i):
                    out.append((a, b))
        return out

    def count_internal(s):
        return 0 if s == "L" else 1 + count_internal(s[0]) + count_internal(s[1])
    res = []
    for sh in shapes(n):
        ni = count_internal(sh)
        for opsel in itertools.product(ops, repeat=ni):
            paren_choices = itertools.product((False, True), repeat=ni + n) if optional_parens else [tuple([False] * (ni + n))]
            for parens in paren_choices:
                it_ops, it_par, it_leaf = iter(opsel), iter(parens), itertools.cycle(leaves)

                def build(s):
                    if s == "L":
                        x = next(it_leaf)
                        return wrap(x) if next(it_par) else x
                    a = build(s[0])
                    op = next(it_ops)
                    b = build(s[1])
                    y = node(op, (a, b))
                    return wrap(y) if next(it_par) else y
                res.append(build(sh))
    return res
