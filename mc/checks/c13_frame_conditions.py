"""C13 - Library operations never modify their arguments or existing objects.

Frame-condition monitor: every public operation of a menu (~45: constructors, parse, parse_observable, copy, versioning, the six marking
functions on objects and dicts, bundling, factory / environment, memory and filesystem stores, composite sources, filters, pattern
equivalence) is executed on argument bundles of several SHAPES (flat, nested, aliased, non-canonical hash spellings, library objects shared
between parents, tuples); a deep snapshot of every argument and of every object created earlier in the history is taken before and after
each call. Histories: every operation alone on every shape, every ordered pair of operations on the same inputs (quick: within an API area
+ a cross-area sample; thorough: all pairs on all shapes). Plus, for the maximal instance of every type of both versions (frozen spec
model) and objects with custom / extension properties: attribute and item assignment / deletion of EVERY property is refused and leaves
the object unchanged; deepcopy is equal, same class and shares no mutable container.
"""
import copy
import datetime as dt
import itertools
import json
import os
import shutil

from mc import env
from mc.spec import gen, harness, model

ID = "C13"
U = "3f7f0c5f-5d54-4292-94ea-ec1e1952be1"
MD5 = "d41d8cd98f00b204e9800998ecf8427e"
SHA256 = "e3b0c44298fc1c149afbf4c8996fb92427ae41e4649b934ca495991b7852b855"
TS = "2020-01-01T00:00:00.000Z"
SHAPES = ["base", "aliased", "noncanonical-hashes", "shared-objects", "tuples"]


def snap(v, depth=0):
    from stix2.base import _STIXBase
    if isinstance(v, _STIXBase):
        try:
            text = v.serialize(include_optional_defaults=True)
        except Exception as e:
            text = "unserializable:" + type(e).__name__
        return ("obj", type(v).__name__, text, snap(dict(v._inner), depth + 1))
    if isinstance(v, dict):
        return ("dict", tuple((k, snap(x, depth + 1)) for k, x in v.items()))
    if isinstance(v, list):
        return ("list", tuple(snap(x, depth + 1) for x in v))
    if isinstance(v, tuple):
        return ("tuple", tuple(snap(x, depth + 1) for x in v))
    if isinstance(v, (set, frozenset)):
        return ("set", tuple(sorted(repr(x) for x in v)))
    if isinstance(v, dt.datetime):
        return ("dt", v.isoformat(), str(getattr(v, "precision", None)), str(getattr(v, "precision_constraint", None)))
    if hasattr(v, "root_types") and type(v).__module__ == "stix2.patterns":       # a pattern model node: its text and the object types it can match
        return ("pattern-node", type(v).__name__, str(v), tuple(sorted(v.root_types)), snap(getattr(v, "operands", None), depth + 1))
    if hasattr(v, "_defaults") and hasattr(v, "create"):          # ObjectFactory
        return ("factory", snap(v._defaults, depth + 1))
    if hasattr(v, "factory") and hasattr(v, "source"):            # Environment
        return ("environment", snap(v.factory, depth + 1), snap(list(getattr(v.source, "filters", [])), depth + 1))
    if hasattr(v, "_data") and isinstance(getattr(v, "_data"), dict):   # memory store/source/sink
        return ("memory", tuple(sorted(v._data)), tuple(repr(f) for f in getattr(v, "filters", ())))
    if hasattr(v, "_filters"):
        return ("filterset", tuple(repr(f) for f in v._filters))
    return (type(v).__name__, repr(v)[:200])


def fresh(shape):
    import stix2
    RED, GREEN = stix2.TLP_RED, stix2.TLP_GREEN
    hk = ("md5", "sha256") if shape == "noncanonical-hashes" else ("MD5", "SHA-256")
    ext = {"source_name": "s", "url": "u", "hashes": {hk[0]: MD5}}
    d = dict(type="malware", spec_version="2.1", id="malware--" + U + "1", created=TS, modified=TS, name="n", is_family=False, labels=["a", "b"],
             external_references=[ext], granular_markings=[{"marking_ref": RED.id, "selectors": ["name", "labels"]}, {"lang": "en", "selectors": ["name"]}, {"marking_ref": GREEN.id, "selectors": ["is_family"]}],
             object_marking_refs=[GREEN.id],
             kill_chain_phases=[{"kill_chain_name": "k", "phase_name": "p"}], x_custom={"k": [1, {"z": 2}]})
    if shape == "aliased":
        d["external_references"] = [ext, ext]
        d["x_custom"] = {"k": d["labels"], "again": d["labels"]}
    if shape == "shared-objects":
        eo = stix2.v21.ExternalReference(**copy.deepcopy(ext))
        kc = stix2.v21.KillChainPhase(kill_chain_name="k", phase_name="p")
        d["external_references"] = [eo]
        d["kill_chain_phases"] = [kc]
    o = stix2.parse(copy.deepcopy(d) if shape != "shared-objects" else dict(d), allow_custom=True)
    sco = dict(type="file", spec_version="2.1", name="f", hashes={hk[0]: MD5, hk[1]: SHA256},
               extensions={"ntfs-ext": {"sid": "s", "alternate_data_streams": [{"name": "a", "hashes": {hk[0]: MD5}}]},
                           "windows-pebinary-ext": {"pe_type": "exe", "sections": [{"name": ".text", "entropy": 1.5, "hashes": {hk[1]: SHA256}}]}})
    if shape == "shared-objects":
        sco["extensions"]["ntfs-ext"] = stix2.v21.NTFSExt(sid="s", alternate_data_streams=[{"name": "a"}])
    od = dict(type="observed-data", id="observed-data--3f7f0c5f-5d54-4292-94ea-ec1e1952be12", created=TS, modified=TS, first_observed="2020-01-01T00:00:00Z",
              last_observed="2020-01-01T00:00:00Z", number_observed=1,
              objects={"0": {"type": "file", "name": "f", "hashes": {hk[0]: MD5}, "parent_directory_ref": "1", "extensions": {"ntfs-ext": {"sid": "s"}}}, "1": {"type": "directory", "path": "p"}})
    marks = [RED.id, "en"]
    sels = ["name", "labels.[0]"]
    if shape == "tuples":
        marks, sels = tuple(marks), tuple(sels)
    lst = [o, copy.deepcopy(d) if shape != "shared-objects" else dict(d)]
    if shape == "aliased":
        lst = [o, o]
    lst20 = [stix2.parse(copy.deepcopy(od)), copy.deepcopy(od)]
    # content the stores keep as the CALLER'S OWN dicts (no registered class): two versions of one id, alone, in a list and in a bundle dict
    unreg = [dict(type="x-unreg", spec_version="2.1", id="x-unreg--" + U + "6", created=TS, modified=TS, name="u1", nested={"k": [1, {"z": 2}]}),
             dict(type="x-unreg", spec_version="2.1", id="x-unreg--" + U + "6", created=TS, modified="2020-01-02T00:00:00.000Z", name="u2", nested={"k": [3]})]
    unreg_bundle = {"type": "bundle", "id": "bundle--" + U + "7", "objects": [copy.deepcopy(unreg[0]), copy.deepcopy(unreg[1])]}
    import stix2.patterns as _P
    pnodes = [_P.EqualityComparisonExpression(_P.ObjectPath(t, ["name"]), _P.StringConstant("x")) for t in ("file", "file", "process")]
    a = dict(pnodes=pnodes, d=d, o=o, sco=sco, od=od, lst20=lst20, unreg=unreg, unreg_bundle=unreg_bundle, marks=marks, sels=sels, lst=lst, red=RED, pats=["[a:b = 1]", "[a:b = 2] OR [a:b = 1]"],
             rel=dict(type="relationship", spec_version="2.1", id="relationship--" + U + "3", created=TS, modified=TS, relationship_type="uses", source_ref=d["id"], target_ref="tool--" + U + "4"),
             defaults={"external_references": [copy.deepcopy(ext) if shape != "noncanonical-hashes" else {"source_name": "s", "url": "u"}], "object_marking_refs": [GREEN.id]},
             filters=[["labels", "in", list(sels)], ["name", "=", "n"]], opts={"pretty": True, "indent": 2})
    from stix2 import Filter as _F, MemorySource as _MS
    a["msrc"] = _MS([copy.deepcopy(d)], allow_custom=True)          # a source of the caller's, with filters of its own
    a["msrc"].filters.add([_F(*f) for f in a["filters"]])
    from stix2.datastore.filters import FilterSet as _FS
    a["fset"] = _FS([_F(*f) for f in a["filters"]])                 # a FilterSet of the caller's, handed over as a query
    return a


class Dirs(object):
    inst = None

    def __init__(self):
        self.dir = env.scratch_dir("c13")
        self.pid = os.getpid()
        self.n = 0
        import atexit
        atexit.register(shutil.rmtree, self.dir, True)

    def new(self):
        self.n += 1
        p = os.path.join(self.dir, "d%d" % self.n)
        os.makedirs(p)
        return p

    @classmethod
    def get(cls):
        if cls.inst is None or cls.inst.pid != os.getpid():
            cls.inst = Dirs()
        return cls.inst


def ops():
    import stix2
    import stix2.equivalence.pattern as EP
    from stix2 import CompositeDataSource, Environment, FileSystemStore, Filter, MemorySink, MemorySource, MemoryStore, ObjectFactory, markings
    from stix2.datastore.filters import FilterSet
    from stix2.canonicalization.Canonicalize import canonicalize
    F = lambda a: [Filter(*f) for f in a["filters"]]
    fsd = lambda: Dirs.get().new()
    L = lambda x: list(x) if isinstance(x, tuple) else x
    O = {
        # -- construction / parsing
        "construct:ctor-kwargs": lambda a: stix2.v21.Malware(allow_custom=True, **a["d"]),
        "construct:ctor-custom_properties": lambda a: stix2.v21.Tool(name="t", custom_properties=a["d"]["x_custom"]),
        "construct:ctor-sco": lambda a: stix2.v21.File(**{k: v for k, v in a["sco"].items() if k != "type"}),
        "construct:ctor-relationship-with-objects": lambda a: stix2.v21.Relationship(a["o"], "uses", a["o"]),
        "construct:parse-dict": lambda a: stix2.parse(a["d"], allow_custom=True),
        "construct:parse-sco": lambda a: stix2.parse(a["sco"]),
        "construct:parse-od20": lambda a: stix2.parse(a["od"]),
        "construct:parse_observable": lambda a: stix2.parse_observable(a["sco"], [], version="2.1"),
        "construct:parse_observable20-valid_refs": lambda a: stix2.parse_observable(a["od"]["objects"]["0"], a.setdefault("vrefs", {"1": "directory"}), version="2.0"),
        "construct:dict_to_stix2": lambda a: stix2.parsing.dict_to_stix2(a["d"], allow_custom=True),
        # -- copies / serialization
        "copy:deepcopy": lambda a: copy.deepcopy(a["o"]),
        "copy:copy": lambda a: copy.copy(a["o"]),
        "copy:serialize-options": lambda a: a["o"].serialize(**a["opts"]),
        "copy:serialize-dict": lambda a: stix2.serialization.serialize(a["d"], pretty=True),
        "copy:canonicalize": lambda a: canonicalize(a["d"]["x_custom"], utf8=False),
        # -- versioning
        "version:new_version-obj": lambda a: a["o"].new_version(labels=L(a["sels"])),
        "version:new_version-obj-nested": lambda a: a["o"].new_version(external_references=a["d"]["external_references"], x_custom=a["d"]["x_custom"]),
        "version:new_version-dict": lambda a: stix2.new_version(a["d"], labels=L(a["sels"])),
        "version:revoke-obj": lambda a: a["o"].revoke(),
        "version:revoke-dict": lambda a: stix2.revoke(a["d"]),
        "version:remove_custom": lambda a: stix2.versioning.remove_custom_stix(a["o"]),
        # -- markings
        "marking:add-gran-obj": lambda a: markings.add_markings(a["o"], L(a["marks"]), L(a["sels"])),
        "marking:add-gran-dict": lambda a: markings.add_markings(a["d"], L(a["marks"]), L(a["sels"])),
        "marking:add-gran-marking-object": lambda a: markings.add_markings(a["o"], a["red"], L(a["sels"])),
        "marking:remove-gran-obj": lambda a: markings.remove_markings(a["o"], a["red"].id, ["name"]),
        "marking:remove-gran-dict": lambda a: markings.remove_markings(a["d"], a["red"].id, ["name"]),
        "marking:clear-gran-dict": lambda a: markings.clear_markings(a["d"], ["name"]),
        "marking:clear-gran-obj": lambda a: markings.clear_markings(a["o"], ["labels"]),
        "marking:clear-gran-dict-single-selector-marking": lambda a: markings.clear_markings(a["d"], ["is_family"]),
        "marking:set-gran-dict-single-selector-marking": lambda a: markings.set_markings(a["d"], L(a["marks"])[:1], ["is_family"]),
        "marking:remove-gran-dict-single-selector-marking": lambda a: markings.remove_markings(a["d"], stix2.TLP_GREEN.id, ["is_family"]),
        "marking:set-gran-dict": lambda a: markings.set_markings(a["d"], L(a["marks"]), ["name"]),
        "marking:set-gran-obj": lambda a: markings.set_markings(a["o"], L(a["marks"]), ["name"]),
        "marking:add-obj-level-obj": lambda a: markings.add_markings(a["o"], L(a["marks"])[:1]),
        "marking:add-obj-level-dict": lambda a: markings.add_markings(a["d"], L(a["marks"])[:1]),
        "marking:method-add-obj-level": lambda a: a["o"].add_markings(a["red"]),
        "marking:remove-obj-level-dict": lambda a: markings.remove_markings(a["d"], [stix2.TLP_GREEN.id]),
        "marking:remove-obj-level-obj": lambda a: markings.remove_markings(a["o"], [stix2.TLP_GREEN.id]),
        "marking:set-obj-level-obj": lambda a: markings.set_markings(a["o"], L(a["marks"])[:1]),
        "marking:clear-obj-level-dict": lambda a: markings.clear_markings(a["d"]),
        "marking:get-dict": lambda a: markings.get_markings(a["d"], L(a["sels"]), inherited=True, descendants=True),
        "marking:is_marked-obj": lambda a: markings.is_marked(a["o"], L(a["marks"])[:1], L(a["sels"]), inherited=True),
        # -- bundles
        "bundle:args": lambda a: stix2.v21.Bundle(a["o"], a["lst"], allow_custom=True),
        "bundle:objects": lambda a: stix2.v21.Bundle(objects=a["lst"], allow_custom=True),
        "bundle:args-list-then-object": lambda a: stix2.v21.Bundle(a["lst"], a["o"], allow_custom=True),
        "bundle:args-list-object-and-objects": lambda a: stix2.v21.Bundle(a["lst"], a["o"], objects=a["lst"], allow_custom=True),
        "bundle:args-two-lists": lambda a: stix2.v21.Bundle(a["lst"], a["lst"], allow_custom=True),
        "bundle20:args-object-then-list": lambda a: stix2.v20.Bundle(a["lst20"][0], a["lst20"]),
        "bundle20:args-list-then-object": lambda a: stix2.v20.Bundle(a["lst20"], a["lst20"][0], objects=a["lst20"]),
        "bundle20:objects": lambda a: stix2.v20.Bundle(objects=a["lst20"]),
        "bundle:get_obj": lambda a: stix2.v21.Bundle(objects=a["lst"], allow_custom=True).get_obj(a["o"].id),
        # -- factory / environment
        "env:factory-create": lambda a: ObjectFactory(object_marking_refs=a["defaults"]["object_marking_refs"], external_references=a["defaults"]["external_references"])
        .create(stix2.v21.Tool, name="t", external_references=a["d"]["external_references"] if not any(not isinstance(x, dict) for x in a["d"]["external_references"]) else a["defaults"]["external_references"]),
        "env:factory-create-twice": lambda a: (lambda f: (f.create(stix2.v21.Tool, name="t", object_marking_refs=[a["red"].id]), f.create(stix2.v21.Tool, name="u")))(
            a.setdefault("factory", ObjectFactory(object_marking_refs=a["defaults"]["object_marking_refs"], external_references=a["defaults"]["external_references"]))),
        # a list-valued factory default met by a SINGLE value of the caller (appended to a copy, never to the factory's or the caller's list); the later plain create shows the defaults again
        "env:factory-create-single-values": lambda a: (lambda f: (f.create(stix2.v21.Tool, name="t", object_marking_refs=a["red"].id), f.create(stix2.v21.Tool, name="t2", object_marking_refs=a["red"]),
                                                                  f.create(stix2.v21.Tool, name="t3", external_references={"source_name": "single", "url": "u"}),
                                                                  f.create(stix2.v21.Tool, name="t4", external_references=stix2.v21.ExternalReference(source_name="single-object", url="u")),
                                                                  f.create(stix2.v21.Tool, name="u")))(
            a.setdefault("factory", ObjectFactory(object_marking_refs=a["defaults"]["object_marking_refs"], external_references=a["defaults"]["external_references"]))),
        "env:factory-create-no-append": lambda a: (lambda f: (f.create(stix2.v21.Tool, name="t", object_marking_refs=a["red"].id), f.create(stix2.v21.Tool, name="u")))(
            ObjectFactory(object_marking_refs=a["defaults"]["object_marking_refs"], external_references=a["defaults"]["external_references"], list_append=False)),
        "env:environment-create-add": lambda a: (lambda e: (e.create(stix2.v21.Tool, name="t"), e.add(a["lst"][:1]), e.get(a["o"].id), e.add_filters(F(a))))(
            Environment(factory=ObjectFactory(created_by_ref="identity--" + U + "5"), store=MemoryStore())),
        "env:second-environment-defaults": lambda a: two_environments(a),
        # -- stores
        "store:memstore-init": lambda a: MemoryStore(a["lst"]),
        "store:memsource-memsink-init": lambda a: (MemorySource(a["lst"]), MemorySink(a["lst"])),
        "store:memstore-add-query": lambda a: (lambda s: (s.add(a["lst"]), s.query(F(a)), s.get(a["o"].id), s.all_versions(a["o"].id)))(MemoryStore()),
        "store:memstore-shared-with-bundle": lambda a: (lambda s, b: (s.add(b), s.add(a["o"]), s.query([])))(MemoryStore(), stix2.v21.Bundle(objects=a["lst"], allow_custom=True)),
        "store:memstore-unregistered-versions": lambda a: (lambda s: (s.add(a["unreg"][0]), s.add(a["unreg"][1]), s.all_versions(a["unreg"][0]["id"]), s.get(a["unreg"][0]["id"]), s.query(F(a))))(MemoryStore()),
        "store:memstore-unregistered-versions-reverse": lambda a: (lambda s: (s.add(a["unreg"][1]), s.add(a["unreg"][0]), s.query([])))(MemoryStore()),
        "store:memstore-init-unregistered-list": lambda a: MemoryStore(a["unreg"]).query([]),
        "store:memstore-add-unregistered-bundle": lambda a: (lambda s: (s.add(a["unreg_bundle"]), s.query([])))(MemoryStore()),
        "store:memsink-memsource-unregistered": lambda a: (MemorySink(a["unreg"]), MemorySource(a["unreg_bundle"]).all_versions(a["unreg"][0]["id"])),
        "store:fs-unregistered-versions": lambda a: (lambda s: (s.add(a["unreg"][0]), s.add(a["unreg"][1]), s.all_versions(a["unreg"][0]["id"]), s.query(F(a))))(FileSystemStore(fsd(), allow_custom=True)),
        "store:composite-unregistered": lambda a: (lambda c: (c.add_data_sources([MemorySource(a["unreg"][:1]), MemorySource(a["unreg"][1:])]), c.all_versions(a["unreg"][0]["id"]), c.get(a["unreg"][0]["id"])))(CompositeDataSource()),
        "store:memstore-save-load": lambda a: (lambda s, p: (s.save_to_file(p), MemoryStore().load_from_file(p)))(MemoryStore(a["lst"][:1]), os.path.join(fsd(), "x.json")),
        "store:fs-add-get-query": lambda a: (lambda s: (s.add(a["lst"][:1]), s.get(a["o"].id), s.query(F(a)), s.all_versions(a["o"].id)))(FileSystemStore(fsd(), allow_custom=True)),
        "store:fs-add-dict-and-text": lambda a: (lambda s: (s.add(a["rel"]), s.add(json.dumps(a["d"]))))(FileSystemStore(fsd(), allow_custom=True)),
        "store:navigation": lambda a: (lambda s: (s.add([a["o"], a["rel"]]), s.relationships(a["o"]), s.related_to(a["d"]), s.relationships(a["o"].id, relationship_type="uses", source_only=True),
                                                    s.creator_of(a["o"])))(MemoryStore()),
        # the query handed over as the caller's own FilterSet (for instance another source's .filters) to sources that have filters attached
        "store:query-with-callers-filterset": lambda a: (lambda fs, m, fsrc, c: (m.filters.add(Filter("type", "!=", "tool")), fsrc.filters.add(Filter("type", "!=", "identity")), c.add_data_sources([m, fsrc]),
                                                                                 c.filters.add(Filter("name", "!=", "zzz")), m.query(fs), fsrc.query(fs), c.query(fs), m.query(fs), fs))(
            a["fset"], MemorySource(a["lst"]), FileSystemStore(fsd(), allow_custom=True).source, CompositeDataSource()),
        "store:query-with-another-sources-filters": lambda a: (lambda m1, m2: (m2.filters.add(Filter("type", "!=", "tool")), m2.query(m1.filters), m1.query(), list(m1.filters)))(
            a["msrc"], MemorySource(a["lst"])),
        "store:composite": lambda a: (lambda c, l: (c.add_data_sources(l), c.get(a["o"].id), c.query(F(a)), c.remove_data_sources([x.id for x in l]), l))(
            CompositeDataSource(), a.setdefault("sources", [MemoryStore(a["lst"][:1]).source, MemorySource(a["lst"][1:])])),
        # -- filters / patterns / utils
        "misc:filter-list-value": lambda a: Filter("labels", "in", L(a["sels"])),
        "misc:filterset-add-remove": lambda a: (lambda fs, l: (fs.add(l), fs.remove(l[:1]), l))(FilterSet(), a.setdefault("flist", F(a))),
        "misc:apply-filters": lambda a: list(stix2.datastore.filters.apply_common_filters(a["lst"], F(a))),
        "misc:equivalent-patterns": lambda a: (EP.equivalent_patterns(a["pats"][0], a["pats"][1]), EP.find_equivalent_patterns("[a:b = 1]", a["pats"])),
        "misc:create_pattern_object": lambda a: str(stix2.pattern_visitor.create_pattern_object(a["pats"][1])),
        "misc:deduplicate": lambda a: stix2.utils.deduplicate(a["lst"]),
        # -- pattern model nodes assembled into larger expressions (the nodes are the caller's objects)
        "pattern:or-over-nodes": lambda a: stix2.patterns.OrBooleanExpression([a["pnodes"][0], a["pnodes"][2]]),
        "pattern:and-over-nodes": lambda a: stix2.patterns.AndBooleanExpression([a["pnodes"][0], a["pnodes"][1]]),
        "pattern:and-refused": lambda a: stix2.patterns.AndBooleanExpression([a["pnodes"][1], a["pnodes"][2]]),
        "pattern:parenthetical+observation": lambda a: str(stix2.patterns.ObservationExpression(stix2.patterns.ParentheticalExpression(stix2.patterns.OrBooleanExpression([a["pnodes"][0], a["pnodes"][2]])))),
        "pattern:operands-list": lambda a: stix2.patterns.OrBooleanExpression(a["pnodes"]),
        "misc:datetime-utils": lambda a: (stix2.utils.format_datetime(a["o"].created), stix2.utils.parse_into_datetime(a["o"].created, precision="second")),
    }
    return O


def two_environments(a):
    """two Environments created independently: setting a default on one must not change what the other creates"""
    import stix2
    from stix2 import Environment, MemoryStore
    e2 = Environment(store=MemoryStore())
    s0 = snap(e2)
    t0 = json.loads(e2.create(stix2.v21.Tool, name="t", id="tool--" + U + "9", created=TS, modified=TS).serialize())
    e1 = Environment(store=MemoryStore())
    e1.set_default_creator("identity--" + U + "6")
    e1.set_default_object_marking_refs([stix2.TLP_RED.id])
    t1 = json.loads(e2.create(stix2.v21.Tool, name="t", id="tool--" + U + "9", created=TS, modified=TS).serialize())
    try:
        if snap(e2) != s0 or t0 != t1:
            return "SHARED-STATE: %s" % sorted(set(t1) - set(t0))
        return "independent"
    finally:
        e1.factory._defaults.clear()      # leave no trace for the next history of this worker


def run_history(case, part):
    env.reset()
    O = ops()
    a = fresh(case["shape"])
    created = {}
    before = {k: snap(v) for k, v in a.items()}
    part.evaluations += 1
    part.state((case["shape"], tuple(case["ops"])), nontrivial=len(case["ops"]) > 1)
    for i, name in enumerate(case["ops"]):
        part.transitions += 1
        keys_before = set(a)
        try:
            r = O[name](a)
            if hasattr(r, "__next__"):
                r = list(r)
            part.outcome("op-returned")
            if isinstance(r, str) and r.startswith("SHARED-STATE"):
                part.violation("C13/shared-state/Environment-default-factory", "setting a default on one Environment changes what another, independently created Environment produces",
                               dict(case, at=i), "independent", r)
        except harness.lib_errors() as e:
            r = None
            part.outcome("op-refused")
        except Exception as e:
            r = None
            part.outcome("op-raised:" + type(e).__name__)
        for k in set(a) - keys_before:        # objects the operation itself stored for later steps
            before[k] = snap(a[k])
        after = {k: snap(v) for k, v in a.items()}
        changed = sorted(k for k in before if k in after and before[k] != after[k] and k not in ("factory", "env2", "sources", "flist", "vrefs"))      # "fset" (the caller's own FilterSet) is NOT exempt
        if changed:
            part.violation("C13/argument-modified/%s/%s" % (name, "+".join(changed)), "an operation changed one of its arguments (or a value reachable from them)",
                           dict(case, at=i), "unchanged", {k: diff_hint(before[k], after[k]) for k in changed})
            before.update({k: after[k] for k in changed})
        # stateful helpers kept across steps may change only through their own documented mutators
        for k in ("env2",):
            if k in before and k in after and before[k] != after[k]:
                part.violation("C13/shared-state/%s/%s" % (name, k), "an operation on one object changed another, previously created object", dict(case, at=i), "unchanged", diff_hint(before[k], after[k]))
                before[k] = after[k]
        for cname, (obj, s0) in list(created.items()):
            s1 = snap(obj)
            if s1 != s0:
                part.violation("C13/existing-object-modified/%s/created-by=%s" % (name, cname.split("#")[0]), "an operation changed an object created earlier in the history",
                               dict(case, at=i), "unchanged", diff_hint(s0, s1))
                created[cname] = (obj, s1)
        if r is not None:
            created["%s#%d" % (name, i)] = (r, snap(r))


def diff_hint(a, b, path=""):
    if a == b:
        return None
    if isinstance(a, tuple) and isinstance(b, tuple) and len(a) == len(b) and a and b and a[0] == b[0]:
        for i, (x, y) in enumerate(zip(a, b)):
            if x != y:
                return diff_hint(x, y, path + "/%d" % i)
    return "%s: %s -> %s" % (path, repr(a)[:120], repr(b)[:120])


# ---- immutability and deep copies of every type ------------------------------------------------------------------
def containers(v, acc):
    from stix2.base import _STIXBase
    if isinstance(v, _STIXBase):
        acc.add(id(v))
        acc.add(id(v._inner))
        for x in v._inner.values():
            containers(x, acc)
    elif isinstance(v, dict):
        acc.add(id(v))
        for x in v.values():
            containers(x, acc)
    elif isinstance(v, list):
        acc.add(id(v))
        for x in v:
            containers(x, acc)
    return acc


def run_object(case, part):
    import stix2
    from stix2.exceptions import ImmutableError
    env.reset()
    if case.get("special"):
        objs = special_objects()
        obj = objs[case["special"]]
        label = case["special"]
    else:
        version, key = case["version"], case["key"]
        wrapped = None
        for k2, l2, i2, w2, loc2 in harness.all_cases(version, keys=[key]):
            if l2 == "max":
                wrapped = w2
        obj = stix2.parse(copy.deepcopy(wrapped), allow_custom=False)
        label = "%s %s" % (version, key)
    part.state(("object", label), nontrivial=True)
    targets = [("top", obj)]
    # embedded objects, extensions and container members are library objects too
    for name, v in obj.items():
        vs = v if isinstance(v, list) else list(v.values()) if isinstance(v, dict) else [v]
        for x in vs:
            if isinstance(x, stix2.base._STIXBase):
                targets.append(("nested:" + name, x))
    for where, t in targets:
        s0 = snap(t)
        names = list(t.keys()) + ["brand_new_property"]
        for pn in names:
            for opname, fn in (("setattr", lambda: setattr(t, pn, "x")), ("delattr", lambda: delattr(t, pn)), ("setitem", lambda: t.__setitem__(pn, "x")), ("delitem", lambda: t.__delitem__(pn)),
                               ("inner-via-dict()", lambda: dict(t).__setitem__(pn, "x"))):
                part.evaluations += 1
                part.transitions += 1
                refused = False
                try:
                    fn()
                except (ImmutableError, TypeError, AttributeError, KeyError):
                    refused = True
                except Exception:
                    refused = True
                changed = snap(t) != s0
                readable_changed = False
                if opname == "setattr" and not refused:
                    try:
                        readable_changed = getattr(t, pn) == "x" and (pn not in t or t[pn] != "x")
                    except Exception:
                        pass
                kind = "custom-property" if pn.startswith("x_") else "extension-property" if pn.startswith("ext_") else "new-name" if pn == "brand_new_property" else "spec-property"
                if opname == "inner-via-dict()":
                    if changed:
                        part.violation("C13/dict-view-aliases-object", "dict(obj) hands out the object's own storage", dict(case, where=where, prop=pn), "copy", "alias")
                    continue
                part.outcome("%s:%s" % (opname, "refused" if refused else "ALLOWED"))
                if (not refused and opname in ("setattr", "setitem", "delitem", "delattr") and (pn != "brand_new_property" or opname == "setattr")) or changed or readable_changed:
                    if not refused or changed:
                        part.violation("C13/assignment-not-refused/%s/%s" % (opname, kind), "direct assignment to / deletion of a property is not refused (or changed the object)",
                                       dict(case, where=where, prop=pn), "refused, object unchanged", "allowed" if not refused else "object changed")
                        if changed:
                            s0 = snap(t)
    # deep copy: equal, same class, no shared mutable container
    part.evaluations += 1
    cp = copy.deepcopy(obj)
    if type(cp) is not type(obj) or not (cp == obj) or cp.serialize() != obj.serialize():
        part.violation("C13/deepcopy-not-equal", "a deep copy differs from its original", case, obj.serialize()[:200], cp.serialize()[:200])
    shared = containers(obj, set()) & containers(cp, set())
    part.outcome("deepcopy:" + ("disjoint" if not shared else "SHARED"))
    if shared:
        part.violation("C13/deepcopy-shares-state", "a deep copy shares a mutable container with its original", case, "disjoint", "%d shared containers" % len(shared))
    asdict = dict(obj)
    if snap(copy.deepcopy(asdict)) != snap(asdict):
        part.violation("C13/deepcopy-not-equal/dict-of-object", "a deep copy of the object's content as a dict differs from it (values or their format)", case, repr(snap(asdict))[:300], repr(snap(copy.deepcopy(asdict)))[:300])
    cp2 = copy.copy(obj)
    if not (cp2 == obj):
        part.violation("C13/copy-not-equal", "a shallow copy differs from its original", case, "equal", "different")


def special_objects():
    import stix2
    from stix2 import properties as P
    R = stix2.registry.STIX2_OBJ_MAPS
    if "extension-definition--" + U + "a" not in R["2.1"]["extensions"]:
        @stix2.v21.CustomExtension("extension-definition--" + U + "a", [("ext_rank", P.IntegerProperty())])
        class E(object):
            extension_type = "toplevel-property-extension"
    a = fresh("base")
    return {
        "object-with-custom-properties": a["o"],
        "object-with-custom_properties-arg": stix2.v21.Tool(name="t", custom_properties={"x_foo": "bar", "x_list": [1, 2]}),
        "object-with-toplevel-extension-property": stix2.v21.Tool(name="t", ext_rank=3, extensions={"extension-definition--" + U + "a": {"extension_type": "toplevel-property-extension"}}),
        "object-with-unregistered-toplevel-extension-property": stix2.parse({"type": "tool", "spec_version": "2.1", "id": "tool--" + U + "7", "created": TS, "modified": TS, "name": "t", "ext_other": [1],
                                                                             "extensions": {"extension-definition--" + U + "b": {"extension_type": "toplevel-property-extension"}}}),
        # a library timestamp (sub-millisecond digits, 'at least millisecond' format) read from one object and kept in an untyped place of another
        "object-with-timestamp-object-in-custom-property": stix2.v21.Tool(name="t", allow_custom=True, x_seen=stix2.v21.Identity(name="i", identity_class="individual",
                                                                           created="2020-01-01T00:00:00.123456Z", modified="2020-01-02T00:00:00.100000Z").created,
                                                                           x_list=[stix2.utils.STIXdatetime(2020, 1, 1, 0, 0, 0, 120000, precision="millisecond", precision_constraint="min")]),
        "v20-object-with-custom-property": stix2.v20.Tool(name="t", labels=["remote-access"], x_foo="bar", allow_custom=True),
        "bundle-with-dict-member": stix2.v21.Bundle(objects=[a["o"], {"type": "x-unreg", "spec_version": "2.1", "id": "x-unreg--" + U + "8", "foo": [1, {"a": 2}]}], allow_custom=True),
    }


def run_case(case, part):
    if case["kind"] == "history":
        run_history(case, part)
    else:
        run_object(case, part)


def replay(case, part):
    c = {k: v for k, v in case.items() if k not in ("at", "where", "prop")}
    run_case(c, part)


def run(run):
    th = run.thorough
    names = sorted(ops())
    cases = []
    for sh in SHAPES:
        for n in names:
            cases.append({"kind": "history", "shape": sh, "ops": [n]})
    areas = {}
    for n in names:
        areas.setdefault(n.split(":")[0], []).append(n)
    pair_shapes = SHAPES if th else ["base", "noncanonical-hashes"]
    for sh in pair_shapes:
        if th:
            pairs = list(itertools.product(names, repeat=2))
        else:
            pairs = [p for ar in areas.values() for p in itertools.product(ar, repeat=2)]
            # cross-area sample with a fixed stride (deterministic, not random): every operation meets a rotating partner of every other area
            for i, n in enumerate(names):
                for j, ar in enumerate(sorted(areas)):
                    if ar != n.split(":")[0]:
                        m = areas[ar][(i + j) % len(areas[ar])]
                        pairs.append((n, m))
                        pairs.append((m, n))
        for p in sorted(set(pairs)):
            cases.append({"kind": "history", "shape": sh, "ops": list(p)})
    for version in ("2.0", "2.1"):
        g = gen.Gen(version)
        for key in g.top_keys():
            cases.append({"kind": "object", "version": version, "key": key})
    for sp_ in ("object-with-custom-properties", "object-with-custom_properties-arg", "object-with-toplevel-extension-property", "object-with-unregistered-toplevel-extension-property",
                "v20-object-with-custom-property", "bundle-with-dict-member", "object-with-timestamp-object-in-custom-property"):
        cases.append({"kind": "object", "special": sp_})
    run.mode = "BFS (histories of depth <= 2 over the operation menu)"
    run.rule = ("every operation (%d) alone on every argument shape (%d); ordered pairs of operations on the same inputs (%s); per type maximal instance + 7 special objects: "
                "setattr/delattr/setitem/delitem of every property, deepcopy equality and container disjointness; states = distinct (shape, history) and objects"
                % (len(names), len(SHAPES), "all pairs on all shapes" if th else "all pairs within an API area + a deterministic cross-area cover, on 2 shapes"))
    run.bound = {"operations": len(names), "shapes": SHAPES, "history_depth": 2, "histories": sum(1 for c in cases if c["kind"] == "history"), "objects": sum(1 for c in cases if c["kind"] == "object")}
    run.alphabets = {"operations": names}
    run.assumptions += ["deep structural snapshots (types, values, serialization and _inner of library objects) taken by mc/checks/c13_frame_conditions.py:snap",
                        "aliasing INTO a new object is not flagged; only an observed change is"]
    run.pmap(run_case, cases)
    run.part.sample({"kind": "history", "shape": "noncanonical-hashes", "ops": ["construct:parse-sco", "marking:add-obj-level-obj"], "expect": "the caller's hashes dict still spells 'md5'"})
    run.part.sample({"kind": "object", "special": "object-with-custom-properties", "prop": "x_custom", "op": "setattr", "expect": "ImmutableError"})
    o = run.part.outcomes
    run.require(o.get("op-returned", 0) > 1000, "operations executed")
    run.require(o.get("setattr:refused", 0) > 1000 and o.get("deepcopy:disjoint", 0) > 70, "immutability and deep-copy clauses executed")
