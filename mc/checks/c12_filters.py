"""C12 - Queries return exactly the objects satisfying every filter.

DEV-mode enumeration: all filter sets of size <= 2 (quick) / <= 3 (thorough) over ~45 filters x fixed population x routes
{query argument, attached to the source, attached to a composite, mixed routes} x {MemorySource, FileSystemSource}.
Oracle: naive reference evaluation over everything the store returns for the empty query; conjunction = intersection and
monotonicity on the library's own answers; FileSystem (optimised) = Memory; every route gives the same answer.
"""
import copy
import datetime as dt
import itertools
import json
import operator
import os
import shutil

from mc import env
from mc.ref import tsfmt

ID = "C12"
U = "3f7f0c5f-5d54-4292-94ea-ec1e1952be1"
RED = "marking-definition--5e57c739-391a-4eb3-b6be-7d15ca92d5ed"
T1, T2, T3 = "2020-01-01T00:00:00.000Z", "2020-01-02T00:00:00.000Z", "2020-01-03T00:00:00.500Z"
M1, M2, IND, IDY, IP, OLD, XF, REL = ("malware--" + U + "1", "malware--" + U + "2", "indicator--" + U + "3", "identity--" + U + "4", "ipv4-addr--" + U + "5",
                                      "campaign--3f7f0c5f-5d54-4292-94ea-ec1e1952be16", "x-foo--" + U + "7", "relationship--" + U + "8")
POP = [
    dict(type="malware", spec_version="2.1", id=M1, created=T1, modified=T1, name="alpha", is_family=False, labels=["a", "b"], confidence=10),
    dict(type="malware", spec_version="2.1", id=M1, created=T1, modified=T2, name="alpha2", is_family=False, labels=["b"], confidence=50),
    dict(type="malware", spec_version="2.1", id=M2, created=T3, modified=T3, name="beta", is_family=True, revoked=True),
    dict(type="indicator", spec_version="2.1", id=IND, created=T2, modified=T2, name="alpha", pattern="[a:b = 1]", pattern_type="stix", pattern_version="2.1",
         valid_from="2020-01-01T00:00:00Z", labels=["a"], confidence=50,
         external_references=[{"source_name": "cve", "external_id": "CVE-1"}, {"source_name": "x", "url": "u"}],
         granular_markings=[{"marking_ref": RED, "selectors": ["name", "labels"]}]),
    dict(type="identity", spec_version="2.1", id=IDY, created=T1, modified=T1, name="id"),
    dict(type="ipv4-addr", spec_version="2.1", id=IP, value="1.2.3.4"),
    dict(type="campaign", id=OLD, created=T1, modified=T1, name="old20"),
    dict(type="x-foo", spec_version="2.1", id=XF, created="2020-01-01T00:00:00Z", modified="2020-01-02T00:00:00Z", name="alpha", labels=["a"]),
    dict(type="relationship", spec_version="2.1", id=REL, created=T2, modified=T3, relationship_type="uses", source_ref=M1, target_ref=IDY,
         external_references=[{"source_name": "cve", "external_id": "CVE-2"}], granular_markings=[{"marking_ref": RED, "selectors": ["relationship_type"]}]),
    dict(type="file", spec_version="2.1", id="file--" + U + "9", name="f", extensions={"pdf-ext": {"version": "1.7", "is_optimized": False}}),
    # type names that extend another stored type name (directory / file-name matching in the filesystem source)
    dict(type="malware-analysis", spec_version="2.1", id="malware-analysis--" + U + "a", created=T1, modified=T2, product="alpha", result="benign", labels=["a"]),
    dict(type="x-foo-bar", spec_version="2.1", id="x-foo-bar--" + U + "b", created=T1, modified=T1, name="beta"),
    # dict-kept content whose timestamp has digits below the millisecond (a datetime-valued filter compares instants, not millisecond-cut values)
    dict(type="x-foo-baz", spec_version="2.1", id="x-foo-baz--" + U + "c", created=T1, modified="2020-01-02T00:00:00.000400Z", name="gamma"),
    # the only object of its type, and its identifier is written with upper-case hex digits (accepted and stored verbatim)
    dict(type="course-of-action", spec_version="2.1", id="course-of-action--" + U.upper() + "D", created=T1, modified=T2, name="delta", labels=["a"]),
    # a heterogeneous list: the element that carries the sub-property comes AFTER elements that do not
    dict(type="attack-pattern", spec_version="2.1", id="attack-pattern--" + U + "c", created=T1, modified=T1, name="gamma",
         external_references=[{"source_name": "x", "url": "u"}, {"source_name": "capec", "external_id": "CAPEC-3"}, {"source_name": "y", "description": "d"}],
         kill_chain_phases=[{"kill_chain_name": "k1", "phase_name": "p1"}, {"kill_chain_name": "k2", "phase_name": "p2"}]),
]
TS_PROPS = {"created", "modified", "valid_from"}


def filter_specs():
    """(property, op, value) triples; value ('$dt', text) stands for a datetime object"""
    F = []
    for op, vals in (("=", ["malware", "x-foo", "tool"]), ("!=", ["malware", "tool"]), ("in", [["malware", "indicator"], ["tool"], ["tool", "x-foo"]]),
                     (">=", ["malware"]), ("<", ["malware"]), ("contains", ["alw"])):
        for v in vals:
            F.append(("type", op, v))
    for op, vals in (("=", [M1, IP, "tool--" + U + "9"]), ("!=", [M1]), ("in", [[M1, IND], ["tool--" + U + "9"], [M2, XF, IP]]), (">", [IND]), ("contains", ["--" + U + "1"])):
        for v in vals:
            F.append(("id", op, v))
    # LONG `in` lists (a shortcut that looks names up one by one may switch strategy at some length): the listed population members must still be found
    filler_ids = ["tool--3f7f0c5f-5d54-4292-94ea-%012x" % i for i in range(1, 300)]
    F.append(("id", "in", filler_ids[:16] + [M1, IND] + filler_ids[16:31]))                                   # 33 entries
    F.append(("id", "in", filler_ids[:150] + [M2, XF, IP] + filler_ids[150:]))                                # 302 entries
    F.append(("type", "in", ["x-fill-%d" % i for i in range(20)] + ["malware", "tool"] + ["x-fill-%d" % i for i in range(20, 45)]))   # 47 entries
    F += [("name", "=", "alpha"), ("name", "!=", "alpha"), ("name", "in", ["alpha", "beta"]), ("name", "contains", "lph"), ("name", ">", "alpha"),
          ("labels", "=", "a"), ("labels", "contains", "a"), ("labels", "in", ["a", "z"]), ("labels", "!=", "a"),
          ("created", ">", "2020-01-01T00:00:00Z"), ("created", ">=", "2020-01-02T00:00:00.000000Z"), ("modified", "<", "2020-01-02T00:00:00.000Z"),
          ("modified", "<=", ("$dt", "2020-01-02T00:00:00Z")), ("modified", "=", "2020-01-03T00:00:00.5Z"), ("modified", "!=", "2020-01-02T00:00:00Z"),
          ("created", "=", "2020-01-01T00:00:00Z"), ("created", "=", "2020-01-01T00:00:00.000Z"), ("modified", "<=", "2020-01-02T00:00:00.000Z"),
          # more digits than the stored property keeps (2.0 created / modified are cut to milliseconds; the filter value is an instant, not cut)
          ("modified", "=", "2020-01-01T00:00:00.0004Z"), ("modified", ">=", "2020-01-01T00:00:00.0004Z"), ("modified", "<", "2020-01-01T00:00:00.0004Z"),
          ("confidence", "<", 50), ("confidence", ">=", 50), ("confidence", "=", 50), ("revoked", "=", True), ("revoked", "!=", True), ("is_family", "=", False),
          ("external_references.source_name", "=", "cve"), ("external_references.external_id", "!=", "CVE-1"),
          ("external_references.external_id", "=", "CAPEC-3"), ("external_references.description", "contains", "d"), ("kill_chain_phases.phase_name", "=", "p2"),
          ("granular_markings.selectors", "in", ["name"]), ("granular_markings.selectors", "contains", "labels"),
          ("granular_markings.marking_ref", "=", RED), ("extensions.pdf-ext.version", "=", "1.7"), ("extensions.pdf-ext.is_optimized", "=", False),
          ("nonexistent", "=", "x"), ("nonexistent", "!=", "x")]
    return F


def mk_filter(spec):
    from stix2 import Filter
    import stix2.utils
    p, op, v = spec
    if isinstance(v, (tuple, list)) and len(v) == 2 and v[0] == "$dt":
        v = stix2.utils.parse_into_datetime(v[1])
    return Filter(p, op, v)


def inst(x):
    if isinstance(x, dt.datetime):
        off = x.utcoffset()
        offm = int(off.total_seconds() // 60) if off is not None else 0
        return tsfmt.instant(x.year, x.month, x.day, x.hour, x.minute, x.second, x.microsecond, offm) * tsfmt.PS_PER_US
    if isinstance(x, str):
        return tsfmt.instant_of(x)
    return None


OPS = {">": operator.gt, "<": operator.lt, ">=": operator.ge, "<=": operator.le}


def ref_value(spec, val, propname):
    p, op, fv = spec
    if isinstance(fv, (tuple, list)) and len(fv) == 2 and fv[0] == "$dt":
        fv = ("$instant", tsfmt.instant_of(fv[1]))
    if propname in TS_PROPS and isinstance(val, str) and inst(val) is not None:
        val = ("$instant", inst(val))
        if isinstance(fv, str) and inst(fv) is not None:
            fv = ("$instant", inst(fv))
    if op == "=":
        return val == fv
    if op == "!=":
        return val != fv
    if op == "in":
        return val in list(fv)
    if op == "contains":
        if isinstance(fv, dict) and isinstance(val, dict):
            return fv in val.values()
        return fv in val
    return OPS[op](val, fv)


def ref(spec, o, path=None):
    """naive reference: absent property -> no match; list-valued -> any element; dotted path descends, lists -> any element"""
    path = spec[0].split(".") if path is None else path
    if not isinstance(o, dict) or path[0] not in o:
        return False
    v = o[path[0]]
    if len(path) > 1:
        if isinstance(v, list):
            return any(ref(spec, e, path[1:]) is True for e in v)
        return ref(spec, v, path[1:])
    if isinstance(v, list):
        return any(ref_value(spec, e, path[0]) is True for e in v)
    return ref_value(spec, v, path[0])


def view(o):
    import stix2.serialization
    if isinstance(o, dict):
        return json.loads(stix2.serialization.serialize(o))
    return json.loads(o.serialize(include_optional_defaults=True))


def key(o):
    m = o.get("modified")
    if m is not None and not isinstance(m, str):
        import stix2.utils
        m = stix2.utils.format_datetime(m)
    return (o["id"], None if m is None else tsfmt.instant_of(m))


class World(object):
    """per-worker fixture: the population written once to a scratch directory; fresh sources per query"""
    inst = None

    def __init__(self):
        from stix2 import FileSystemStore, MemoryStore
        self.dir = env.scratch_dir("c12")
        fs = FileSystemStore(self.dir, allow_custom=True)
        for o in POP:
            fs.add(copy.deepcopy(o))
        # ENVIRONMENT: parts of the store directory are symbolic links (a type directory, an object directory, a version file): the same store
        self._symlinks()
        self.mem = MemoryStore([copy.deepcopy(o) for o in POP], allow_custom=True)
        self.stored = {}
        for name in ("mem", "fs"):
            objs = self.source(name).query([])
            self.stored[name] = [(key(o), view(o)) for o in objs]
        import atexit
        atexit.register(shutil.rmtree, self.dir, True)

    def _symlinks(self):
        side = self.dir + "-linked"
        os.makedirs(side, exist_ok=True)
        self.side = side
        import atexit
        atexit.register(shutil.rmtree, side, True)

        def relink(path):
            dst = os.path.join(side, os.path.basename(path) + "-" + str(len(os.listdir(side))))
            shutil.move(path, dst)
            os.symlink(dst, path)
        try:
            relink(os.path.join(self.dir, "identity"))                                            # a whole type directory
            ind = os.path.join(self.dir, "indicator")
            relink(os.path.join(ind, sorted(os.listdir(ind))[0]))                                  # one object directory
            mal = os.path.join(self.dir, "malware", M1)
            relink(os.path.join(mal, sorted(os.listdir(mal))[0]))                                  # one version file
            ip = os.path.join(self.dir, "ipv4-addr")
            relink(os.path.join(ip, sorted(os.listdir(ip))[0]))                                    # an unversioned object's file
        except OSError:
            pass          # a file system without symbolic links: the dimension is not available here

    def source(self, name):
        from stix2 import FileSystemSource, MemorySource
        if name == "fs":
            return FileSystemSource(self.dir, allow_custom=True)
        s = MemorySource(allow_custom=True)
        s._data = self.mem._data            # same contents, fresh (unfiltered) source object
        return s

    @classmethod
    def get(cls):
        if cls.inst is None or cls.inst.pid != os.getpid():
            cls.inst = World()
            cls.inst.pid = os.getpid()
        return cls.inst


ROUTES1 = ["query", "attached", "composite", "nested-composite"]


def run_query(w, store, route_assign, specs):
    """route_assign: list of route names, one per filter ('query' | 'attached' | 'composite')"""
    from stix2 import CompositeDataSource
    src = w.source(store)
    q = [mk_filter(s) for s, r in zip(specs, route_assign) if r == "query"]
    att = [mk_filter(s) for s, r in zip(specs, route_assign) if r == "attached"]
    comp = [mk_filter(s) for s, r in zip(specs, route_assign) if r in ("composite", "nested-composite")]
    if att:
        src.filters.add(att)
    target = src
    if comp or "composite" in route_assign or "nested-composite" in route_assign:
        cds = CompositeDataSource()
        cds.add_data_source(src)
        cds.filters.add(comp)
        target = cds
        if "nested-composite" in route_assign:
            outer = CompositeDataSource()
            outer.add_data_source(cds)
            target = outer
    return target.query(q if q else None), src, target


def feature(specs):
    f = []
    for p, op, v in specs:
        if p in ("type", "id"):
            f.append("%s:%s" % (p, op))
        elif p in TS_PROPS:
            f.append("timestamp:%s" % op)
        elif "." in p:
            f.append("dotted:%s" % op)
        else:
            f.append("%s:%s" % ("list" if p == "labels" else "scalar", op))
    return "+".join(sorted(f))


SINGLE_BAD = {}


def culprit(w, store, specs):
    """smallest explanation: if one filter of the set already misbehaves alone (query route), name only that filter"""
    if len(specs) <= 1:
        return specs
    for s in specs:
        k = (store, json.dumps(s, default=str))
        if k not in SINGLE_BAD:
            exp = {kk for kk, v in w.stored[store] if ref(s, v) is True}
            try:
                got = {key(o) for o in run_query(w, store, ["query"], [s])[0]}
                SINGLE_BAD[k] = got != exp
            except Exception:
                SINGLE_BAD[k] = True
        if SINGLE_BAD[k]:
            return [s]
    return specs


def run_case(case, part):
    if case.get("kind") == "growing":
        return run_growing(case, part)
    w = World.get()
    specs = [tuple(s) if not isinstance(s[2], list) else (s[0], s[1], s[2]) for s in case["filters"]]
    for store in ("mem", "fs"):
        stored = w.stored[store]
        exp = set()
        typeerr = False
        for k, v in stored:
            try:
                if all(ref(s, v) is True for s in specs):
                    exp.add(k)
            except TypeError:
                typeerr = True
        if typeerr:
            part.outcome("reference-not-type-consistent")
            continue
        answers = {}
        for routes in case["routes"]:
            part.evaluations += 1
            part.transitions += 1
            c = {"filters": case["filters"], "routes": [routes], "store": store}
            try:
                res, src, target = run_query(w, store, routes, specs)
            except Exception as e:
                part.outcome("raises:" + type(e).__name__)
                ufeat = "string-property-of-unregistered-dict" if any(s[0] in TS_PROPS for s in specs) and isinstance(e, TypeError) else "other"
                part.violation("C12/query-raises/%s/%s/%s" % (type(e).__name__, ufeat, feature(culprit(w, store, specs))), "a type-consistent query raises", c, sorted(exp, key=str),
                               "%s: %s" % (type(e).__name__, str(e)[:200]))
                continue
            got = [key(o) for o in res]
            gs = set(got)
            answers["/".join(routes)] = gs
            part.state((store, tuple(sorted(map(str, gs)))), nontrivial=0 < len(gs) < len(stored))
            part.outcome("empty" if not gs else "all" if len(gs) == len(stored) else "proper-subset")
            if gs != exp:
                missing, extra = exp - gs, gs - exp
                only_unreg = all(i.startswith("x-foo") for i, _ in (missing | extra))
                cul = culprit(w, store, specs)
                rt = "/".join(sorted(set(routes))) if len(cul) == len(specs) else "any-route"
                if only_unreg and len(cul) == 1 and cul[0][0] in TS_PROPS and isinstance(cul[0][2], str):
                    # one defect, independent of store and route: a timestamp filter given as a string is compared textually with the
                    # string timestamp of a dict-kept (unregistered custom) object
                    part.violation("C12/string-timestamp-filter-vs-dict-kept-object/op%s" % cul[0][1],
                                   "timestamp filter string compared textually (not as an instant) with the string timestamp of a dict-kept object", c,
                                   sorted(exp, key=str), sorted(gs, key=str))
                    continue
                part.violation("C12/%s/%s/%s/%s%s" % (store, rt, "missing" if missing and not extra else "extra" if extra and not missing else "both",
                                                       feature(cul), "/only-unregistered-dict" if only_unreg else ""),
                               "query result differs from the naive evaluation over all stored objects", c, sorted(exp, key=str), sorted(gs, key=str))
            if len(got) != len(gs):
                part.violation("C12/%s/duplicate-answers/%s" % (store, feature(specs)), "an object version is returned twice", c, sorted(gs, key=str), sorted(got, key=str))
            # filters attached to a source apply to every one of its answers (get / all_versions)
            # ... also when some of them are attached to a composite in front of the source (every filter at every level applies to get / all_versions of the outermost target)
            if all(r != "query" for r in routes) and len(specs) <= 2:
                lvl = "attached" if all(r == "attached" for r in routes) else "federated"
                for id_ in (M1, IND, XF, IP):
                    part.transitions += 2
                    try:
                        g = target.get(id_)
                        av = target.all_versions(id_)
                    except Exception as e:
                        part.violation("C12/%s/%s-get-raises/%s/%s" % (store, lvl, type(e).__name__, feature(specs)), "get/all_versions raises with attached filters",
                                       dict(c, id=id_), "answer", "%s: %s" % (type(e).__name__, str(e)[:200]))
                        continue
                    expv = {k for k in exp if k[0] == id_}
                    gav = {key(o) for o in av}
                    if gav != expv and id_ == XF and len(specs) == 1 and specs[0][0] in TS_PROPS and isinstance(specs[0][2], str):
                        part.violation("C12/string-timestamp-filter-vs-dict-kept-object/op%s" % specs[0][1],
                                       "timestamp filter string compared textually (not as an instant) with the string timestamp of a dict-kept object",
                                       dict(c, id=id_), sorted(expv, key=str), sorted(gav, key=str))
                    elif gav != expv:
                        part.violation("C12/%s/%s-all_versions/%s" % (store, lvl, feature(specs)), "all_versions ignores or misapplies filters attached to the source (or to a composite in front of it)",
                                       dict(c, id=id_), sorted(expv, key=str), sorted(gav, key=str))
                    if g is not None and key(g) not in expv:
                        part.violation("C12/%s/%s-get/%s" % (store, lvl, feature(specs)), "get returns an object that fails a filter attached to the source (or to a composite in front of it)",
                                       dict(c, id=id_), sorted(expv, key=str), key(g))
        if len(set(map(frozenset, answers.values()))) > 1:
            part.violation("C12/%s/routes-disagree/%s" % (store, feature(specs)), "the same filters give different answers depending on how they reach the source",
                           {"filters": case["filters"], "routes": case["routes"], "store": store}, "identical", {k: sorted(v, key=str) for k, v in answers.items()})
        case.setdefault("_answers", {})[store] = answers
    a = case.get("_answers", {})
    if "mem" in a and "fs" in a:
        for r in a["mem"]:
            if r in a["fs"] and a["mem"][r] != a["fs"][r]:
                part.violation("C12/stores-disagree/%s" % feature(specs), "FileSystemSource (optimised) and MemorySource answer differently",
                               {"filters": case["filters"], "routes": [r.split("/")]}, sorted(a["mem"][r], key=str), sorted(a["fs"][r], key=str))
                break
    # the query handed over as ONE FilterSet object that is reused: first on a source with an attached filter, then on a plain source and on a composite over both
    if len(specs) == 2:
        from stix2 import CompositeDataSource
        from stix2.datastore.filters import FilterSet
        for store in ("mem", "fs"):
            stored = w.stored[store]
            for qs, at in ((specs[0], specs[1]), (specs[1], specs[0])):
                try:
                    exp_q = {k for k, v in stored if ref(qs, v) is True}
                    exp_qa = {k for k, v in stored if ref(qs, v) is True and ref(at, v) is True}
                except TypeError:
                    continue
                c = {"filters": [list(qs), list(at)], "routes": [["query-as-reused-FilterSet", "attached"]], "store": store}
                try:
                    fset = FilterSet([mk_filter(qs)])
                    a_src, b_src = w.source(store), w.source(store)
                    a_src.filters.add([mk_filter(at)])
                    r1 = {key(o) for o in a_src.query(fset)}
                    r2 = {key(o) for o in b_src.query(fset)}
                    cds = CompositeDataSource()
                    cds.add_data_sources([a_src, b_src])
                    r3 = {key(o) for o in cds.query(fset)}
                    r4 = {key(o) for o in b_src.query(fset)}
                    n_after = len(list(fset))
                except Exception as e:
                    if isinstance(e, TypeError) and any(x[0] in TS_PROPS for x in (qs, at)):
                        continue        # the listed string-property-of-unregistered-dict family is reported by the main loop
                    part.violation("C12/query-raises/%s/reused-filterset" % type(e).__name__, "a type-consistent query raises", c, "answers", "%s: %s" % (type(e).__name__, str(e)[:200]))
                    continue
                part.transitions += 4
                part.evaluations += 4
                bad = [n for n, got, want in (("filtered-source", r1, exp_qa), ("plain-source-afterwards", r2, exp_q), ("composite-over-both", r3, exp_q), ("plain-source-again", r4, exp_q)) if got != want]
                unreg = all(i.startswith("x-foo") for n, got, want in (("a", r1, exp_qa), ("b", r2, exp_q), ("c", r3, exp_q), ("d", r4, exp_q)) for i, _ in (got ^ want))
                if bad and unreg and any(x[0] in TS_PROPS and isinstance(x[2], str) for x in (qs, at)):
                    continue            # the listed string-timestamp-vs-dict-kept-object finding, reported by the main loop
                if bad:
                    part.outcome("reused-filterset:DIFFERS")
                    part.violation("C12/%s/reused-filterset/%s" % (store, "+".join(bad)), "a FilterSet handed to one source changes what later queries with the same FilterSet return", c,
                                   {"filtered-source": sorted(exp_qa, key=str), "others": sorted(exp_q, key=str)},
                                   {"filtered-source": sorted(r1, key=str), "plain-source-afterwards": sorted(r2, key=str), "composite-over-both": sorted(r3, key=str)})
                elif n_after != 1:
                    part.outcome("reused-filterset:DIFFERS")
                    part.violation("C12/%s/reused-filterset/callers-filterset-grew" % store, "querying adds the source's filters to the caller's FilterSet", c, 1, n_after)
                else:
                    part.outcome("reused-filterset:same")
    # HISTORY through nested composites: a parent composite's attached filter applies to the operations that go THROUGH the parent, and to nothing afterwards
    if len(specs) == 2:
        from stix2 import CompositeDataSource
        for store in ("mem", "fs"):
            stored = w.stored[store]
            for qs, at in ((specs[0], specs[1]), (specs[1], specs[0])):
                try:
                    exp_q = {k for k, v in stored if ref(qs, v) is True}
                    exp_qa = {k for k, v in stored if ref(qs, v) is True and ref(at, v) is True}
                except TypeError:
                    continue
                some_id = sorted(stored, key=str)[0][0][0] if stored else None
                for first in ("query", "get", "all_versions"):
                    c = {"filters": [list(qs), list(at)], "routes": [["query", "parent-composite-attached"]], "store": store, "first_operation_through_parent": first}
                    try:
                        child = CompositeDataSource()
                        child.add_data_source(w.source(store))
                        parent = CompositeDataSource()
                        parent.add_data_source(child)
                        parent.filters.add([mk_filter(at)])
                        if first == "query":
                            r1 = {key(o) for o in parent.query([mk_filter(qs)])}
                        else:
                            getattr(parent, first)(some_id)
                            r1 = exp_qa
                        r2 = {key(o) for o in child.query([mk_filter(qs)])}
                        other = CompositeDataSource()
                        other.add_data_source(child)
                        r3 = {key(o) for o in other.query([mk_filter(qs)])}
                        parent.filters.remove(mk_filter(at))
                        r4 = {key(o) for o in parent.query([mk_filter(qs)])}
                        n_child = len(list(child.filters))
                    except Exception as e:
                        if isinstance(e, TypeError) and any(x[0] in TS_PROPS for x in (qs, at)):
                            continue
                        part.violation("C12/query-raises/%s/nested-composite-history" % type(e).__name__, "a type-consistent query raises", c, "answers", "%s: %s" % (type(e).__name__, str(e)[:200]))
                        continue
                    part.transitions += 4
                    part.evaluations += 4
                    rows = (("through-parent", r1, exp_qa), ("child-directly-afterwards", r2, exp_q), ("through-another-parent", r3, exp_q), ("parent-after-its-filter-was-removed", r4, exp_q))
                    bad = [n for n, got, want in rows if got != want]
                    unreg = all(i.startswith("x-foo") for n, got, want in rows for i, _ in (got ^ want))
                    if bad and unreg and any(x[0] in TS_PROPS and isinstance(x[2], str) for x in (qs, at)):
                        continue            # the listed string-timestamp-vs-dict-kept-object finding, reported by the main loop
                    if bad:
                        part.outcome("nested-history:DIFFERS")
                        part.violation("C12/%s/nested-composite-history/%s" % (store, "+".join(bad)), "a filter attached to a parent composite still applies to operations that do not go through it", c,
                                       {n: sorted(want, key=str) for n, got, want in rows if got != want}, {n: sorted(got, key=str) for n, got, want in rows if got != want})
                    elif n_child != 0:
                        part.outcome("nested-history:DIFFERS")
                        part.violation("C12/%s/nested-composite-history/childs-own-filters-grew" % store, "an operation through the parent adds the parent's filters to the child composite's own filter set", c, 0, n_child)
                    else:
                        part.outcome("nested-history:same")
    # conjunction = intersection of the parts, on the library's own answers (query route)
    if len(specs) >= 2:
        for store in ("mem", "fs"):
            try:
                whole = {key(o) for o in run_query(w, store, ["query"] * len(specs), specs)[0]}
                parts = [{key(o) for o in run_query(w, store, ["query"], [s])[0]} for s in specs]
            except Exception:
                continue
            part.transitions += 1 + len(specs)
            inter = set.intersection(*parts)
            if whole != inter:
                part.violation("C12/%s/conjunction-not-intersection/%s" % (store, feature(specs)), "result of a conjunction differs from the intersection of its parts",
                               {"filters": case["filters"], "routes": [["query"] * len(specs)], "store": store}, sorted(inter, key=str), sorted(whole, key=str))
    case.pop("_answers", None)


def run_growing(case, part):
    """HISTORY on one long-lived store object: query, add objects (of types the store has not seen and of known ones), query again - every answer is exactly
    what a scan of what the store holds at that moment gives"""
    from stix2 import FileSystemStore, MemoryStore
    specs = [tuple(s) for s in case["filters"]]
    d = env.scratch_dir("c12g")
    try:
        for sname, mk in (("mem", lambda: MemoryStore(allow_custom=True)), ("fs", lambda: FileSystemStore(os.path.join(d, "s"), allow_custom=True))):
            os.makedirs(os.path.join(d, "s"), exist_ok=True)
            st = mk()
            held = []
            # three instalments: known types only come later in the third
            parts = [POP[0:1] + POP[4:6], POP[2:4] + POP[6:9], POP[1:2] + POP[9:]]
            for step, chunk in enumerate(parts):
                for o in chunk:
                    st.add(copy.deepcopy(o))
                    held.append(o)
                for qname, q in (("filters", [mk_filter(x) for x in specs]), ("no-filter", [])):
                    part.evaluations += 1
                    part.transitions += 1
                    c = {"kind": "growing", "filters": case["filters"], "store": sname, "after_instalment": step, "query": qname}
                    try:
                        got = {key(o) for o in st.query(q)}
                        stored = [(key(o), view(o)) for o in st.query([Filter_id_in([h["id"] for h in held])])]
                        exp = {k for k, v in stored if qname == "no-filter" or all(ref(x, v) is True for x in specs)}
                    except TypeError:
                        part.outcome("growing:not-type-consistent")
                        continue
                    except Exception as e:
                        part.violation("C12/query-raises/%s/growing-store" % type(e).__name__, "a query on a store that is being filled raises", c, "answers", "%s: %s" % (type(e).__name__, str(e)[:160]))
                        continue
                    unreg = all(i.startswith("x-foo") for i, _ in (got ^ exp))
                    if got != exp and unreg and any(x[0] in TS_PROPS and isinstance(x[2], str) for x in specs):
                        continue            # the listed string-timestamp-vs-dict-kept-object finding
                    if got != exp or len(stored) != len(held):
                        part.outcome("growing:DIFFERS")
                        part.violation("C12/%s/growing-store/%s" % (sname, "missing" if exp - got else "extra" if got - exp else "id-route-misses-stored-objects"),
                                       "a query on a long-lived store does not see exactly what the store holds now", c, sorted(exp, key=str), sorted(got, key=str))
                    else:
                        part.outcome("growing:same")
            shutil.rmtree(os.path.join(d, "s"), ignore_errors=True)
    finally:
        shutil.rmtree(d, ignore_errors=True)


def Filter_id_in(ids):
    from stix2 import Filter
    return Filter("id", "in", sorted(set(ids)))


def replay(case, part):
    if case.get("kind") == "growing":
        return run_growing({"kind": "growing", "filters": case["filters"]}, part)
    run_case(copy.deepcopy(case), part)


def routes_for(n, thorough):
    pure = [[r] * n for r in ROUTES1]
    if n == 1:
        return pure
    mixed = [list(p) for p in itertools.product(["query", "attached", "composite"], repeat=n) if len(set(p)) > 1]
    if n >= 3 and not thorough:
        mixed = []
    return pure + mixed


def run(run):
    th = run.thorough
    F = [list(f) for f in filter_specs()]
    cases = [{"filters": [], "routes": [[]]}]
    for n in (1, 2, 3) if th else (1, 2):
        for combo in itertools.combinations(F, n):
            rts = routes_for(n, th)
            if n == 3:
                rts = [["query"] * 3, ["attached"] * 3, ["composite"] * 3, ["query", "attached", "composite"], ["composite", "query", "attached"]]
            cases.append({"filters": [list(c) for c in combo], "routes": rts})
    for f in F:
        cases.append({"kind": "growing", "filters": [f]})
    run.mode = "DEV"
    run.rule = ("all filter sets of size <= %d over %d filters x routes (query argument / attached / composite / nested composite / every mixed assignment for pairs) x "
                "{MemorySource, FileSystemSource} on a fixed population of %d stored versions; every single filter on one long-lived store filled in three instalments; states = distinct (store, result set); non-trivial = proper non-empty subset"
                % (3 if th else 2, len(F), len(POP)))
    run.bound = {"filters": len(F), "max_set_size": 3 if th else 2, "population": len(POP), "routes_single": ROUTES1}
    run.alphabets = {"filters": F}
    run.assumptions += ["reference evaluator in mc/checks/c12_filters.py; stored view = include_optional_defaults serialization of what the store returns for the empty query",
                        "only type-consistent filters; 'contains' never exercised with a label that is a proper substring of another"]
    run.pmap(run_case, cases, order_independent=True)
    run.part.sample({"filters": [["type", "!=", "malware"], ["id", "in", [M1, IND]]], "routes": [["attached", "composite"]], "store": "fs",
                     "expected": [[IND, "2020-01-02T00:00:00.000Z"]]})
    run.part.sample({"filters": [["modified", "<=", ["$dt", "2020-01-02T00:00:00Z"]], ["labels", "contains", "a"]], "routes": [["query", "query"]], "store": "mem"})
    o = run.part.outcomes
    run.require(o.get("proper-subset", 0) > 1000, "filter sets with a proper non-empty result were reached")
    run.require(o.get("empty", 0) > 100, "contradictory filter sets (empty result) were reached")
