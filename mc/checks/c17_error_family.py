"""C17 - Bad input is reported only through the library's error family.

DEV-mode fault enumeration: (i) every JSON value of depth <= 2 over a leaf/key alphabet (type values over every registered type name) as
parser input, incl. text forms; (ii) every minimal and maximal valid instance (frozen spec model) x every slot (recursively) x 16 junk
values of another JSON kind (incl. pathologically deep nesting), one replacement (thorough: two on minimal bases), both allow_custom
settings, through parse(dict), parse(text), constructor, parse_observable, MemoryStore.add and FileSystemSink.add.
Oracle: the call terminates and either returns or raises STIXError / ValueError / TypeError; AttributeError, KeyError, IndexError,
RecursionError, UnboundLocalError ... never escape; registries and stores are unchanged after a failure.
"""
import copy
import itertools
import json
import os
import shutil

from mc import env
from mc.spec import gen, harness, model

ID = "C17"
JUNK = [("null", None), ("true", True), ("0", 0), ("1.5", 1.5), ("string", "s"), ("empty-string", ""), ("[]", []), ("[1]", [1]), ("{}", {}), ("{a:1}", {"a": 1}), ("[[]]", [[]]),
        ("[{}]", [{}]), ("{a:{}}", {"a": {}}), ("[null]", [None]), ("huge-int", 10 ** 400), ("huge-negative-int", -(10 ** 400)), ("1e400-as-int-text", 10 ** 22 + 1)]
DEEP = ["deep-list", "deep-dict"]


def deep(label):
    x = "s"
    for _ in range(600):        # json.loads still decodes this depth; repr()/deepcopy()/str() of it exceed the default recursion limit
        x = [x] if label == "deep-list" else {"k": x}
    return x


def junk_value(label):
    if label in DEEP:
        return deep(label)
    return copy.deepcopy(dict(JUNK)[label])


def kind_of(v):
    return "null" if v is None else "bool" if isinstance(v, bool) else "number" if isinstance(v, (int, float)) else "string" if isinstance(v, str) else "list" if isinstance(v, list) else "object"


class Stores(object):
    inst = None

    def __init__(self):
        from stix2 import FileSystemSink, MemoryStore
        self.dir = env.scratch_dir("c17")
        self.sink = {a: FileSystemSink(self.dir, allow_custom=a) for a in (False, True)}
        self.mem = {a: MemoryStore(allow_custom=a) for a in (False, True)}
        import atexit
        atexit.register(shutil.rmtree, self.dir, True)
        self.pid = os.getpid()

    def fingerprint(self):
        files = sorted(os.path.join(dp, f) for dp, dn, fn in os.walk(self.dir) for f in fn)
        mem = {a: sorted(m._data) for a, m in self.mem.items()}
        return files, mem

    @classmethod
    def get(cls):
        if cls.inst is None or cls.inst.pid != os.getpid():
            cls.inst = Stores()
        return cls.inst


def call(part, name, fn, case, feat, allowed_return=True):
    """one guarded call: classifies the outcome, reports escapes"""
    import stix2.exceptions as X
    part.evaluations += 1
    part.transitions += 1
    reg_before = env.registry_fingerprint()
    try:
        r = fn()
        part.outcome("returned")
        ok = True
    except (X.STIXError, ValueError, TypeError) as e:
        if isinstance(e, (KeyError, IndexError, AttributeError, RecursionError)):       # (none of these derives from the family; defensive)
            part.violation("C17/escapes/%s/%s" % (type(e).__name__, feat), "an internal failure escapes", dict(case, entry=name), "STIXError / ValueError / TypeError", "%s: %s" % (type(e).__name__, str(e)[:150]))
        part.outcome("refused:" + ("STIXError" if isinstance(e, X.STIXError) else type(e).__name__))
        ok = False
    except RecursionError as e:
        import traceback
        tb = traceback.extract_tb(e.__traceback__)
        where = "?"
        for fr in tb:
            if "/stix2/" in fr.filename:
                where = "%s:%s" % (os.path.basename(fr.filename), fr.name)      # the OUTERMOST library frame that is not protected
            if "/stix2/" not in fr.filename and where != "?":
                break
        part.outcome("ESCAPE:RecursionError")
        part.violation("C17/escapes/RecursionError@%s" % where, "an internal failure escapes instead of a library error", dict(case, entry=name), "STIXError / ValueError / TypeError", "RecursionError")
        ok = False
    except Exception as e:
        import traceback
        tb = traceback.extract_tb(e.__traceback__)
        where = "?"
        for fr in reversed(tb):
            if "/stix2/" in fr.filename:
                where = "%s:%s" % (os.path.basename(fr.filename), fr.name)
                break
        part.outcome("ESCAPE:" + type(e).__name__)
        part.violation("C17/escapes/%s@%s" % (type(e).__name__, where), "an internal failure escapes instead of a library error", dict(case, entry=name),
                       "STIXError / ValueError / TypeError", "%s: %s" % (type(e).__name__, str(e)[:150]))
        ok = False
    if not ok and env.registry_fingerprint() != reg_before:
        part.violation("C17/registry-changed-after-failure/%s" % name, "a failed call changed the type registries", dict(case, entry=name), "unchanged", "changed")
    return ok


def entries(j, version, allow, top_type_is_observable, stores=False, text_ok=True):
    import stix2
    out = [("parse(dict)", lambda: stix2.parse(copy.copy(j) if isinstance(j, dict) else j, allow_custom=allow))]
    if text_ok:
        try:
            text = json.dumps(j)
            out.append(("parse(text)", lambda: stix2.parse(text, allow_custom=allow)))
        except (ValueError, RecursionError, TypeError):
            pass
    if isinstance(j, dict) and isinstance(j.get("type"), str):
        cls = stix2.registry.class_for_type(j["type"], version)
        if cls is not None:
            out.append(("constructor", lambda: cls(allow_custom=allow, **{k: v for k, v in j.items()})))
    if top_type_is_observable:
        out.append(("parse_observable", lambda: stix2.parse_observable(j, allow_custom=allow, version=version)))
    if stores:
        st = Stores.get()
        out.append(("MemoryStore.add", lambda: st.mem[allow].add(j)))
        out.append(("FileSystemSink.add", lambda: st.sink[allow].add(j)))
    return out


def slot_feature(path, p, jlabel):
    k = p["kind"] if p["kind"] != "list" else "list<%s>" % p["of"]["kind"]
    name = path[-1] if isinstance(path[-1], str) else path[-2]
    special = name if name in ("extensions", "id", "type", "created", "modified", "pattern", "definition", "definition_type", "objects", "spec_version", "granular_markings", "hashes") else k
    return "%s<-%s" % (special, jlabel if jlabel in DEEP else kind_of(dict(JUNK).get(jlabel)))


def run_slots(case, part):
    env.reset()
    version, key, label = case["version"], case["key"], case["label"]
    wrapped = None
    for k2, l2, i2, w2, loc2 in harness.all_cases(version, keys=[key]):
        if l2 == label:
            wrapped = w2
            break
    if wrapped is None:
        raise RuntimeError("generator no longer produces %s %s %s" % (version, key, label))
    tkey = model.spec(version).key_for_type(wrapped["type"])
    is_sco = model.spec(version).classes[tkey]["category"] == "observables"
    part.state((version, key, label), nontrivial=True)
    slots = list(harness.typed_slots(wrapped, version, tkey))
    if case.get("top_only"):
        slots = [s for s in slots if len(s[0]) == 1]
    only = case.get("slot")
    junk_labels = [l for l, _ in JUNK] + DEEP
    PATTERNS = {"pattern-deep-parentheses": "[" + "(" * 3000 + "a:b = 1" + ")" * 3000 + "]", "pattern-long-chain": "[a:b = 1" + " AND a:b = 1" * 5000 + "]",
                "pattern-deep-observation-parentheses": "(" * 3000 + "[a:b = 1]" + ")" * 3000}
    for path, v, p, ckey, pname in slots:
        if pname == "pattern" and len(path) == 1:
            for pl, pv in PATTERNS.items():
                if case.get("junk") and pl != case["junk"]:
                    continue
                j = gen.set_path(wrapped, path, pv)
                for allow in (False, True):
                    for name, fn in entries(j, version, allow, is_sco):
                        call(part, name, fn, dict(case, slot=list(path), junk=pl, allow_custom=allow), "pattern<-" + pl)
        if only is not None and list(path) != only:
            continue
        for jl in junk_labels:
            if case.get("junk") and jl != case["junk"]:
                continue
            jv = junk_value(jl)
            if kind_of(jv) == kind_of(v) and jl not in DEEP and not isinstance(v, (list, dict)):
                continue
            j = gen.set_path(wrapped, path, jv)
            feat = slot_feature(path, p, jl)
            for allow in (False, True):
                c = dict(case, slot=list(path), junk=jl, allow_custom=allow)
                st = Stores.get()
                # stores: deep (but otherwise valid) nesting that only defeats the JSON writer is resource exhaustion, not this property
                before = st.fingerprint() if len(path) == 1 and label == "min" and jl not in DEEP else None
                for name, fn in entries(j, version, allow, is_sco, stores=before is not None, text_ok=True):
                    if name.endswith(".add"):
                        before = st.fingerprint()
                    ok = call(part, name, fn, c, feat)
                    if before is not None and not ok and name.endswith(".add"):
                        after = st.fingerprint()
                        if after != before:
                            part.violation("C17/store-changed-after-failure/%s" % name, "a failed add changed the store", dict(c, entry=name), "unchanged", "changed")
                if before is not None:
                    # successful adds are not this property's business: start the next junk from a clean slate
                    for a in (False, True):
                        st.mem[a]._data.clear()
                    for dp, dn, fn_ in os.walk(st.dir, topdown=False):
                        for f in fn_:
                            os.unlink(os.path.join(dp, f))
    if case.get("pairs"):
        top = [s for s in slots if len(s[0]) == 1]
        for (pa, va, ppa, _, _), (pb, vb, ppb, _, _) in itertools.combinations(top, 2):
            for ja, jb in (("null", "{}"), ("{}", "[1]"), ("string", "0"), ("[]", "string"), ("{a:1}", "true")):
                j = gen.set_path(gen.set_path(wrapped, pa, junk_value(ja)), pb, junk_value(jb))
                for allow in (False, True):
                    c = dict(case, slot=[list(pa), list(pb)], junk=[ja, jb], allow_custom=allow)
                    for name, fn in entries(j, version, allow, is_sco):
                        call(part, name, fn, c, "pair:%s+%s" % (slot_feature(pa, ppa, ja), slot_feature(pb, ppb, jb)))


LEAVES = [None, True, 0, 1.5, "s", ""]
KEYS = ["type", "id", "objects", "spec_version", "extensions", "x"]


def run_values(case, part):
    """(i) arbitrary JSON values as parser input"""
    import stix2
    env.reset()
    tvals = case["type_values"]
    d1 = list(LEAVES) + [[], {}] + [[a] for a in LEAVES] + [[a, b] for a in LEAVES[:3] for b in LEAVES[3:]]
    vals = []
    for t in tvals:
        vals.append({"type": t})
        for k in KEYS[1:]:
            for x in d1 + [{"type": t}, [{"type": t}]]:
                vals.append({"type": t, k: x})
        for k1, k2 in itertools.combinations(KEYS[1:], 2):
            for x, y in ((None, "s"), ("s", {}), ([], 0), ({}, [{}]), ("2.1", "identity--x")):
                vals.append({"type": t, k1: x, k2: y})
    if case.get("toplevel"):
        vals += list(LEAVES) + [[], {}, [[]], [{}], {"x": 1}, {"id": "identity--x"}, [{"type": "identity"}], {"type": None}, {"type": 0}, {"type": []}, {"type": {}}, {"type": True}]
    for j in vals:
        part.state(("value", json.dumps(j, sort_keys=True)), nontrivial=isinstance(j, dict))
        t = j.get("type") if isinstance(j, dict) else None
        feat = "value:type=%s+%s" % ("registered" if isinstance(t, str) and (t in model.spec("2.1").objects + model.spec("2.1").observables + model.spec("2.0").objects) else kind_of(t) if not isinstance(t, str) else "unknown",
                                     "+".join(sorted("%s:%s" % (k, kind_of(v)) for k, v in j.items() if k != "type")) if isinstance(j, dict) else kind_of(j))
        for allow in (False, True):
            c = {"kind": "value", "value": j, "allow_custom": allow}
            for name, fn in entries(j, "2.1", allow, isinstance(t, str) and t in model.spec("2.1").observables):
                call(part, name, fn, c, feat)
    if case.get("toplevel"):
        for text in ("", "{", "[1,", "nul", '{"type": "identity"', '"s"', "5", "true", "null", "[" * 50 + "]" * 50, '{"type":"identity","type":"malware"}', "﻿{}", '{"a":NaN}'):
            for allow in (False, True):
                call(part, "parse(text)", lambda: stix2.parse(text, allow_custom=allow), {"kind": "text", "text": text[:60], "allow_custom": allow}, "malformed-text")


# ---- (iii) member names: every object node of a valid instance gets one more member with an unusual (but JSON-legal) name -------------------
SPECIAL_MEMBERS = [("granular_markings", ["x"]), ("granular_markings", [1]), ("granular_markings", "x"), ("granular_markings", [{}]), ("granular_markings", [{"selectors": "name"}]),
                   ("object_marking_refs", ["x"]), ("object_marking_refs", 5), ("extensions", ["x"]), ("extensions", {"x": 1}), ("spec_version", 2.1), ("created", []), ("modified", {}), ("id", 5),
                   ("type", None), ("revoked", "yes"), ("hashes", ["x"]), ("objects", "x"), ("selectors", 5)]
NAMES = ["", " ", "1abc", "\u00e9t\u00e9", "a" * 300, "\n", "a.b", "a b", "__proto__", "x_", "custom_properties", "allow_custom", "self", "cls", "kwargs", "interoperability", "_inner", "type\n",
         # names that are replacement fields / conversion specifiers for the message of the very error that refuses them
         "{x}", "{0.nope}", "{0}", "{1}", "%(x)s", "%s %s", "{"]


def dict_nodes(x, path=()):
    if isinstance(x, dict):
        yield path
        for k, v in x.items():
            for p in dict_nodes(v, path + (k,)):
                yield p
    elif isinstance(x, list):
        for i, v in enumerate(x):
            for p in dict_nodes(v, path + (i,)):
                yield p


def run_names(case, part):
    env.reset()
    version, key, label = case["version"], case["key"], case["label"]
    wrapped = None
    for k2, l2, i2, w2, loc2 in harness.all_cases(version, keys=[key]):
        if l2 == label:
            wrapped = w2
            break
    if wrapped is None:
        raise RuntimeError("generator no longer produces %s %s %s" % (version, key, label))
    tkey = model.spec(version).key_for_type(wrapped["type"])
    is_sco = model.spec(version).classes[tkey]["category"] == "observables"
    part.state((version, key, label, "names"), nontrivial=True)
    for path in dict_nodes(wrapped):
        if case.get("node") is not None and list(path) != case["node"]:
            continue
        for name, val in SPECIAL_MEMBERS:
            node = harness.locate(wrapped, path)
            if name in node or (case.get("name") is not None and name != case["name"]):
                continue
            j = copy.deepcopy(wrapped)
            harness.locate(j, path)[name] = copy.deepcopy(val)
            for allow in (False, True):
                c = dict(case, node=list(path), name=name, value=val, allow_custom=allow)
                for ename, fn in entries(j, version, allow, is_sco):
                    call(part, ename, fn, c, "known-member-name-where-it-is-not-defined:%s/%s" % (name, "top-level" if not path else "nested"))
        for name in NAMES:
            if case.get("name") is not None and name != case["name"]:
                continue
            for val in (1, {"a": 1}):
                j = copy.deepcopy(wrapped)
                harness.locate(j, path)[name] = val
                where = "top-level" if not path else "nested"
                for allow in (False, True):
                    c = dict(case, node=list(path), name=name, allow_custom=allow)
                    for ename, fn in entries(j, version, allow, is_sco):
                        call(part, ename, fn, c, "member-name:%s/%s" % ("empty" if name == "" else "argument-name" if name in ("custom_properties", "allow_custom", "self", "cls", "kwargs", "interoperability", "_inner") else "unusual", where))


# ---- (iv) places where arbitrary JSON is legal content: nesting depth around and beyond the interpreter's recursion limit -------------------
DEPTHS = [50, 600, 990, 1500, 5000]


def nest(depth, kind):
    x = "s"
    for _ in range(depth):
        x = [x] if kind == "list" else {"k": x}
    return x


def run_depths(case, part):
    import stix2
    env.reset()
    EXT = "extension-definition--3f7f0c5f-5d54-4292-94ea-ec1e1952be1f"
    TS = "2016-05-12T08:17:27.000Z"
    gm = [{"marking_ref": "marking-definition--5e57c739-391a-4eb3-b6be-7d15ca92d5ed", "selectors": ["name"]}]
    bases = {
        "file-without-id": {"type": "file", "spec_version": "2.1", "name": "f"},
        "file-with-id": {"type": "file", "spec_version": "2.1", "id": "file--3f7f0c5f-5d54-4292-94ea-ec1e1952be10", "name": "f"},
        "network-traffic-without-id": {"type": "network-traffic", "spec_version": "2.1", "protocols": ["tcp"], "src_port": 1},
        "identity": {"type": "identity", "spec_version": "2.1", "id": "identity--3f7f0c5f-5d54-4292-94ea-ec1e1952be11", "created": TS, "modified": TS, "name": "n"},
        "identity-with-granular-markings": {"type": "identity", "spec_version": "2.1", "id": "identity--3f7f0c5f-5d54-4292-94ea-ec1e1952be11", "created": TS, "modified": TS, "name": "n", "granular_markings": gm},
        "identity-2.0-with-granular-markings": {"type": "identity", "id": "identity--3f7f0c5f-5d54-4292-94ea-ec1e1952be11", "created": TS, "modified": TS, "name": "n", "identity_class": "individual",
                                                "granular_markings": gm},
    }
    places = {
        "unregistered-extension-definition-content": lambda b, v: dict(b, extensions={EXT: {"extension_type": "property-extension", "deep": v}}),
        "unregistered-toplevel-extension-property": lambda b, v: dict(b, deep=v, extensions={EXT: {"extension_type": "toplevel-property-extension"}}),
        "custom-property": lambda b, v: dict(b, x_deep=v),
        "external-reference-member": lambda b, v: dict(b, external_references=[{"source_name": "s", "description": v}]) if b["type"] == "identity" else None,
        "unregistered-type-in-bundle": lambda b, v: {"type": "bundle", "id": "bundle--3f7f0c5f-5d54-4292-94ea-ec1e1952be12", "objects": [b, {"type": "x-unreg", "id": "x-unreg--3f7f0c5f-5d54-4292-94ea-ec1e1952be13", "deep": v}]},
    }
    def nested_bundles(b, v):
        # the only recursive TYPE: a bundle whose member is a bundle whose member is ... (as deep as the value handed over is nested; two JSON levels per bundle)
        depth, cur = 0, v
        while isinstance(cur, (dict, list)) and cur:
            cur = next(iter(cur.values())) if isinstance(cur, dict) else cur[0]
            depth += 1
        j = dict(b)
        for i in range(max(1, depth // 2)):
            j = {"type": "bundle", "id": "bundle--3f7f0c5f-5d54-4292-94ea-ec1e1952be%02x" % (i % 200 + 20), "objects": [j]}
        return j
    places["bundle-nested-in-bundles"] = nested_bundles
    places["bundle-objects-is-nested-container"] = lambda b, v: {"type": "bundle", "id": "bundle--3f7f0c5f-5d54-4292-94ea-ec1e1952be12", "objects": v if isinstance(v, list) else [v]}
    b = bases[case["base"]]
    version = "2.1" if "spec_version" in b else "2.0"
    part.state(("depths", case["base"]), nontrivial=True)
    for pname, put in places.items():
        if version == "2.0" and "extension" in pname:
            continue
        for depth in DEPTHS:
            for kind in ("dict", "list"):
                if case.get("place") and (pname, depth, kind) != (case["place"], case["depth"], case["nest"]):
                    continue
                j = put(copy.copy(b), nest(depth, kind))
                if j is None:
                    continue
                for allow in (False, True):
                    c = dict(case, place=pname, depth=depth, nest=kind, allow_custom=allow)
                    for ename, fn in entries(j, version, allow, b["type"] in ("file", "network-traffic") and j.get("type") != "bundle", text_ok=depth <= 600):
                        call(part, ename, fn, c, "deep-content/%s/%s" % (pname, "beyond-recursion-limit" if depth >= 990 else "below-recursion-limit"))


# ---- (iv-b) the extension_type member of every kind of extensions entry x every value ---------------------------------------------------------
def run_extension_types(case, part):
    import stix2
    from stix2 import properties as P
    env.reset()
    snap = env.registry_snapshot()
    try:
        PE, TE = "extension-definition--3f7f0c5f-5d54-4292-94ea-ec1e1952c0b1", "extension-definition--3f7f0c5f-5d54-4292-94ea-ec1e1952c0b2"
        UE = "extension-definition--3f7f0c5f-5d54-4292-94ea-ec1e1952c0b3"

        @stix2.v21.CustomExtension(PE, [("rank", P.IntegerProperty())])
        class PExt(object):
            extension_type = "property-extension"

        @stix2.v21.CustomExtension(TE, [("toprank", P.IntegerProperty())])
        class TExt(object):
            extension_type = "toplevel-property-extension"
        TE2 = "extension-definition--3f7f0c5f-5d54-4292-94ea-ec1e1952c0b4"

        @stix2.v21.CustomExtension(TE2, [("toprank2", P.IntegerProperty())])
        class TExt2(object):
            extension_type = "toplevel-property-extension"
        TS = "2016-05-12T08:17:27.000Z"
        bases = {
            "unregistered-type": {"type": "x-unknown", "spec_version": "2.1", "id": "x-unknown--3f7f0c5f-5d54-4292-94ea-ec1e1952be10", "created": TS, "modified": TS},
            "identity": {"type": "identity", "spec_version": "2.1", "id": "identity--3f7f0c5f-5d54-4292-94ea-ec1e1952be11", "created": TS, "modified": TS, "name": "n"},
            "file": {"type": "file", "spec_version": "2.1", "name": "f"},
        }
        keys = {"unregistered-extension-definition": UE, "registered-property-extension": PE, "registered-toplevel-extension": TE, "predefined-extension": "archive-ext", "unregistered-name": "x-unreg-ext"}
        values = [(l, v) for l, v in JUNK] + [(x, x) for x in ("property-extension", "toplevel-property-extension", "new-sdo", "new-sco", "new-sro", "bogus", "PROPERTY-EXTENSION", "toplevel-property-extension ")] + [("absent", "$absent")]
        b = bases[case["base"]]
        part.state(("extension-types", case["base"]), nontrivial=True)
        for kname, k in keys.items():
            if k == "archive-ext" and b["type"] != "file":
                continue
            for vl, v in values:
                if case.get("ext_key") and (kname, vl) != (case["ext_key"], case["value"]):
                    continue
                body = {} if v == "$absent" else {"extension_type": copy.deepcopy(v)}
                if k == "archive-ext":
                    body["contains_refs"] = ["file--3f7f0c5f-5d54-4292-94ea-ec1e1952be12"]
                if kname == "registered-toplevel-extension" and vl == "toplevel-property-extension":
                    # the SAME two extensions in both key orders: a registered top-level extension's property is validated whichever comes first
                    for tl, tv in JUNK:
                        outs = []
                        for order in ((TE, UE), (UE, TE)):
                            exts = {}
                            for e in order:
                                exts[e] = {"extension_type": "toplevel-property-extension"}
                            j = dict(copy.deepcopy(b), extensions=exts, toprank=copy.deepcopy(tv))
                            try:
                                stix2.parse(copy.deepcopy(j), allow_custom=False)
                                outs.append("accepted")
                            except (stix2.exceptions.STIXError, ValueError, TypeError):
                                outs.append("refused")
                            except Exception as e:
                                outs.append("escape:" + type(e).__name__)
                        part.evaluations += 2
                        part.transitions += 2
                        if outs[0] != outs[1]:
                            part.violation("C17/validation-depends-on-extension-key-order", "the same content is validated differently depending on the order of the keys of 'extensions'",
                                           dict(case, ext_key=kname, value=vl, toprank=tl), "same verdict", outs)
                if kname == "registered-toplevel-extension" and vl == "toplevel-property-extension" and b["type"] != "x-unknown":
                    # TWO registered top-level extensions on one object (both key orders, good and junk values): whatever happens, afterwards each extension still
                    # contributes exactly its own properties (the tables live in the registry)
                    tl = {"extension_type": "toplevel-property-extension"}
                    for tl_label, tv in [("valid", 3)] + list(JUNK):
                        for order in ((TE, TE2), (TE2, TE)):
                            j = dict(copy.deepcopy(b), extensions={e: dict(tl) for e in order}, toprank=copy.deepcopy(tv), toprank2=4)
                            for allow in (False, True):
                                c = dict(case, ext_key="two-registered-toplevel-extensions", value=tl_label, allow_custom=allow)
                                for ename, fn in entries(j, "2.1", allow, b["type"] == "file"):
                                    call(part, ename, fn, c, "two-registered-toplevel-extensions")
                        probe = dict(copy.deepcopy(b), extensions={TE: dict(tl)}, toprank=1, toprank2=4)
                        part.evaluations += 1
                        try:
                            stix2.parse(probe, allow_custom=False)
                            part.violation("C17/failure-left-something-behind/extension-contributes-another-extensions-property", "after objects with two registered top-level extensions were handled, one of them alone admits the other's property",
                                           dict(case, ext_key="two-registered-toplevel-extensions", value=tl_label), "refused (toprank2 belongs to the other extension)", "accepted")
                            break
                        except (stix2.exceptions.STIXError, ValueError, TypeError):
                            part.outcome("two-extensions:tables-intact")
                for extra in ({}, {"toprank": 1}, {"zzz": {"a": 1}}):
                    j = dict(copy.deepcopy(b), extensions={k: body}, **extra)
                    for allow in (False, True):
                        c = dict(case, ext_key=kname, value=vl, extra=sorted(extra), allow_custom=allow)
                        for ename, fn in entries(j, "2.1", allow, b["type"] == "file"):
                            call(part, ename, fn, c, "extension_type/%s/%s" % (kname, "string" if isinstance(v, str) and v != "$absent" else "absent" if v == "$absent" else kind_of(v)))
    finally:
        env.registry_restore(snap)


def run_dict_kept_junk(case, part):
    """content the stores keep as the caller's dictionaries (no registered class) with junk in the members the STORES themselves read (id, modified, created, type):
    a refused add leaves the store as it was - and still able to answer"""
    from stix2 import FileSystemStore, MemoryStore
    env.reset()
    part.state(("dict-kept-junk",), nontrivial=True)
    TS = "2016-05-12T08:17:27.000Z"
    base = {"type": "x-unreg", "spec_version": "2.1", "id": "x-unreg--3f7f0c5f-5d54-4292-94ea-ec1e1952be41", "created": TS, "modified": TS, "name": "n"}
    for member in ("modified", "created", "id", "type", "spec_version"):
        for jl, jv in JUNK:
            j = dict(copy.deepcopy(base), id="x-unreg--3f7f0c5f-5d54-4292-94ea-ec1e1952be42")
            j[member] = copy.deepcopy(jv)
            for sname in ("MemoryStore.add", "FileSystemStore.add"):
                d = env.scratch_dir("c17j") if sname.startswith("File") else None
                try:
                    st = MemoryStore(allow_custom=True) if d is None else FileSystemStore(d, allow_custom=True)
                    try:
                        st.add(copy.deepcopy(base))
                    except Exception:
                        continue
                    before = sorted(map(repr, st._data)) if d is None else sorted(f for dp, dn, fn in os.walk(d) for f in fn)
                    c = dict(case, member=member, junk=jl, entry=sname)
                    ok = call(part, sname + "(dict kept as it is)", lambda: st.add(j), c, "dict-kept/%s<-%s" % (member, kind_of(jv)))
                    after = sorted(map(repr, st._data)) if d is None else sorted(f for dp, dn, fn in os.walk(d) for f in fn)
                    if not ok and after != before:
                        part.violation("C17/store-changed-after-failure/%s(dict-kept)" % sname, "a refused add of a dictionary the store keeps as it is changed the store", c, before, after)
                    try:
                        st.query([])
                        st.get(base["id"])
                        part.outcome("dict-kept:store-answers")
                    except Exception as e:
                        part.violation("C17/store-broken-after-add/%s(dict-kept)" % sname, "after an add of junk the store no longer answers", c, "answers", "%s: %s" % (type(e).__name__, str(e)[:120]))
                finally:
                    if d:
                        shutil.rmtree(d, ignore_errors=True)


def run_partial_bundle(case, part):
    """PARTIAL failure: a bundle (dict and text) whose FIRST member is fine and whose later member is refused, handed to the file-system sink / store: the bundle is one
    document - it is refused as a whole and nothing of it is written.  (A memory store, and a plain list handed to either store, add member by member by design.)"""
    import stix2
    from stix2 import FileSystemSink, FileSystemStore
    env.reset()
    TS = "2016-05-12T08:17:27.000Z"
    good = {"type": "identity", "spec_version": "2.1", "id": "identity--3f7f0c5f-5d54-4292-94ea-ec1e1952be21", "created": TS, "modified": TS, "name": "n"}
    good2 = {"type": "tool", "spec_version": "2.1", "id": "tool--3f7f0c5f-5d54-4292-94ea-ec1e1952be22", "created": TS, "modified": TS, "name": "t"}
    bads = {"bad-timestamp": dict(good, id="identity--3f7f0c5f-5d54-4292-94ea-ec1e1952be23", created="junk"), "required-missing": {k: v for k, v in dict(good, id="identity--3f7f0c5f-5d54-4292-94ea-ec1e1952be24").items() if k != "name"},
            "unknown-type": {"type": "x-nope", "id": "x-nope--3f7f0c5f-5d54-4292-94ea-ec1e1952be25"}, "not-an-object": 5, "nested-bundle": {"type": "bundle", "id": "bundle--3f7f0c5f-5d54-4292-94ea-ec1e1952be26", "objects": [good2]}}
    part.state(("partial-bundle",), nontrivial=True)
    for blabel, bad in bads.items():
        for members in ([good, bad], [good, good2, bad], [good, bad, good2]):
            b = {"type": "bundle", "id": "bundle--3f7f0c5f-5d54-4292-94ea-ec1e1952be27", "objects": copy.deepcopy(members)}
            for form, mk in (("bundle-dict", lambda: copy.deepcopy(b)), ("bundle-text", lambda: json.dumps(b))):
                for sname, mkstore in (("FileSystemSink.add", lambda d: FileSystemSink(d, allow_custom=False)), ("FileSystemStore.add", lambda d: FileSystemStore(d, allow_custom=False))):
                    d = env.scratch_dir("c17p")
                    try:
                        st = mkstore(d)
                        c = dict(case, bad=blabel, members=len(members), form=form, entry=sname)
                        ok = call(part, "%s(%s)" % (sname, form), lambda: st.add(mk()), c, "partial-bundle/" + blabel)
                        left = sorted(f for dp, dn, fn in os.walk(d) for f in fn)
                        if not ok and left:
                            part.violation("C17/store-changed-after-failure/%s(%s)" % (sname, form), "a bundle that was refused left some of its members in the store", c, "nothing written", left[:4])
                        part.outcome("partial-bundle:" + ("added" if ok else "refused-clean" if not left else "REFUSED-PARTIAL"))
                    finally:
                        shutil.rmtree(d, ignore_errors=True)


# ---- (iv-c) constructor arguments that are not properties, and marking-definition shapes -------------------------------------------------------
def run_arguments(case, part):
    import stix2
    env.reset()
    TS = "2016-05-12T08:17:27.000Z"
    part.state(("arguments", case["version"]), nontrivial=True)
    mod = stix2.v20 if case["version"] == "2.0" else stix2.v21
    classes = [("Identity", dict(name="n", identity_class="individual")), ("Bundle", {}), ("ExternalReference", dict(source_name="s", url="u"))] + \
        ([("File", dict(name="f")), ("NTFSExt", dict(sid="s"))] if case["version"] == "2.1" else [("File", dict(name="f"))])
    for cname, kw in classes:
        cls = getattr(mod, cname)
        for jl, jv in JUNK:
            for arg in ("custom_properties", "allow_custom", "interoperability"):
                if case.get("arg") and (cname, arg, jl) != (case["class"], case["arg"], case["junk"]):
                    continue
                c = {"kind": "arguments", "version": case["version"], "class": cname, "arg": arg, "junk": jl}
                call(part, "constructor", lambda: cls(**dict(kw, **{arg: copy.deepcopy(jv)})), c, "constructor-argument/%s<-%s" % (arg, kind_of(jv)))
                if arg == "custom_properties":
                    for allow in (False, True):
                        call(part, "parse(dict)", lambda: stix2.parse(dict({"type": "identity", "id": "identity--3f7f0c5f-5d54-4292-94ea-ec1e1952be11", "created": TS, "modified": TS, "name": "n",
                                                                            "identity_class": "individual", "custom_properties": copy.deepcopy(jv)},
                                                                           **({"spec_version": "2.1"} if case["version"] == "2.1" else {})), allow_custom=allow),
                             dict(c, allow_custom=allow), "custom_properties-member<-%s" % kind_of(jv))
    # marking-definition: every combination of definition_type x definition x extensions
    EXT = {"extension-definition--3f7f0c5f-5d54-4292-94ea-ec1e1952be1f": {"extension_type": "property-extension", "a": 1}}
    for dt_ in ("tlp", "statement", "x-unknown", None, 0):
        for defn in ("$absent", {"tlp": "red"}, {"statement": "s"}, {}, None, "s", [1], {"tlp": "blue"}, {"tlp": None}):
            for ext in ("$absent", EXT, {}):
                if case["version"] == "2.0" and ext != "$absent":
                    continue
                j = {"type": "marking-definition", "id": "marking-definition--3f7f0c5f-5d54-4292-94ea-ec1e1952be12", "created": TS}
                if case["version"] == "2.1":
                    j["spec_version"] = "2.1"
                if dt_ is not None:
                    j["definition_type"] = dt_
                if defn != "$absent":
                    j["definition"] = copy.deepcopy(defn)
                if ext != "$absent":
                    j["extensions"] = copy.deepcopy(ext)
                for allow in (False, True):
                    c = {"kind": "arguments", "version": case["version"], "marking": {k: v for k, v in j.items() if k in ("definition_type", "definition", "extensions")}, "allow_custom": allow}
                    for ename, fn in entries(j, case["version"], allow, False):
                        call(part, ename, fn, c, "marking-definition-shape/%s/%s/%s" % (dt_, "absent" if defn == "$absent" else kind_of(defn), "with-extensions" if ext != "$absent" else "no-extensions"))


# ---- (iv-d) refused REGISTRATIONS leave the registries exactly as they were -------------------------------------------------------------------
def run_refused_registrations(case, part):
    import stix2
    from stix2 import properties as P
    env.reset()
    snap = env.registry_snapshot()
    try:
        E1, E2 = "extension-definition--3f7f0c5f-5d54-4292-94ea-ec1e1952c0d1", "extension-definition--3f7f0c5f-5d54-4292-94ea-ec1e1952c0d2"
        props = lambda: [("prop", P.StringProperty())]

        def body():
            class B(object):
                pass
            return B
        # what is registered first (must all succeed)
        stix2.v21.CustomObservable("x-verif-r1", props(), extension_name=E1)(body())
        stix2.v21.CustomObject("x-verif-r2", props(), extension_name=E2)(body())
        stix2.v21.CustomExtension("x-verif-r3-ext", props())(body())
        stix2.v21.CustomMarking("x-verif-r4", props())(body())
        stix2.v20.CustomObservable("x-verif-r5", props())(body())
        attempts = [
            ("observable-with-taken-extension_name", lambda: stix2.v21.CustomObservable("x-verif-n1", props(), extension_name=E1)(body())),
            ("observable-with-extension_name-of-an-object", lambda: stix2.v21.CustomObservable("x-verif-n2", props(), extension_name=E2)(body())),
            ("object-with-taken-extension_name", lambda: stix2.v21.CustomObject("x-verif-n3", props(), extension_name=E2)(body())),
            ("object-with-extension_name-of-an-observable", lambda: stix2.v21.CustomObject("x-verif-n4", props(), extension_name=E1)(body())),
            ("observable-with-name-of-plain-extension", lambda: stix2.v21.CustomObservable("x-verif-n5", props(), extension_name="x-verif-r3-ext")(body())),
            ("extension-with-taken-definition-id", lambda: stix2.v21.CustomExtension(E1, props())(body())),
            ("duplicate-observable", lambda: stix2.v21.CustomObservable("x-verif-r1", props())(body())),
            ("duplicate-object", lambda: stix2.v21.CustomObject("x-verif-r2", props())(body())),
            ("duplicate-marking", lambda: stix2.v21.CustomMarking("x-verif-r4", props())(body())),
            ("object-named-like-observable", lambda: stix2.v21.CustomObject("x-verif-r1", props())(body())),
            ("object-named-like-observable-20", lambda: stix2.v20.CustomObject("x-verif-r5", props())(body())),
            ("invalid-type-name", lambda: stix2.v21.CustomObject("X_bad", props())(body())),
            ("invalid-property-name", lambda: stix2.v21.CustomObservable("x-verif-n6", [("1bad", P.StringProperty())])(body())),
            ("invalid-property-name-with-extension_name", lambda: stix2.v21.CustomObservable("x-verif-n7", [("1bad", P.StringProperty())], extension_name="extension-definition--3f7f0c5f-5d54-4292-94ea-ec1e1952c0d3")(body())),
            ("extension_name-without-separator", lambda: stix2.v21.CustomObservable("x-verif-n8", props(), extension_name="x-verif-n8-ext")(body())),
            ("object-extension_name-without-separator", lambda: stix2.v21.CustomObject("x-verif-n9", props(), extension_name="x-verif-n9-ext")(body())),
            # a TAKEN type name that arrives with a FRESH extension_name: the refusal is about the name, the implicit extension must not stay behind
            ("duplicate-observable-with-fresh-extension_name", lambda: stix2.v21.CustomObservable("x-verif-r1", props(), extension_name=E1[:-2] + "e1")(body())),
            ("duplicate-object-with-fresh-extension_name", lambda: stix2.v21.CustomObject("x-verif-r2", props(), extension_name=E1[:-2] + "e2")(body())),
            ("object-named-like-observable-with-fresh-extension_name", lambda: stix2.v21.CustomObject("x-verif-r1", props(), extension_name=E1[:-2] + "e3")(body())),
            ("observable-named-like-object-with-fresh-extension_name", lambda: stix2.v21.CustomObservable("x-verif-r2", props(), extension_name=E1[:-2] + "e4")(body())),
            ("builtin-object-name-with-fresh-extension_name", lambda: stix2.v21.CustomObject("malware", props(), extension_name=E1[:-2] + "e5")(body())),
            ("builtin-observable-name-with-fresh-extension_name", lambda: stix2.v21.CustomObservable("file", props(), extension_name=E1[:-2] + "e6")(body())),
            ("invalid-type-name-with-fresh-extension_name", lambda: stix2.v21.CustomObject("X_bad", props(), extension_name=E1[:-2] + "e7")(body())),
            ("properties-not-a-list", lambda: stix2.v21.CustomObject("x-verif-n10", 5)(body())),
            ("properties-none", lambda: stix2.v21.CustomObservable("x-verif-n11", None)(body())),
        ]
        import stix2.exceptions as X
        for label, fn in attempts:
            if case.get("attempt") and label != case["attempt"]:
                continue
            part.evaluations += 1
            part.transitions += 1
            before = env.registry_fingerprint()
            c = {"kind": "refused-registrations", "attempt": label}
            try:
                fn()
                part.outcome("registration:accepted")
                env.registry_restore(snap)      # (acceptance is C19's business) start again from the same registrations
                stix2.v21.CustomObservable("x-verif-r1", props(), extension_name=E1)(body())
                stix2.v21.CustomObject("x-verif-r2", props(), extension_name=E2)(body())
                stix2.v21.CustomExtension("x-verif-r3-ext", props())(body())
                stix2.v21.CustomMarking("x-verif-r4", props())(body())
                stix2.v20.CustomObservable("x-verif-r5", props())(body())
                continue
            except (X.STIXError, ValueError, TypeError):
                part.outcome("registration:refused")
            except Exception as e:
                part.outcome("registration:ESCAPE:" + type(e).__name__)
                part.violation("C17/escapes/%s@registration/%s" % (type(e).__name__, label), "a refused registration fails with an internal error", c, "STIXError / ValueError / TypeError", "%s: %s" % (type(e).__name__, str(e)[:120]))
            if env.registry_fingerprint() != before:
                part.violation("C17/registry-changed-after-failure/registration/%s" % label, "a refused registration changed the type registries", c, "unchanged", "changed")
            # and what was registered before still works
            try:
                o = stix2.parse({"type": "x-verif-r1", "spec_version": "2.1", "id": "x-verif-r1--3f7f0c5f-5d54-4292-94ea-ec1e1952be10", "prop": "v", "extensions": {E1: {"extension_type": "new-sco"}}})
                ok = type(o).__name__ != "dict"
            except Exception as e:
                ok = False
            if not ok:
                part.violation("C17/earlier-registration-broken-after-failure/%s" % label, "after a refused registration an earlier registered type no longer parses", c, "object", "refused / dict")
    finally:
        env.registry_restore(snap)


# ---- (v) a failure must leave NOTHING behind: refused parse of a type, then its registration, then the same parse -------------------------------
def run_fail_then_register(case, part):
    import stix2
    from stix2 import properties as P
    env.reset()
    snap = env.registry_snapshot()
    try:
        ver, kind = case["version"], case["kind2"]
        mod = stix2.v20 if ver == "2.0" else stix2.v21
        name = "x-verif-late-%s" % kind[:3]
        U = "3f7f0c5f-5d54-4292-94ea-ec1e1952be1"
        TS = "2016-05-12T08:17:27.000Z"
        if kind == "object":
            j = {"type": name, "id": name + "--" + U + "4", "created": TS, "modified": TS, "prop": "v"}
        else:
            j = {"type": name, "id": name + "--" + U + "5", "prop": "v"} if ver == "2.1" else {"type": name, "prop": "v"}
        if ver == "2.1":
            j["spec_version"] = "2.1"
        wrap = {"type": "bundle", "id": "bundle--" + U + "6", "objects": [j]} if not (kind == "observable" and ver == "2.0") else \
            {"type": "observed-data", "id": "observed-data--" + U + "7", "created": TS, "modified": TS, "first_observed": TS, "last_observed": TS, "number_observed": 1, "objects": {"0": j}}
        if ver == "2.0" and wrap["type"] == "bundle":
            wrap["spec_version"] = "2.0"
        part.state(("fail-then-register", ver, kind, case["first"]), nontrivial=True)

        def attempts(stage):
            out = []
            for allow in (False, True):
                if not (kind == "observable" and ver == "2.0"):
                    out.append(("parse(dict)", allow, lambda allow=allow: stix2.parse(copy.deepcopy(j), allow_custom=allow, version=ver)))
                    out.append(("parse(text)", allow, lambda allow=allow: stix2.parse(json.dumps(j), allow_custom=allow, version=ver)))
                out.append(("parse(container)", allow, lambda allow=allow: stix2.parse(copy.deepcopy(wrap), allow_custom=allow, version=ver)))
                if kind == "observable":
                    out.append(("parse_observable", allow, lambda allow=allow: stix2.parse_observable(copy.deepcopy(j), allow_custom=allow, version=ver)))
                if "id" in j:
                    out.append(("MemoryStore.add", allow, lambda allow=allow: stix2.MemoryStore(allow_custom=allow).add(copy.deepcopy(j), version=ver)))
            return out
        # 1. before registration: every entry (the ones selected by case["first"]) fails or yields a plain dict
        for ename, allow, fn in attempts("before"):
            if case["first"] != "all" and ename != case["first"]:
                continue
            call(part, ename, fn, dict(case, stage="before-registration", allow_custom=allow), "unregistered-type")
        # 2. registration
        class Body(object):
            pass
        (mod.CustomObject if kind == "object" else mod.CustomObservable)(name, [("prop", P.StringProperty())])(Body)
        cls = stix2.registry.class_for_type(name, ver)
        # 3. the same calls must now produce the registered class
        for ename, allow, fn in attempts("after"):
            part.evaluations += 1
            part.transitions += 1
            c = dict(case, stage="after-registration", entry=ename, allow_custom=allow)
            try:
                r = fn()
            except Exception as e:
                part.outcome("after-registration:REFUSED")
                part.violation("C17/failure-left-something-behind/%s" % ename, "a type that was refused before its registration is still refused after it", c, cls.__name__, "%s: %s" % (type(e).__name__, str(e)[:120]))
                continue
            if ename == "MemoryStore.add":
                part.outcome("after-registration:ok")
                continue
            inner = r
            if ename == "parse(container)":
                inner = r["objects"][0] if wrap["type"] == "bundle" else r["objects"]["0"]
            if not isinstance(inner, cls):
                part.outcome("after-registration:NOT-THE-CLASS")
                part.violation("C17/failure-left-something-behind/%s" % ename, "a type that was parsed before its registration does not resolve to the registered class afterwards", c, cls.__name__, type(inner).__name__)
            else:
                part.outcome("after-registration:ok")
    finally:
        env.registry_restore(snap)


def run_case(case, part):
    if case.get("kind") == "partial-bundle":
        return run_partial_bundle(case, part)
    if case.get("kind") == "dict-kept-junk":
        return run_dict_kept_junk(case, part)
    if case.get("kind") == "names":
        return run_names(case, part)
    if case.get("kind") == "depths":
        return run_depths(case, part)
    if case.get("kind") == "fail-then-register":
        return run_fail_then_register(case, part)
    if case.get("kind") == "extension-types":
        return run_extension_types(case, part)
    if case.get("kind") == "arguments":
        return run_arguments(case, part)
    if case.get("kind") == "refused-registrations":
        return run_refused_registrations(case, part)
    if case.get("kind") in ("values",):
        run_values(case, part)
    elif case.get("kind") in ("value", "text"):
        run_values({"kind": "values", "type_values": [case["value"].get("type")] if isinstance(case.get("value"), dict) else ["identity"], "toplevel": True}, part)
    else:
        run_slots(case, part)


def replay(case, part):
    c = {k: v for k, v in case.items() if k not in ("entry", "allow_custom", "stage", "extra", "marking", "value", "toprank")}
    if c.get("kind") == "arguments":
        c = {"kind": "arguments", "version": c["version"]}
    if isinstance(c.get("junk"), list):
        c = {k: v for k, v in c.items() if k not in ("slot", "junk")}
        c["pairs"] = True
    run_case(c, part)


def run(run):
    th = run.thorough
    cases = []
    for version in ("2.0", "2.1"):
        g = gen.Gen(version)
        for key in g.top_keys():
            cases.append({"version": version, "key": key, "label": "min", "pairs": th})
            cases.append({"version": version, "key": key, "label": "max"})
    names = sorted(set(model.spec("2.1").objects + model.spec("2.1").observables + model.spec("2.0").objects)) + ["x-unknown", "tlp", "archive-ext"]
    for i in range(0, len(names), 4):
        cases.append({"kind": "values", "type_values": names[i:i + 4]})
    cases.append({"kind": "values", "type_values": [None, 0, 1.5, True, "", [], {}], "toplevel": True})
    for version in ("2.0", "2.1"):
        g = gen.Gen(version)
        for key in g.top_keys():
            cases.append({"kind": "names", "version": version, "key": key, "label": "max" if th else "min"})
    for b in ("file-without-id", "file-with-id", "network-traffic-without-id", "identity", "identity-with-granular-markings", "identity-2.0-with-granular-markings"):
        cases.append({"kind": "depths", "base": b})
    for b in ("unregistered-type", "identity", "file"):
        cases.append({"kind": "extension-types", "base": b})
    cases += [{"kind": "arguments", "version": "2.0"}, {"kind": "arguments", "version": "2.1"}, {"kind": "refused-registrations"}]
    for ver in ("2.0", "2.1"):
        for kind in ("object", "observable"):
            for first in ("all", "parse(dict)", "parse(text)", "parse(container)", "parse_observable", "MemoryStore.add"):
                cases.append({"kind": "fail-then-register", "version": ver, "kind2": kind, "first": first})
    run.mode = "DEV (fault enumeration)"
    run.rule = ("every (type, minimal|maximal base, slot, junk value of another JSON kind incl. 600-deep nesting) x allow_custom x entry points%s + every JSON value of depth <= 2 over the "
                "leaf/key alphabet with every registered type name; every object node of every %s instance + one member with each of %d unusual names; arbitrary-content places x nesting depths %s; "
                "sequences refused-parse -> registration -> same parse; states = distinct bases and parser inputs" % ("; all pairs of top-level slots x 5 junk pairs on minimal bases" if th else "", "maximal" if th else "minimal", len(NAMES), DEPTHS))
    run.bound = {"junk_values": len(JUNK) + len(DEEP), "replacements": 2 if th else 1, "entry_points": 6, "bases": 2 * 77}
    run.assumptions += ["instances from the frozen spec model", "only JSON-decodable inputs; nesting that defeats json.loads itself is excluded (deep junk goes through dict forms only)"]
    cases.append({"kind": "partial-bundle"})
    cases.append({"kind": "dict-kept-junk"})
    run.pmap(run_case, cases, order_independent=True)
    run.part.sample({"version": "2.1", "key": "observables:file", "label": "max", "slot": ["extensions"], "junk": "[1]", "allow_custom": False, "entry": "parse(dict)"})
    run.part.sample({"kind": "value", "value": {"type": "bundle", "objects": [None]}, "allow_custom": True})
    run.part.sample({"version": "2.0", "key": "objects:indicator", "label": "min", "slot": ["pattern"], "junk": "deep-list", "entry": "constructor"})
    o = run.part.outcomes
    run.require(o.get("refused:STIXError", 0) > 10000, "junk refused through the library's own errors")
    run.require(o.get("returned", 0) > 1000, "some junk is normalised/accepted (then it is C02's business)")
