"""C17 - Bad input is reported only through the library's error family.

DEV-mode fault enumeration: (i) every JSON value of depth <= 2 over a leaf/key alphabet (type values over every registered type name) as
parser input, incl. text forms; (ii) every minimal and maximal valid instance (frozen spec model) x every slot (recursively) x 16 junk
values of another JSON kind (incl. pathologically deep nesting), one replacement (thorough: two on minimal bases), both allow_custom
settings, through parse(dict), parse(text), constructor, parse_observable, MemoryStore.add and FileSystemSink.add.
Oracle: the call terminates and either returns or raises STIXError / ValueError / TypeError; AttributeError, KeyError, IndexError,
RecursionError, UnboundLocalError ... never escape; registries and stores are unchanged after a failure.
"""
import copy
import itertools
import json
import os
import shutil

from mc import env
from mc.spec import gen, harness, model

ID = "C17"
JUNK = [("null", None), ("true", True), ("0", 0), ("1.5", 1.5), ("string", "s"), ("empty-string", ""), ("[]", []), ("[1]", [1]), ("{}", {}), ("{a:1}", {"a": 1}), ("[[]]", [[]]),
        ("[{}]", [{}]), ("{a:{}}", {"a": {}}), ("[null]", [None])]
DEEP = ["deep-list", "deep-dict"]


def deep(label):
    x = "s"
    for _ in range(600):        # json.loads still decodes this depth; repr()/deepcopy()/str() of it exceed the default recursion limit
        x = [x] if label == "deep-list" else {"k": x}
    return x


def junk_value(label):
    if label in DEEP:
        return deep(label)
    return copy.deepcopy(dict(JUNK)[label])


def kind_of(v):
    return "null" if v is None else "bool" if isinstance(v, bool) else "number" if isinstance(v, (int, float)) else "string" if isinstance(v, str) else "list" if isinstance(v, list) else "object"


class Stores(object):
    inst = None

    def __init__(self):
        from stix2 import FileSystemSink, MemoryStore
        self.dir = env.scratch_dir("c17")
        self.sink = {a: FileSystemSink(self.dir, allow_custom=a) for a in (False, True)}
        self.mem = {a: MemoryStore(allow_custom=a) for a in (False, True)}
        import atexit
        atexit.register(shutil.rmtree, self.dir, True)
        self.pid = os.getpid()

    def fingerprint(self):
        files = sorted(os.path.join(dp, f) for dp, dn, fn in os.walk(self.dir) for f in fn)
        mem = {a: sorted(m._data) for a, m in self.mem.items()}
        return files, mem

    @classmethod
    def get(cls):
        if cls.inst is None or cls.inst.pid != os.getpid():
            cls.inst = Stores()
        return cls.inst


def call(part, name, fn, case, feat, allowed_return=True):
    """one guarded call: classifies the outcome, reports escapes"""
    import stix2.exceptions as X
    part.evaluations += 1
    part.transitions += 1
    reg_before = env.registry_fingerprint()
    try:
        r = fn()
        part.outcome("returned")
        ok = True
    except (X.STIXError, ValueError, TypeError) as e:
        if isinstance(e, (KeyError, IndexError, AttributeError, RecursionError)):       # (none of these derives from the family; defensive)
            part.violation("C17/escapes/%s/%s" % (type(e).__name__, feat), "an internal failure escapes", dict(case, entry=name), "STIXError / ValueError / TypeError", "%s: %s" % (type(e).__name__, str(e)[:150]))
        part.outcome("refused:" + ("STIXError" if isinstance(e, X.STIXError) else type(e).__name__))
        ok = False
    except RecursionError as e:
        import traceback
        tb = traceback.extract_tb(e.__traceback__)
        where = "?"
        for fr in tb:
            if "/stix2/" in fr.filename:
                where = "%s:%s" % (os.path.basename(fr.filename), fr.name)      # the OUTERMOST library frame that is not protected
            if "/stix2/" not in fr.filename and where != "?":
                break
        part.outcome("ESCAPE:RecursionError")
        part.violation("C17/escapes/RecursionError@%s" % where, "an internal failure escapes instead of a library error", dict(case, entry=name), "STIXError / ValueError / TypeError", "RecursionError")
        ok = False
    except Exception as e:
        import traceback
        tb = traceback.extract_tb(e.__traceback__)
        where = "?"
        for fr in reversed(tb):
            if "/stix2/" in fr.filename:
                where = "%s:%s" % (os.path.basename(fr.filename), fr.name)
                break
        part.outcome("ESCAPE:" + type(e).__name__)
        part.violation("C17/escapes/%s@%s" % (type(e).__name__, where), "an internal failure escapes instead of a library error", dict(case, entry=name),
                       "STIXError / ValueError / TypeError", "%s: %s" % (type(e).__name__, str(e)[:150]))
        ok = False
    if not ok and env.registry_fingerprint() != reg_before:
        part.violation("C17/registry-changed-after-failure/%s" % name, "a failed call changed the type registries", dict(case, entry=name), "unchanged", "changed")
    return ok


def entries(j, version, allow, top_type_is_observable, stores=False, text_ok=True):
    import stix2
    out = [("parse(dict)", lambda: stix2.parse(copy.copy(j) if isinstance(j, dict) else j, allow_custom=allow))]
    if text_ok:
        try:
            text = json.dumps(j)
            out.append(("parse(text)", lambda: stix2.parse(text, allow_custom=allow)))
        except (ValueError, RecursionError, TypeError):
            pass
    if isinstance(j, dict) and isinstance(j.get("type"), str):
        cls = stix2.registry.class_for_type(j["type"], version)
        if cls is not None:
            out.append(("constructor", lambda: cls(allow_custom=allow, **{k: v for k, v in j.items()})))
    if top_type_is_observable:
        out.append(("parse_observable", lambda: stix2.parse_observable(j, allow_custom=allow, version=version)))
    if stores:
        st = Stores.get()
        out.append(("MemoryStore.add", lambda: st.mem[allow].add(j)))
        out.append(("FileSystemSink.add", lambda: st.sink[allow].add(j)))
    return out


def slot_feature(path, p, jlabel):
    k = p["kind"] if p["kind"] != "list" else "list<%s>" % p["of"]["kind"]
    name = path[-1] if isinstance(path[-1], str) else path[-2]
    special = name if name in ("extensions", "id", "type", "created", "modified", "pattern", "definition", "definition_type", "objects", "spec_version", "granular_markings", "hashes") else k
    return "%s<-%s" % (special, jlabel if jlabel in DEEP else kind_of(dict(JUNK).get(jlabel)))


def run_slots(case, part):
    env.reset()
    version, key, label = case["version"], case["key"], case["label"]
    wrapped = None
    for k2, l2, i2, w2, loc2 in harness.all_cases(version, keys=[key]):
        if l2 == label:
            wrapped = w2
            break
    if wrapped is None:
        raise RuntimeError("generator no longer produces %s %s %s" % (version, key, label))
    tkey = model.spec(version).key_for_type(wrapped["type"])
    is_sco = model.spec(version).classes[tkey]["category"] == "observables"
    part.state((version, key, label), nontrivial=True)
    slots = list(harness.typed_slots(wrapped, version, tkey))
    if case.get("top_only"):
        slots = [s for s in slots if len(s[0]) == 1]
    only = case.get("slot")
    junk_labels = [l for l, _ in JUNK] + DEEP
    for path, v, p, ckey, pname in slots:
        if only is not None and list(path) != only:
            continue
        for jl in junk_labels:
            if case.get("junk") and jl != case["junk"]:
                continue
            jv = junk_value(jl)
            if kind_of(jv) == kind_of(v) and jl not in DEEP and not isinstance(v, (list, dict)):
                continue
            j = gen.set_path(wrapped, path, jv)
            feat = slot_feature(path, p, jl)
            for allow in (False, True):
                c = dict(case, slot=list(path), junk=jl, allow_custom=allow)
                st = Stores.get()
                # stores: deep (but otherwise valid) nesting that only defeats the JSON writer is resource exhaustion, not this property
                before = st.fingerprint() if len(path) == 1 and label == "min" and jl not in DEEP else None
                for name, fn in entries(j, version, allow, is_sco, stores=before is not None, text_ok=True):
                    if name.endswith(".add"):
                        before = st.fingerprint()
                    ok = call(part, name, fn, c, feat)
                    if before is not None and not ok and name.endswith(".add"):
                        after = st.fingerprint()
                        if after != before:
                            part.violation("C17/store-changed-after-failure/%s" % name, "a failed add changed the store", dict(c, entry=name), "unchanged", "changed")
                if before is not None:
                    # successful adds are not this property's business: start the next junk from a clean slate
                    for a in (False, True):
                        st.mem[a]._data.clear()
                    for dp, dn, fn_ in os.walk(st.dir, topdown=False):
                        for f in fn_:
                            os.unlink(os.path.join(dp, f))
    if case.get("pairs"):
        top = [s for s in slots if len(s[0]) == 1]
        for (pa, va, ppa, _, _), (pb, vb, ppb, _, _) in itertools.combinations(top, 2):
            for ja, jb in (("null", "{}"), ("{}", "[1]"), ("string", "0"), ("[]", "string"), ("{a:1}", "true")):
                j = gen.set_path(gen.set_path(wrapped, pa, junk_value(ja)), pb, junk_value(jb))
                for allow in (False, True):
                    c = dict(case, slot=[list(pa), list(pb)], junk=[ja, jb], allow_custom=allow)
                    for name, fn in entries(j, version, allow, is_sco):
                        call(part, name, fn, c, "pair:%s+%s" % (slot_feature(pa, ppa, ja), slot_feature(pb, ppb, jb)))


LEAVES = [None, True, 0, 1.5, "s", ""]
KEYS = ["type", "id", "objects", "spec_version", "extensions", "x"]


def run_values(case, part):
    """(i) arbitrary JSON values as parser input"""
    import stix2
    env.reset()
    tvals = case["type_values"]
    d1 = list(LEAVES) + [[], {}] + [[a] for a in LEAVES] + [[a, b] for a in LEAVES[:3] for b in LEAVES[3:]]
    vals = []
    for t in tvals:
        vals.append({"type": t})
        for k in KEYS[1:]:
            for x in d1 + [{"type": t}, [{"type": t}]]:
                vals.append({"type": t, k: x})
        for k1, k2 in itertools.combinations(KEYS[1:], 2):
            for x, y in ((None, "s"), ("s", {}), ([], 0), ({}, [{}]), ("2.1", "identity--x")):
                vals.append({"type": t, k1: x, k2: y})
    if case.get("toplevel"):
        vals += list(LEAVES) + [[], {}, [[]], [{}], {"x": 1}, {"id": "identity--x"}, [{"type": "identity"}], {"type": None}, {"type": 0}, {"type": []}, {"type": {}}, {"type": True}]
    for j in vals:
        part.state(("value", json.dumps(j, sort_keys=True)), nontrivial=isinstance(j, dict))
        t = j.get("type") if isinstance(j, dict) else None
        feat = "value:type=%s+%s" % ("registered" if isinstance(t, str) and (t in model.spec("2.1").objects + model.spec("2.1").observables + model.spec("2.0").objects) else kind_of(t) if not isinstance(t, str) else "unknown",
                                     "+".join(sorted("%s:%s" % (k, kind_of(v)) for k, v in j.items() if k != "type")) if isinstance(j, dict) else kind_of(j))
        for allow in (False, True):
            c = {"kind": "value", "value": j, "allow_custom": allow}
            for name, fn in entries(j, "2.1", allow, isinstance(t, str) and t in model.spec("2.1").observables):
                call(part, name, fn, c, feat)
    if case.get("toplevel"):
        for text in ("", "{", "[1,", "nul", '{"type": "identity"', '"s"', "5", "true", "null", "[" * 50 + "]" * 50, '{"type":"identity","type":"malware"}', "﻿{}", '{"a":NaN}'):
            for allow in (False, True):
                call(part, "parse(text)", lambda: stix2.parse(text, allow_custom=allow), {"kind": "text", "text": text[:60], "allow_custom": allow}, "malformed-text")


def run_case(case, part):
    if case.get("kind") in ("values",):
        run_values(case, part)
    elif case.get("kind") in ("value", "text"):
        run_values({"kind": "values", "type_values": [case["value"].get("type")] if isinstance(case.get("value"), dict) else ["identity"], "toplevel": True}, part)
    else:
        run_slots(case, part)


def replay(case, part):
    c = {k: v for k, v in case.items() if k not in ("entry", "allow_custom")}
    if isinstance(c.get("junk"), list):
        c = {k: v for k, v in c.items() if k not in ("slot", "junk")}
        c["pairs"] = True
    run_case(c, part)


def run(run):
    th = run.thorough
    cases = []
    for version in ("2.0", "2.1"):
        g = gen.Gen(version)
        for key in g.top_keys():
            cases.append({"version": version, "key": key, "label": "min", "pairs": th})
            cases.append({"version": version, "key": key, "label": "max"})
    names = sorted(set(model.spec("2.1").objects + model.spec("2.1").observables + model.spec("2.0").objects)) + ["x-unknown", "tlp", "archive-ext"]
    for i in range(0, len(names), 4):
        cases.append({"kind": "values", "type_values": names[i:i + 4]})
    cases.append({"kind": "values", "type_values": [None, 0, 1.5, True, "", [], {}], "toplevel": True})
    run.mode = "DEV (fault enumeration)"
    run.rule = ("every (type, minimal|maximal base, slot, junk value of another JSON kind incl. 600-deep nesting) x allow_custom x entry points%s + every JSON value of depth <= 2 over the "
                "leaf/key alphabet with every registered type name; states = distinct bases and parser inputs" % ("; all pairs of top-level slots x 5 junk pairs on minimal bases" if th else ""))
    run.bound = {"junk_values": len(JUNK) + len(DEEP), "replacements": 2 if th else 1, "entry_points": 6, "bases": 2 * 77}
    run.assumptions += ["instances from the frozen spec model", "only JSON-decodable inputs; nesting that defeats json.loads itself is excluded (deep junk goes through dict forms only)"]
    run.pmap(run_case, cases)
    run.part.sample({"version": "2.1", "key": "observables:file", "label": "max", "slot": ["extensions"], "junk": "[1]", "allow_custom": False, "entry": "parse(dict)"})
    run.part.sample({"kind": "value", "value": {"type": "bundle", "objects": [None]}, "allow_custom": True})
    run.part.sample({"version": "2.0", "key": "objects:indicator", "label": "min", "slot": ["pattern"], "junk": "deep-list", "entry": "constructor"})
    o = run.part.outcomes
    run.require(o.get("refused:STIXError", 0) > 10000, "junk refused through the library's own errors")
    run.require(o.get("returned", 0) > 1000, "some junk is normalised/accepted (then it is C02's business)")
