"""C16 - Canonical JSON output conforms to RFC 8785.

DEV-mode enumeration against mc/ref/jcs.py:
  numbers  : every biased exponent 0..2046 x mantissa patterns x sign; doubles nearest 10^k and +-1,+-2 ulp (k=-324..308);
             all decimals d.dd x 10^k; integer boundaries (2^53, 10^21, 2^63/2^64); NaN / +-inf at top level and nested
  strings  : every code point 0x00-0x7F, BMP/astral boundary code points, all pairs over a 12-character alphabet (as values and keys)
  key sets : all <=4-subsets of 8 keys in EVERY insertion order (two of them sort differently by UTF-16 unit and by code point)
  structure: all values of depth <=3 with <=2 children per container over a leaf alphabet
Clauses: equals reference; utf8=True is its UTF-8 encoding; parses back to the same value; fixpoint; order independence; NaN/inf refused.
"""
import copy
import itertools
import json
import math
import struct

from mc.ref import jcs as J

ID = "C16"

MANTISSAS = [0, 1, 2, 3, 1 << 51, (1 << 52) - 1, (1 << 52) - 2, 0x5555555555555, 0xAAAAAAAAAAAAA, 0xFFFFF, 0x8000000000001, 0x7FFFFFFFFFFFF,
             0x1000000000000, 0x0000000100000, 0x3333333333333, 0x999999999999A, 0xCCCCCCCCCCCCD, 0x4000000000000, 0xC000000000000,
             0x0123456789ABC, 0xFEDCBA9876543, 0x243F6A8885A30, 0x6A09E667F3BCC, 0x0000000000FFF]
KEYS = ["", "a", "A", "aa", "\n", "é", "", "\U00010000"]
CHARS12 = ["a", "\"", "\\", "/", "\u0000", "\u001f", "\u007f", "é", "퟿", "", "￿", "\U0001f600"]
LEAVES = [None, True, False, 0, -0.0, 1.5, 1e21, "a"]
EXTRA_MANTISSAS = {False: 176, True: 1976}    # deterministic multiplicative-hash patterns added to the hand-picked ones


def dbl(sign, exp, mant):
    return struct.unpack(">d", struct.pack(">Q", (sign << 63) | (exp << 52) | mant))[0]


def nextafter_n(x, n):
    for _ in range(abs(n)):
        x = math.nextafter(x, math.inf if n > 0 else -math.inf)
    return x


def lib(v, utf8=False):
    from stix2.canonicalization.Canonicalize import canonicalize
    try:
        return ("ok", canonicalize(v, utf8=utf8))
    except Exception as e:
        return (type(e).__name__, str(e)[:100])


def value_equal(a, b):
    """JSON value equality after a parse: ints beyond 2^53 are compared as doubles (RFC 8785), tuples as lists."""
    if isinstance(a, bool) or isinstance(b, bool) or a is None or b is None:
        return a is b
    if isinstance(a, (int, float)) and isinstance(b, (int, float)):
        return float(a) == float(b)
    if isinstance(a, str) and isinstance(b, str):
        return a == b
    if isinstance(a, (list, tuple)) and isinstance(b, (list, tuple)):
        return len(a) == len(b) and all(value_equal(x, y) for x, y in zip(a, b))
    if isinstance(a, dict) and isinstance(b, dict):
        return set(a) == set(b) and all(value_equal(a[k], b[k]) for k in a)
    return False


def number_feature(x):
    if isinstance(x, int) and not isinstance(x, bool):
        return "int>2^53" if abs(x) > 2 ** 53 else "int"
    ax = abs(x)
    if ax == 0:
        return "zero"
    if ax >= 1e21:
        return ">=1e21"
    if ax < 1e-6:
        return "<1e-6"
    if ax >= 1e16:
        return "1e16..1e21"
    return "mid-range"


def check_value(v, part, kind, feature=None, full=True):
    part.evaluations += 1
    part.transitions += 1
    case = {"kind": kind, "value": enc(v)}
    exp = J.jcs(v)
    k, out = lib(v, utf8=False)
    repro = "from stix2.canonicalization.Canonicalize import canonicalize\nprint(canonicalize(%r, utf8=False))\n" % (v,)
    feat = feature or kind
    if k != "ok":
        part.outcome("refused:" + kind)
        part.violation("C16/refused/%s/%s" % (feat, k), "a JSON value is refused by the canonicalizer", case, exp, [k, out], repro)
        return
    part.state(out)
    if out != exp:
        part.outcome("mismatch:" + kind)
        part.violation("C16/differs-from-rfc8785/%s" % feat, "canonical text differs from the independent RFC 8785 implementation", case, exp, out, repro)
        return
    part.outcome("match:" + kind)
    if not full:
        return
    k2, out8 = lib(v, utf8=True)
    if k2 != "ok" or out8 != exp.encode("utf-8"):
        part.violation("C16/utf8-form/%s" % feat, "utf8=True output is not the UTF-8 encoding of the canonical text", case, exp, [k2, repr(out8)[:100]], repro)
    from stix2.canonicalization.Canonicalize import canonicalize
    try:
        dflt = canonicalize(v)
    except Exception as e:
        dflt = "%s: %s" % (type(e).__name__, str(e)[:80])
    if dflt != exp.encode("utf-8"):
        part.violation("C16/default-call/%s" % feat, "canonicalize(value) with its options left at their defaults is not the UTF-8 encoding of the canonical text (RFC 8785 3.2.4)", case, exp, repr(dflt)[:100], repro)
    try:
        back = json.loads(out)
    except Exception as e:
        part.violation("C16/not-json/%s" % feat, "canonical text is not parseable JSON", case, exp, out, repro)
        return
    if not value_equal(back, v):
        part.violation("C16/parse-back/%s" % feat, "canonical text parses back to a different value", case, enc(v), enc(back), repro)
    k3, again = lib(back, utf8=False)
    if k3 != "ok" or again != out:
        part.violation("C16/fixpoint/%s" % feat, "canonicalizing the parsed output is not a fixed point", case, out, [k3, again], repro)


def enc(v):
    """Case encoding that survives JSON (floats by hex, non-ASCII strings escaped by json)."""
    if isinstance(v, float):
        return {"$f": v.hex()}
    if isinstance(v, (list, tuple)):
        return [enc(x) for x in v]
    if isinstance(v, dict):
        return {"$d": [[k, enc(x)] for k, x in v.items()]}
    if isinstance(v, int) and not isinstance(v, bool) and abs(v) > 2 ** 53:
        return {"$i": str(v)}
    return v


def dec(v):
    if isinstance(v, dict):
        if "$f" in v:
            return float.fromhex(v["$f"])
        if "$i" in v:
            return int(v["$i"])
        if "$d" in v:
            return {k: dec(x) for k, x in v["$d"]}
    if isinstance(v, list):
        return [dec(x) for x in v]
    return v


# ---- case families -------------------------------------------------------------------------------------
def run_exponents(case, part):
    mants = MANTISSAS + [((m * 0x9E3779B97F4A7) ^ (m >> 7)) & ((1 << 52) - 1) for m in range(1, EXTRA_MANTISSAS[bool(case.get("thorough"))] + 1)]
    for e in range(case["lo"], case["hi"]):
        for m in mants:
            for s in (0, 1):
                x = dbl(s, e, m)
                check_value(x, part, "double", number_feature(x), full=(m in MANTISSAS[:8]) or case.get("thorough", False))


def run_pow10(case, part):
    for k in range(case["lo"], case["hi"]):
        try:
            c = float("1e%d" % k)
        except Exception:
            continue
        if c == 0 or c == math.inf:
            continue
        for n in (-2, -1, 0, 1, 2):
            x = nextafter_n(c, n)
            if x == 0 or x == math.inf:
                continue
            for s in (1, -1):
                check_value(s * x, part, "pow10-neighbour", number_feature(x))
                check_value([s * x, {"k": [s * x]}], part, "pow10-neighbour", number_feature(x) + "/in-array-and-member", full=False)
        for d in range(100, 1000):
            x = float("%d.%02de%d" % (d // 100, d % 100, k)) if -10 <= k <= 25 else None
            if x is not None:
                check_value(x, part, "decimal-d.dd", number_feature(x), full=False)
        if -10 <= k <= 25:
            for d in range(1000, 10000, 1 if case.get("thorough") else 7):
                x = float("%d.%03de%d" % (d // 1000, d % 1000, k))
                check_value(x, part, "decimal-d.ddd", number_feature(x), full=False)


def run_ints(case, part):
    vals = set(range(-2048, 2049))
    for d in range(-4, 5):
        vals.add(2 ** 53 + d)
        vals.add(-(2 ** 53) + d)
        vals.add(2 ** 63 + d)
        vals.add(2 ** 64 + d)
        vals.add(-(2 ** 63) + d)
    for k in range(0, 23):
        for d in (-1, 0, 1):
            vals.add(10 ** k + d)
            vals.add(-(10 ** k) + d)
    for v in sorted(vals):
        check_value(v, part, "int", number_feature(v))
        # the same number in every POSITION a value can take: array element (first, later, nested), object member, member of an object in an array
        for wname, wrap in (("array-element", lambda x: [x]), ("later-array-element", lambda x: [1, x]), ("nested-array-element", lambda x: [[x]]), ("member", lambda x: {"k": x}),
                            ("member-of-object-in-array", lambda x: [{"k": x}]), ("array-in-member", lambda x: {"k": [x, float(x)] if abs(x) < 2 ** 1000 else [x]})):
            check_value(wrap(v), part, "int", number_feature(v) + "/" + wname, full=False)
    # NaN / infinities must be refused, at top level and nested
    for bad in (math.nan, math.inf, -math.inf, -math.nan):
        for wrap, name in ((lambda x: x, "top"), (lambda x: [x], "list"), (lambda x: {"a": x}, "member"), (lambda x: {"a": [1, {"b": x}]}, "deep")):
            part.evaluations += 1
            part.transitions += 1
            k, out = lib(wrap(bad))
            part.state(("nonfinite", repr(bad), name))
            if k == "ok":
                part.outcome("nonfinite-accepted")
                part.violation("C16/nonfinite-accepted/%s" % repr(bad), "NaN/Infinity is not refused", {"kind": "nonfinite", "value": repr(bad), "where": name},
                               "refused", out, "from stix2.canonicalization.Canonicalize import canonicalize\nprint(canonicalize(float(%r), utf8=False))\n" % repr(bad))
            else:
                part.outcome("nonfinite-refused")


def run_strings(case, part):
    cps = list(range(0, 0x80)) + [0x80, 0xFF, 0x100, 0x7FF, 0x800, 0xD7FF, 0xE000, 0xFFFD, 0xFFFF, 0x10000, 0x10FFFF, 0x2028, 0x2029, 0xFEFF]
    for cp in cps:
        ch = chr(cp)
        feat = "control" if cp < 0x20 else "ascii" if cp < 0x80 else "bmp" if cp < 0x10000 else "astral"
        check_value(ch, part, "string", "string-" + feat)
        # ENVIRONMENT: an interpreter without the `_json` accelerator uses the module's own escaping code: it must write the same text
        from stix2.canonicalization import Canonicalize as CZ
        pe = getattr(CZ, "py_encode_basestring", None)
        if pe is not None:
            part.transitions += 1
            for text in (ch, "x" + ch + "y"):
                try:
                    got = pe(text)
                except Exception as e:
                    got = "%s: %s" % (type(e).__name__, str(e)[:60])
                if got != J.jcs(text):
                    part.violation("C16/pure-python-escaping/string-%s" % feat, "the escaping code used when the `_json` accelerator is missing writes another text than RFC 8785 requires",
                                   {"kind": "string", "value": enc(text), "path": "py_encode_basestring"}, J.jcs(text), got)
        check_value({ch: ch}, part, "key", "key-" + feat)
        check_value("x" + ch + "y", part, "string", "string-" + feat)
    for a in CHARS12:
        for b in CHARS12:
            check_value(a + b, part, "string-pair", "string-pair")
            check_value({a + b: [a, b]}, part, "key-pair", "key-pair")
            if a != b:
                check_value({a: 1, b: 2}, part, "two-keys", "key-order")


def run_keysets(case, part):
    n = case["size"]
    for perm in itertools.permutations(KEYS, n):
        if perm and perm[0] != case.get("first", perm[0]):
            continue
        d = {}
        for i, k in enumerate(perm):
            d[k] = i
        exp = J.jcs({k: 0 for k in perm})
        check_value(d, part, "keyset", "key-order", full=(n <= 2))
        # order independence, stated directly: same key set with equal values in another insertion order gives identical text
        d0 = {k: 0 for k in perm}
        k1, o1 = lib(d0)
        part.evaluations += 1
        if k1 != "ok" or o1 != exp:
            part.violation("C16/order-dependence", "output depends on member insertion order", {"kind": "keyset", "value": enc(d0)}, exp, [k1, o1], None)


PREFIXES = ["", "a", "\u00e9", "name", "\ud7ff"]
TAILS = ["", "\u007f", "\ud7ff", "\ue000", "\uff21", "\uffff", "\U00010000", "\U0001f600", "\U0010ffff", "a",
         # characters whose place changes once a name is QUOTED or ESCAPED (below the quote character; the quote and the backslash themselves; control characters written \u00XX; next to
         # digits and upper-case letters, which lie between '"' and '\\'): the order is that of the raw names
         " ", "!", "\"", "\\", "\u001f", "\n", "A", "0", "Z"]


def run_prefixed_keys(case, part):
    """member names that share a prefix and first differ in (astral | U+E000..U+FFFF | below the surrogates): every pair and triple, every insertion order"""
    keys = [case["prefix"] + t for t in TAILS]
    for r in (2, 3):
        for combo in itertools.combinations(keys, r):
            for perm in itertools.permutations(combo):
                d = {k: i for i, k in enumerate(perm)}
                check_value(d, part, "keyset", "key-order", full=False)


def gen_values(depth, children=2):
    if depth == 1:
        return list(LEAVES)
    sub = gen_values(depth - 1, children)
    out = list(LEAVES)
    out.append([])
    out.append({})
    for a in sub:
        out.append([a])
        out.append({"b": a})
    return out, sub


def run_structures(case, part):
    # all values of depth <= 3 with <= 2 children per container; the slice [lo:hi) of the outer pairs is this shard
    d1 = list(LEAVES)
    d2 = list(LEAVES) + [[], {}] + [[a] for a in d1] + [{"b": a} for a in d1] + [[a, b] for a in d1 for b in d1] + [{"b": a, "a": b} for a in d1 for b in d1]
    shard, nshards = case["shard"], case["nshards"]
    idx = 0
    for a in d2:
        idx += 1
        if idx % nshards != shard:
            continue
        check_value(a, part, "structure", "top-level-value", full=True)          # the value on its own: scalars and empty containers at the top level
        check_value([a], part, "structure", "structure", full=True)
        check_value({"b": a}, part, "structure", "structure", full=True)
        for b in d2:
            check_value([a, b], part, "structure", "structure", full=False)
            check_value({"b": a, "a": b}, part, "structure", "structure", full=False)


class _Unsupported(object):
    pass


def seq_menu():
    """(name, value, refused?) - values the canonicalizer must refuse part-way through, next to ordinary ones of every kind"""
    bad = [("nan-top", math.nan), ("nan-in-list-tail", [1, 2, math.nan]), ("inf-in-member", {"a": 1, "b": math.inf}), ("nan-deep", {"a": [1, {"b": [True, math.nan]}]}),
           ("unsupported-type-in-list", [1, "x", _Unsupported()]), ("unsupported-type-in-member", {"a": "x", "b": _Unsupported()}), ("nan-single", [math.nan])]
    good = [("int", 1), ("float", 1.5e-7), ("string", "a\u20ac\n"), ("null", None), ("true", True), ("empty-list", []), ("empty-object", {}), ("list", [1, "a", None]),
            ("object", {"b": 1, "a": [1.0, {"c": "d"}]}), ("astral-keys", {"\U00010000": 0, "\ue000": 1})]
    return [(n, v, True) for n, v in bad] + [(n, v, False) for n, v in good]


def run_sequences(case, part):
    """All call sequences of the given depth over the menu x both output forms: an earlier call (in particular one refused half-way) must leave nothing behind."""
    import itertools
    from stix2.canonicalization import Canonicalize as C
    menu = seq_menu()
    ops = [(n, v, r, fn, u) for (n, v, r) in menu for fn in ("canonicalize", "serialize") for u in (False, True)]
    ops = [o for o in ops if o[0] == case["first"]] if case.get("first") else ops
    allops = [(n, v, r, fn, u) for (n, v, r) in menu for fn in ("canonicalize", "serialize") for u in (False, True)]
    expect = {}
    for n, v, r in menu:
        if not r:
            expect[n, "canonicalize"] = J.jcs(v)
            expect[n, "serialize"] = J.jcs(v, sort=False)       # same number/string forms, member order as inserted
    depth = case.get("depth", 2)
    for first in ops:
        for rest in itertools.product(allops, repeat=depth - 1):
            seq = (first,) + rest
            if not any(o[2] for o in seq[:-1]) and depth > 2:
                pass
            part.evaluations += 1
            part.transitions += len(seq)
            part.state(("seq",) + tuple((o[0], o[3], o[4]) for o in seq), nontrivial=any(o[2] for o in seq[:-1]))
            for i, (n, v, r, fn, u) in enumerate(seq):
                try:
                    out = ("ok", getattr(C, fn)(v, utf8=u))
                except Exception as e:
                    out = (type(e).__name__, None)
                if r:
                    ok = out[0] != "ok"
                    want = "refused"
                else:
                    want = expect[n, fn].encode("utf-8") if u else expect[n, fn]
                    ok = out == ("ok", want)
                if not ok:
                    part.outcome("sequence:DIFFERS")
                    part.violation("C16/history-dependent/%s-after-%s" % ("refusal" if r else "output", "refused-call" if any(o[2] for o in seq[:i]) else "call"),
                                   "the result of a canonicalization depends on the calls made before it",
                                   {"kind": "sequences", "depth": depth, "first": first[0], "sequence": [[o[0], o[3], o[4]] for o in seq], "step": i},
                                   repr(want)[:200], [out[0], repr(out[1])[:200]], None)
                    break
            else:
                part.outcome("sequence:same")


def repair_menu():
    """(name, build() -> (value, repair(value))) - a value refused part-way through, then REPAIRED IN PLACE by the caller (same container objects) and handed over again"""
    def in_list_tail():
        v = [1, [2, math.nan]]
        return v, lambda: v[1].__setitem__(1, 3)
    def in_member():
        v = {"a": 1, "b": {"c": math.inf, "d": [1]}}
        return v, lambda: v["b"].__setitem__("c", 0.5)
    def deep():
        v = {"a": [1, {"b": [True, -math.inf]}]}
        return v, lambda: v["a"][1]["b"].__setitem__(1, None)
    def unsupported():
        v = {"a": ["x", _Unsupported()], "z": {}}
        return v, lambda: v["a"].__setitem__(1, "y")
    def big_int():
        v = [{"n": [10 ** 400]}]
        return v, lambda: v[0]["n"].__setitem__(0, 10)
    def removed():
        v = {"k": [math.nan, {"a": 1}]}
        return v, lambda: v["k"].pop(0)
    def shared_child():
        child = {"c": [1, 2]}
        v = {"a": child, "b": [child, math.nan]}
        return v, lambda: v["b"].pop()
    return [("nan-in-list-tail", in_list_tail), ("inf-in-member", in_member), ("-inf-deep", deep), ("unsupported-type", unsupported), ("integer-beyond-double-range", big_int),
            ("offending-element-removed", removed), ("child-at-two-positions", shared_child)]


def run_repairs(case, part):
    """refused call -> the caller repairs the SAME containers in place -> every later call on them (and on their sub-containers, and on them nested in a new parent) answers as for a fresh value;
    with 0, 1 or 2 unrelated calls (accepted / refused) in between"""
    from stix2.canonicalization import Canonicalize as C
    fns = [(fn, u) for fn in ("canonicalize", "serialize") for u in (False, True)]
    def call(fn, u, v):
        try:
            return ("ok", getattr(C, fn)(v, utf8=u))
        except Exception as e:
            return (type(e).__name__, None)
    between_menu = [[], [("good", lambda: {"b": 1, "a": [1.0]})], [("bad", lambda: [1, {"x": math.nan}])], [("bad", lambda: [1, {"x": math.nan}]), ("good", lambda: [[], {}])]]
    for name, build in repair_menu():
        if case.get("name") and name != case["name"]:
            continue
        for f1 in fns:
            for bi, between in enumerate(between_menu):
                for f2 in fns:
                    v, repair = build()
                    part.evaluations += 1
                    part.transitions += 2 + len(between)
                    part.state(("repair", name, f1, bi, f2), nontrivial=True)
                    c = {"kind": "repairs", "name": name, "first": list(f1), "between": bi, "then": list(f2)}
                    r1 = call(f1[0], f1[1], v)
                    if r1[0] == "ok":
                        part.violation("C16/nonfinite-accepted/in-repair-menu", "a value that cannot be canonicalized is accepted", c, "refused", repr(r1[1])[:200])
                        continue
                    for _, mk in between:
                        call(f1[0], f1[1], mk())
                    repair()
                    for label, w in (("same-object", v), ("in-new-parent", [v]), ("fresh-deep-copy", copy.deepcopy(v))):
                        want = J.jcs(w, sort=(f2[0] == "canonicalize"))
                        want = want.encode("utf-8") if f2[1] else want
                        got = call(f2[0], f2[1], w)
                        if got != ("ok", want):
                            part.outcome("repair:DIFFERS")
                            part.violation("C16/history-dependent/repaired-value-after-refused-call/%s" % label, "a value repaired in place after a refused call is not canonicalized like a fresh one",
                                           dict(c, which=label), repr(want)[:200], [got[0], repr(got[1])[:200]], None)
                        else:
                            part.outcome("repair:same")


def run_case(case, part):
    k = case["kind"]
    if k == "repairs":
        return run_repairs(case, part)
    if k == "sequences":
        return run_sequences(case, part)
    if k == "prefixed-keys":
        return run_prefixed_keys(case, part)
    if k in ("exponents",):
        run_exponents(case, part)
    elif k == "pow10":
        run_pow10(case, part)
    elif k == "ints":
        run_ints(case, part)
    elif k == "strings":
        run_strings(case, part)
    elif k == "keysets":
        run_keysets(case, part)
    elif k == "structures":
        run_structures(case, part)
    elif k == "nonfinite":
        run_ints(case, part)
    else:   # replay of a single value
        check_value(dec(case["value"]), part, k, None)


def replay(case, part):
    k = case["kind"]
    if k in ("exponents", "pow10", "ints", "strings", "keysets", "structures", "nonfinite"):
        return run_case(case, part)
    if k == "sequences":
        return run_case({"kind": "sequences", "depth": case.get("depth", 2), "first": case.get("first")}, part)
    if k == "prefixed-keys":
        return run_case(case, part)
    v = dec(case["value"])
    # recompute the feature the explorer used so that the same key is produced
    feat = None
    if isinstance(v, (int, float)) and not isinstance(v, bool):
        feat = number_feature(v)
    elif k in ("string", "key"):
        s = v if isinstance(v, str) else list(v)[0]
        cp = max(ord(c) for c in s.strip("xy") or s) if s else 0
        feat = ("string-" if k == "string" else "key-") + ("control" if cp < 0x20 else "ascii" if cp < 0x80 else "bmp" if cp < 0x10000 else "astral")
    elif k in ("keyset", "two-keys"):
        feat = "key-order"
    elif k in ("string-pair", "key-pair", "structure"):
        feat = k
    check_value(v, part, k, feat)
    if k == "keyset":
        d0 = {kk: 0 for kk in v}
        exp = J.jcs(d0)
        k1, o1 = lib(d0)
        if k1 != "ok" or o1 != exp:
            part.violation("C16/order-dependence", "output depends on member insertion order", case, exp, [k1, o1], None)


def run(run):
    th = run.thorough
    cases = []
    step = 32
    for lo in range(0, 2047, step):
        cases.append({"kind": "exponents", "lo": lo, "hi": min(lo + step, 2047), "thorough": th})
    for lo in range(-324, 309, 16):
        cases.append({"kind": "pow10", "lo": lo, "hi": min(lo + 16, 309), "thorough": th})
    cases.append({"kind": "ints"})
    cases.append({"kind": "strings"})
    for n in range(0, 4):
        cases.append({"kind": "keysets", "size": n})
    for first in KEYS:
        cases.append({"kind": "keysets", "size": 4, "first": first})
    ns = 32
    for s in range(ns):
        cases.append({"kind": "structures", "shard": s, "nshards": ns})
    for n, v, r in seq_menu():
        cases.append({"kind": "sequences", "depth": 3 if th else 2, "first": n})
    for pre in PREFIXES:
        cases.append({"kind": "prefixed-keys", "prefix": pre})
    for n, _ in repair_menu():
        cases.append({"kind": "repairs", "name": n})
    run.mode = "DEV"
    run.rule = ("enumeration of doubles (every exponent x %d mantissa patterns x sign; +-2 ulp around every power of ten; all d.dd x 10^k), integer boundaries, "
                "strings/keys over the code-point alphabet, every insertion order of <=4 keys out of 8, all JSON values of depth <=3 with <=2 children; "
                "every call sequence of depth %d over %d values (7 refused half-way) x {canonicalize, serialize (unsorted form)} x {text, utf8} against the history-free reference; "
                "states = distinct canonical texts produced" % (len(MANTISSAS) + (176 if th else 0), 3 if th else 2, len(seq_menu())))
    run.bound = {"exponents": "0..2046 (all)", "mantissa_patterns": len(MANTISSAS) + EXTRA_MANTISSAS[th], "pow10": "1e-324..1e308, +-2 ulp",
                 "keys": KEYS, "max_keys": 4, "structure_depth": 3, "children": 2, "leaves": [repr(x) for x in LEAVES]}
    run.assumptions.append("oracle: mc/ref/jcs.py (RFC 8785 Appendix B vectors pass); shortest round-trip digits taken from CPython repr(float) on both sides")
    run.pmap(run_case, cases, order_independent=True)
    run.part.sample({"kind": "double", "value": {"$f": (1e21).hex()}, "expected": "1e+21"})
    run.part.sample({"kind": "keyset", "value": {"$d": [["\U00010000", 0], ["", 1]]}, "expected": "{\"\U00010000\":0,\"\":1} (UTF-16 unit order: D800 < E000)"})
    run.part.sample({"kind": "structure", "value": [{"$d": [["b", [None]], ["a", {"$f": (-0.0).hex()}]]}], "expected": "[{\"a\":0,\"b\":[null]}]"})
    o = run.part.outcomes
    run.require(o.get("match:double", 0) >= 2047 * (len(MANTISSAS) + EXTRA_MANTISSAS[th]) * 2 - 10, "every exponent x mantissa x sign executed")
    run.require(o.get("match:keyset", 0) >= 2081, "every insertion order of <=4 of 8 keys executed")
    run.require(o.get("nonfinite-refused", 0) == 16, "NaN/inf refusals observed")
    run.require(o.get("match:structure", 0) > 40000, "depth-3 structures executed")
    run.require(o.get("sequence:same", 0) >= (len(seq_menu()) * 4) ** 2 and not o.get("sequence:DIFFERS"), "call sequences executed")
