"""C02 - Whatever the library emits in strict mode is valid STIX.

DEV-mode fault enumeration: for every type of both spec versions, on the minimal AND the maximal valid instance (frozen spec model), every
slot (recursively through lists, embedded objects, extensions, containers) x every corruption of the menu for its kind (removal, null,
every other JSON kind, out-of-range / out-of-vocabulary / malformed values, forbidden reference targets, malformed identifiers and
timestamps, bad dictionary keys and hashes) + object-level corruptions (unknown properties, violated co-constraints, wrong type /
spec_version), through three entry forms (constructor, parse(dict), parse(text)), strict mode. Thorough adds corruption x one extra
valid optional property on minimal bases.  Oracle: if construction SUCCEEDS, the frozen validator accepts what the object serializes to
(also with include_optional_defaults); an accepted object that cannot be serialized emits nothing valid. Refusals are always fine here.
"""
import copy
import json
import math

from mc import env
from mc.spec import gen, harness, model

ID = "C02"
U = gen.U
NIL = "00000000-0000-0000-0000-000000000000"
V1 = "e1d2f3a4-5b6c-11ea-8d7e-0123456789ab"
V4 = "3f7f0c5f-5d54-4292-94ea-ec1e1952be01"
OTHER_KINDS = [None, True, 0, 1.5, "s", [], ["s"], {}, {"k": "v"}]


def corruptions(v, p, version, name):
    """(label, corrupted value) for one slot; '$remove' removes the slot"""
    k = p["kind"]
    out = [("null", None)]
    for x in OTHER_KINDS[1:]:
        if type(x) is type(v) and not isinstance(v, (list, dict)):
            continue
        out.append(("kind:" + json.dumps(x), x))
    if p.get("required") or "fixed" in p:
        out.append(("remove", "$remove"))
    if k in ("string", "pattern"):
        out.append(("empty-string", ""))
    if k in ("integer", "float"):
        if "min" in p:
            out.append(("below-min", p["min"] - 1))
        if "max" in p:
            out.append(("above-max", p["max"] + 1))
        out += [("numeric-string", "12"), ("nan-string", "nan"), ("inf-string", "inf"), ("float-nan", float("nan")), ("float-inf", float("inf")), ("float-neg-inf", float("-inf")),
                ("huge", 10 ** 400 if k == "integer" else 1e308 * 10)]
        if k == "integer":
            out += [("fraction", 1.5), ("float-integral", 2.0), ("bool-true", True)]
    if k == "boolean":
        out += [("string-true", "true"), ("int-1", 1), ("string-yes", "yes"), ("string-false", "false"), ("int-2", 2)]
    if k == "enum":
        out += [("out-of-vocabulary", "not-in-vocabulary"), ("wrong-case", p["allowed"][0].swapcase() if p["allowed"][0].swapcase() != p["allowed"][0] else p["allowed"][0] + "X")]
    if k == "timestamp":
        out += [("no-z", "2016-05-12T08:17:27.000"), ("offset-form", "2016-05-12T08:17:27.000+01:00"), ("space-separator", "2016-05-12 08:17:27.000Z"), ("hour-25", "2016-05-12T25:00:00.000Z"),
                ("month-13", "2016-13-12T08:17:27.000Z"), ("feb-30", "2016-02-30T08:17:27.000Z"), ("two-digit-year", "16-05-12T08:17:27.000Z"), ("empty", ""), ("date-only", "2016-05-12"),
                ("lowercase", "2016-05-12t08:17:27.000z"), ("year-0000", "0000-05-12T08:17:27.000Z"), ("leap-second", "2016-12-31T23:59:60.000Z"), ("epoch-int", 1463041047)]
    if k == "timestamp":
        # VALID spellings too (accepted-and-valid is the expected outcome): what is written for them must still be valid - in particular keep the digits the property requires
        out += [("valid:milliseconds-end-in-zero", "2016-05-12T08:17:27.100Z"), ("valid:milliseconds-end-in-two-zeros", "2016-05-12T08:17:27.120Z".replace("120", "100")),
                ("valid:hundredths", "2016-05-12T08:17:27.120Z"), ("valid:leading-zero-fraction", "2016-05-12T08:17:27.010Z"), ("valid:one-digit", "2016-05-12T08:17:27.5Z"),
                ("valid:six-digits-trailing-zeros", "2016-05-12T08:17:27.120000Z"), ("valid:no-fraction", "2016-05-12T08:17:27Z")]
    if k in ("id", "ref"):
        t = v.split("--")[0] if isinstance(v, str) and "--" in v else "identity"
        out += [("no-separator", t + "-" + V4), ("non-hex", t + "--" + V4[:-1] + "g"), ("uppercase-hex", t + "--" + V4.upper()), ("nil-uuid", t + "--" + NIL), ("uuid-v1", t + "--" + V1),
                ("extra-suffix", t + "--" + V4 + "x"), ("urn-form", t + "--urn:uuid:" + V4), ("braces", t + "--{" + V4 + "}"), ("no-hyphens", t + "--" + V4.replace("-", "")),
                ("empty-type", "--" + V4), ("type-only", t), ("double-separator", t + "----" + V4), ("infix-before-uuid", t + "--x--" + V4), ("two-uuids", t + "--" + V4 + "--" + V4),
                ("type-twice", t + "--" + t + "--" + V4), ("ncs-variant", t + "--3f7f0c5f-5d54-4292-14ea-ec1e1952be01"), ("uppercase-type", t.upper() + "--" + V4),
                # digits that are not ASCII digits (the same numeric value): full-width, Arabic-Indic, mathematical bold
                ("fullwidth-digit", t + "--" + V4.replace("3", "\uff13", 1)), ("arabic-indic-digit", t + "--" + V4.replace("5", "\u0665", 1)),
                ("math-bold-digit", t + "--" + V4[:-1] + "\U0001d7ce" if V4.endswith("0") else t + "--" + V4.replace("4", "\U0001d7d2", 1))]
    if k == "id":
        out.append(("wrong-type-prefix", "tool--" + V4 if not str(v).startswith("tool--") else "identity--" + V4))
    if k == "ref":
        sp = model.spec(version)
        g = gen.Gen(version)
        legal = set(g.ref_targets(p))
        for t in sp.objects + sp.observables:
            if t not in legal:
                out.append(("forbidden-target:" + t, "%s--%s" % (t, V4)))
        out.append(("unknown-type", "x-unknown--" + V4))
    if k == "list":
        out += [("empty-list", []), ("scalar-instead-of-list", v[0] if isinstance(v, list) and v else "s"), ("list-with-null", (list(v) if isinstance(v, list) else []) + [None]),
                ("nested-list", [v] if isinstance(v, list) else [["s"]]),
                # one-shot iterables: truthy objects that yield nothing, and (control) one that yields the valid elements
                ("lazy-empty:generator", Lazy("generator")), ("lazy-empty:iter", Lazy("iter")), ("lazy-empty:filter", Lazy("filter")), ("lazy-empty:map", Lazy("map")),
                ("lazy-empty:dict-keys", Lazy("dict-keys")), ("lazy-valid:generator", Lazy("generator", v if isinstance(v, list) else []))]
    if k in ("dictionary", "hashes"):
        first = dict(v) if isinstance(v, dict) else {}
        val = next(iter(first.values()), "v")
        out += [("empty-dict", {}), ("key-too-short", dict(first, ab=val)), ("key-too-long", dict(first, **{"k" * 257: val})), ("key-251", dict(first, **{"k" * 251: val})),
                ("key-illegal-char", dict(first, **{"bad key!": val})), ("value-null", dict(first, extra_key=None))]
    if k == "hashes":
        out += [("non-spec-algorithm", {"FOO-1": "abc"}), ("non-spec-algorithm-before-spec-one", {"FOO-1": "abc", "MD5": gen.HASHES["MD5"]}),
                ("non-spec-algorithm-between-spec-ones", {"SHA-256": gen.HASHES["SHA-256"], "FOO-1": "abc", "MD5": gen.HASHES["MD5"]}),
                ("other-version-algorithm-before-spec-one", {("SHA-224" if version == "2.1" else "SHA3-256"): gen.HASHES["SHA-224" if version == "2.1" else "SHA3-256"], "MD5": gen.HASHES["MD5"]})
                if version == "2.1" else ("bad-value-before-good-one", {"SHA-256": "zz", "MD5": gen.HASHES["MD5"]}), ("wrong-length", {"MD5": "abcd"}), ("non-hex", {"MD5": "z" * 32}), ("empty-value", {"MD5": ""}), ("value-not-string", {"MD5": 5}),
                ("sha256-wrong-length", {"SHA-256": gen.HASHES["MD5"]}), ("lowercase-name", {"md5": gen.HASHES["MD5"]}), ("md6-garbage-suffix", {"MD6": gen.HASHES["MD5"] + "zz"})]
    if k == "binary":
        out += [("not-base64", "!!!not base64!!!"), ("bad-padding", "YQ="), ("whitespace", "Y Q = ="), ("trailing-garbage", "YQ==!!"), ("url-safe-alphabet", "-_-_")]
    if k == "hex":
        out += [("odd-length", "abc"), ("non-hex", "zz"), ("0x-prefix", "0xab")]
    if k == "selector":
        out += [("bad-syntax", "Type"), ("addresses-nothing", "zzz-absent")]
    if k == "openvocab":
        out.append(("empty-string", ""))
    # a valid spelling followed by a line feed ('$' in a regular expression also matches before a final newline)
    if isinstance(v, str) and k in ("id", "ref", "timestamp", "enum", "hex", "selector", "objref") or (isinstance(v, str) and "fixed" in p):
        out.append(("trailing-newline", v + "\n"))
    if k in ("dictionary", "hashes") and isinstance(v, dict) and v:
        k0 = next(iter(v))
        out.append(("key-trailing-newline", dict([(k0 + "\n", v[k0])] + [(a, b) for a, b in v.items() if a != k0])))
        if isinstance(v[k0], str) and k == "hashes":
            out.append(("value-trailing-newline", dict(v, **{k0: v[k0] + "\n"})))
    return out


def object_level(j, version, key):
    """(label, corrupted instance) built from a valid instance of class `key`"""
    out = []
    out.append(("unknown-property", dict(j, foo_unknown="x")))
    out.append(("unknown-x-property", dict(j, x_unknown="x")))
    if "spec_version" in j:
        out.append(("spec_version-2.0", dict(j, spec_version="2.0")))
        out.append(("spec_version-2.2", dict(j, spec_version="2.2")))
    elif version == "2.0" and j.get("type") != "bundle":
        out.append(("spec_version-added", dict(j, spec_version="2.0")))
    out.append(("type-other", dict(j, type="tool" if j.get("type") != "tool" else "identity")))
    if version == "2.1" and "extensions" in model.spec(version).classes[key]["properties"]:
        # only a TOPLEVEL-property-extension may add top-level properties; every other kind of unregistered extension next to an unknown property changes nothing
        for et in ("property-extension", "new-sdo", "new-sco", "new-sro", "toplevel-property-extensio", "x-toplevel-property-extension"):
            out.append(("unknown-property-next-to-unregistered-%s" % et, dict(j, foo_unknown=1, extensions=dict(j.get("extensions") or {}, **{"extension-definition--" + V4: {"extension_type": et}}))))
    if version == "2.0" and "extensions" not in model.spec(version).classes[key]["properties"]:
        # STIX 2.0 has no extension mechanism: an 'extensions' member on an SDO/SRO is just an unknown property, whatever it claims
        EXT = "extension-definition--" + V4
        out.append(("toplevel-extension-claim-without-extension-mechanism", dict(j, foo_unknown=1, extensions={EXT: {"extension_type": "toplevel-property-extension"}})))
        out.append(("property-extension-claim-without-extension-mechanism", dict(j, extensions={EXT: {"extension_type": "property-extension", "a": 1}})))
    t = key.split(":")[1]

    def wo(*names):
        return {k: v for k, v in j.items() if k not in names}
    CO = {
        "location": [("no-region-country-latlong", wo("region", "country", "latitude", "longitude", "precision")), ("latitude-without-longitude", dict(wo("longitude", "precision"), latitude=1.0)),
                     ("precision-without-latlong", dict(wo("latitude", "longitude"), precision=1.0)),
                     # the same co-constraints with values that are false in a truth test
                     ("precision-zero-without-latlong", dict(wo("latitude", "longitude"), region="europe", precision=0.0)), ("precision-int-zero-without-latlong", dict(wo("latitude", "longitude"), region="europe", precision=0)),
                     ("latitude-zero-without-longitude", dict(wo("longitude", "precision"), region="europe", latitude=0.0)), ("longitude-zero-without-latitude", dict(wo("latitude", "precision"), region="europe", longitude=0.0)), ("latitude-91", dict(j, latitude=91.0, longitude=0.0)),
                     ("longitude-minus-181", dict(j, latitude=0.0, longitude=-181.0)), ("precision-negative", dict(j, latitude=0.0, longitude=0.0, precision=-1.0))],
        "malware": [("family-without-name", dict(wo("name"), is_family=True))] if version == "2.1" else [],
        "malware-analysis": [("neither-result-nor-scos", wo("result", "analysis_sco_refs"))],
        "observed-data": [("objects-and-object_refs", dict(j, objects=gen.Gen(version).container(), object_refs=["ipv4-addr--" + V4])) if version == "2.1" else ("no-objects", wo("objects")),
                          ("neither-objects-nor-refs", wo("objects", "object_refs")), ("last-before-first", dict(j, first_observed="2017-01-01T00:00:00Z", last_observed="2016-01-01T00:00:00Z")),
                          ("number_observed-0", dict(j, number_observed=0)), ("number_observed-0.0", dict(j, number_observed=0.0)), ("number_observed-1e9", dict(j, number_observed=1000000000))],
        "indicator": [("valid_until-equals-valid_from", dict(j, valid_from="2016-01-01T00:00:00Z", valid_until="2016-01-01T00:00:00.000Z")),
                      ("valid_until-before-valid_from", dict(j, valid_from="2016-01-01T00:00:00Z", valid_until="2015-01-01T00:00:00Z")), ("bad-pattern", dict(j, pattern="[this is not a pattern")),
                      ("empty-pattern", dict(j, pattern=""))],
        "relationship": [("stop-equals-start", dict(j, start_time="2016-01-01T00:00:00Z", stop_time="2016-01-01T00:00:00.000Z")),
                         ("stop-before-start", dict(j, start_time="2016-01-01T00:00:00Z", stop_time="2015-01-01T00:00:00Z"))] if version == "2.1" else [],
        "campaign": [("last-before-first", dict(j, first_seen="2017-01-01T00:00:00Z", last_seen="2016-01-01T00:00:00Z"))],
        "sighting": [("last-before-first", dict(j, first_seen="2017-01-01T00:00:00Z", last_seen="2016-01-01T00:00:00Z")), ("count-negative", dict(j, count=-1)), ("count-1e9", dict(j, count=1000000000))],
        "marking-definition": [("tlp-wrong-id", dict(wo("name"), definition_type="tlp", definition={"tlp": "red"})), ("tlp-unknown-colour", dict(j, definition_type="tlp", definition={"tlp": "blue"})),
                               ("statement-with-tlp-body", dict(j, definition_type="statement", definition={"tlp": "red"})), ("unknown-definition-type", dict(j, definition_type="x-foo", definition={"a": 1})),
                               ("no-definition", wo("definition")), ("no-definition-type", wo("definition_type"))] +
                              # the four fixed TLP instances are exact: id and created of a colour with the colour spelled in another letter case / with white space
                              [("tlp-canonical-instance-colour-%s" % lab, dict({k: v for k, v in j.items() if k != "name"}, id=model.TLP["red"][0], created=model.TLP_CREATED, definition_type="tlp", definition={"tlp": col},
                                                                               **({"name": "TLP:RED"} if version == "2.1" else {})))
                               for lab, col in (("upper", "RED"), ("capitalised", "Red"), ("trailing-space", "red "), ("prefixed", "TLP:RED"))],
        "artifact": [("payload-and-url", dict(j, payload_bin="YQ==", url="https://e.x/a", hashes={"MD5": gen.HASHES["MD5"]})),
                     # one member of the exclusive pair present but EMPTY
                     ("payload-and-empty-url", dict(j, payload_bin="YQ==", url="", hashes={"MD5": gen.HASHES["MD5"]})),
                     ("empty-payload-and-url", dict(j, payload_bin="", url="https://e.x/a", hashes={"MD5": gen.HASHES["MD5"]})), ("url-without-hashes", dict(wo("payload_bin", "hashes"), url="https://e.x/a"))],
        "email-message": [("multipart-with-body", dict(wo("body_multipart"), is_multipart=True, body="b")),
                          ("not-multipart-with-body_multipart", dict(wo("body"), is_multipart=False, body_multipart=[{"body": "b", "content_type": "text/plain"}]))],
        "file": [("neither-hashes-nor-name", wo("hashes", "name")), ("empty-name-no-hashes", dict(wo("hashes"), name=""))] if version == "2.1" else
        [("algorithm-without-is_encrypted", dict(wo("is_encrypted"), encryption_algorithm="aes")), ("algorithm-with-is_encrypted-false", dict(j, is_encrypted=False, encryption_algorithm="aes"))],
        "network-traffic": [("neither-src-nor-dst", wo("src_ref", "dst_ref")), ("end-with-is_active-true", dict(j, end="2017-01-01T00:00:00Z", is_active=True)),
                            ("end-before-start", dict(j, start="2017-01-01T00:00:00Z", end="2016-01-01T00:00:00Z", is_active=False)), ("port-65536", dict(j, src_port=65536)), ("port-negative", dict(j, dst_port=-1)),
                            ("no-protocols", wo("protocols")), ("empty-protocols", dict(j, protocols=[]))],
        "process": [("empty-process", {k: v for k, v in j.items() if k in ("type", "id", "spec_version")})],
        "x509-certificate": [("empty-certificate", {k: v for k, v in j.items() if k in ("type", "id", "spec_version")})],
        "opinion": [("opinion-out-of-vocabulary", dict(j, opinion="maybe"))] if version == "2.1" else [],
        "bundle": [("member-without-type", dict(j, objects=[{"id": "identity--" + V4}])), ("member-null", dict(j, objects=[None]))],
    }
    for label, inst in CO.get(t, []):
        out.append(("constraint:" + label, inst))
    if version == "2.1" and "confidence" in model.spec(version).classes[key]["properties"]:
        out += [("confidence-101", dict(j, confidence=101)), ("confidence-negative", dict(j, confidence=-1))]
    if "external_references" in model.spec(version).classes[key]["properties"]:
        out += [("extref-only-source_name", dict(j, external_references=[{"source_name": "s"}])),
                ("extref-bad-hash-name", dict(j, external_references=[{"source_name": "s", "url": "u", "hashes": {"FOO": "abc"}}]))]
    if "granular_markings" in model.spec(version).classes[key]["properties"] and t != "bundle":
        m = "marking-definition--" + V4
        out += [("gm-no-selectors", dict(j, granular_markings=[{"marking_ref": m}])), ("gm-empty-selectors", dict(j, granular_markings=[{"marking_ref": m, "selectors": []}])),
                ("gm-neither-ref-nor-lang", dict(j, granular_markings=[{"selectors": ["type"]}])), ("gm-ref-to-identity", dict(j, granular_markings=[{"marking_ref": "identity--" + V4, "selectors": ["type"]}]))]
        # several selectors / several markings: every selector must address something, wherever it stands
        out += [("gm-later-selector-addresses-nothing", dict(j, granular_markings=[{"marking_ref": m, "selectors": ["type", "zzz-absent"]}])),
                ("gm-later-selector-addresses-nothing", dict(j, granular_markings=[{"marking_ref": m, "selectors": ["type", "id", "type.[0]"]}])),
                ("gm-first-selector-addresses-nothing", dict(j, granular_markings=[{"marking_ref": m, "selectors": ["zzz-absent", "type"]}])),
                ("gm-later-marking-selector-addresses-nothing", dict(j, granular_markings=[{"marking_ref": m, "selectors": ["type"]}, {"marking_ref": m, "selectors": ["id", "zzz-absent"]}])),
                ("gm-later-selector-bad-syntax", dict(j, granular_markings=[{"marking_ref": m, "selectors": ["type", "Type"]}]))]
        if version == "2.1":
            out.append(("gm-later-selector-addresses-nothing/lang", dict(j, granular_markings=[{"lang": "en", "selectors": ["type", "zzz-absent"]}])))
            out.append(("gm-both-ref-and-lang", dict(j, granular_markings=[{"marking_ref": m, "lang": "en", "selectors": ["type"]}])))
            out.append(("gm-ref-and-empty-lang", dict(j, granular_markings=[{"marking_ref": m, "lang": "", "selectors": ["type"]}])))
            out.append(("gm-empty-ref-and-lang", dict(j, granular_markings=[{"marking_ref": "", "lang": "en", "selectors": ["type"]}])))
    return out


class Lazy(object):
    """stands for a one-shot iterable handed over where a list is usual (made afresh for every attempt)"""

    def __init__(self, kind, items=()):
        self.kind, self.items = kind, list(items)

    def make(self):
        items = copy.deepcopy(self.items)
        if self.kind == "generator":
            return (x for x in items)
        if self.kind == "iter":
            return iter(items)
        if self.kind == "filter":
            return filter(lambda x: True, items)
        if self.kind == "map":
            return map(lambda x: x, items)
        if self.kind == "dict-keys":
            return dict.fromkeys(range(len(items))).keys() if not items else {json.dumps(x): 1 for x in items}.keys()
        raise ValueError(self.kind)


def materialize(x):
    if isinstance(x, Lazy):
        return x.make()
    if isinstance(x, dict):
        return {k: materialize(v) for k, v in x.items()}
    if isinstance(x, list):
        return [materialize(v) for v in x]
    return x


def json_safe(x):
    """values json.dumps can carry (NaN/inf are carried as Python's non-standard tokens, 10**400 as digits)"""
    return x


def feature(version, slot_kind, clabel, pname):
    lab = clabel.split(":")[0] if clabel.startswith(("kind:", "forbidden-target:")) else clabel
    return "%s/%s" % (slot_kind, lab)


def check_result(part, obj, version, case, feat):
    """the oracle: whatever was accepted must serialize to valid STIX"""
    for defaults in (False, True):
        try:
            text = obj.serialize(include_optional_defaults=defaults)
        except Exception as e:
            part.outcome("accepted-but-unserializable")
            part.violation("C02/accepted-but-unserializable/%s" % feat, "strict construction succeeded but the object cannot be serialized", case, "refused or valid output",
                           "%s: %s" % (type(e).__name__, str(e)[:120]))
            return
        try:
            j = json.loads(text, parse_constant=lambda c: (_ for _ in ()).throw(ValueError("constant " + c)))
        except ValueError as e:
            part.violation("C02/emits-non-json/%s" % feat, "strict construction succeeded but the output is not strict JSON", case, "JSON", text[:150])
            return
        errs = model.validate(j, "2.1" if j.get("spec_version") == "2.1" or (version == "2.1" and j.get("type") != "bundle") else version, written=True)
        if errs:
            path, rule, msg = errs[0]
            part.outcome("accepted-invalid")
            if rule.startswith("objref") and (".extensions." in path or "[" in path.split(".")[-2] if "." in path else False):
                # one defect whatever the corruption: 2.0 object references held by an extension or an embedded object are not checked
                feat = "inside-extension-or-embedded-object"
            if rule == "at-least-one":
                feat = "%s/%s" % (case.get("key", "?").split(":")[-1], feat)
            part.violation("C02/emits-invalid/%s/%s" % (rule, feat), "strict construction succeeded and the serialization violates the specification", dict(case, invalid_at=path),
                           "refused, or normalised into valid output", "%s: %s" % (path, msg))
            return
    part.outcome("accepted-valid")


def attempt(part, j, version, case, feat, forms):
    import stix2
    for form in forms:
        part.evaluations += 1
        part.transitions += 1
        c = dict(case, form=form)
        try:
            if form == "parse(dict)":
                obj = stix2.parse(materialize(copy.deepcopy(j)), allow_custom=False)
            elif form == "parse(text)":
                obj = stix2.parse(json.dumps(j), allow_custom=False)
            else:
                cls = stix2.registry.class_for_type(j.get("type"), version) if isinstance(j.get("type"), str) else None
                if cls is None:
                    part.outcome("no-constructor")
                    continue
                obj = cls(**materialize(copy.deepcopy(j)))
        except Exception as e:
            part.outcome("refused")
            continue
        if isinstance(obj, dict):
            part.outcome("returned-dict")
            part.violation("C02/strict-parse-returns-dict/%s" % feat, "strict parse returned an unvalidated dict", c, "refused or object", sorted(obj)[:8])
            continue
        check_result(part, obj, version, c, feat)
    if feat.startswith(("ref/", "list<ref>/", "id/")) and "constructor" in forms:
        # HISTORY: the same content first goes through the LENIENT entries (allow_custom=True parse and constructor, a memory store with its default), then the strict
        # constructor / parse again: what the lenient calls admitted must not have softened the strict ones
        cls = stix2.registry.class_for_type(j.get("type"), version) if isinstance(j.get("type"), str) else None
        for lenient in (lambda: stix2.parse(materialize(copy.deepcopy(j)), allow_custom=True), lambda: cls(allow_custom=True, **materialize(copy.deepcopy(j))) if cls else None,
                        lambda: stix2.MemoryStore().add(materialize(copy.deepcopy(j)))):
            try:
                lenient()
            except Exception:
                pass
        for form in ("parse(dict)", "constructor"):
            if form == "constructor" and cls is None:
                continue
            part.evaluations += 1
            part.transitions += 4
            try:
                obj = stix2.parse(materialize(copy.deepcopy(j)), allow_custom=False) if form == "parse(dict)" else cls(**materialize(copy.deepcopy(j)))
            except Exception:
                part.outcome("refused")
                continue
            if not isinstance(obj, dict):
                check_result(part, obj, version, dict(case, form=form + " after lenient use of the same content"), feat + "/after-lenient-use")


def prebuilt_subobjects(part, base, version, tkey, case):
    """two cooperating steps: a sub-object (extension / embedded object) is first built PERMISSIVELY with custom content, then the instance
    (not a dict) is handed to a strict parent constructor. The strict parent must refuse it or emit valid output."""
    import stix2
    mod = stix2.v20 if version == "2.0" else stix2.v21
    pcls = stix2.registry.class_for_type(base.get("type"), version)
    if pcls is None:
        return
    sp = model.spec(version)
    for path, v, p, ckey, pname in harness.typed_slots(base, version, tkey):
        targets = []
        if p["kind"] == "embedded" and isinstance(v, dict):
            targets.append((path, getattr(mod, p["class"].split(":")[1], None), v))
        if p["kind"] == "extensions" and isinstance(v, dict):
            for ek, ev in v.items():
                targets.append((path + (ek,), stix2.registry.class_for_type(ek, version, "extensions"), ev))
        for tpath, cls, val in targets:
            if cls is None or len(tpath) > 3:
                continue
            for clabel, extra in (("prebuilt-with-custom-property", {"x_unknown": "u"}), ("prebuilt-with-unknown-property", {"unknown_prop": "u"})):
                part.evaluations += 1
                part.transitions += 1
                try:
                    sub = cls(allow_custom=True, **dict(copy.deepcopy(val), **extra))
                except Exception:
                    part.outcome("prebuilt-not-constructible")
                    continue
                j = gen.set_path(base, tpath, sub)
                c = dict(case, slot=list(tpath), corruption=clabel, form="constructor(prebuilt sub-object)")
                try:
                    obj = pcls(**j)
                except Exception:
                    part.outcome("refused")
                    continue
                check_result(part, obj, version, c, "prebuilt-subobject/" + ("extension" if "extensions" in tpath else "embedded"))


def prebuilt_special(part, base, version, tkey, case):
    """ready-made library objects where the parent decides what they must be: the definition of a marking-definition (object of another marking class), and the members of a
    2.0 observed-data container (instances whose local references no longer resolve in the new container)"""
    import stix2
    mod = stix2.v20 if version == "2.0" else stix2.v21
    if base.get("type") == "marking-definition":
        defs = {"tlp-object": lambda: mod.TLPMarking(tlp="red"), "statement-object": lambda: mod.StatementMarking(statement="s"), "tlp-red-singleton-definition": lambda: mod.TLP_RED.definition}
        for dt_ in ("tlp", "statement"):
            for dl, make in defs.items():
                part.evaluations += 1
                part.transitions += 1
                j = dict({k: v for k, v in base.items() if k not in ("definition", "definition_type", "name")}, definition_type=dt_, definition=make())
                c = dict(case, corruption="definition=%s,definition_type=%s" % (dl, dt_), form="constructor(prebuilt definition)")
                try:
                    obj = mod.MarkingDefinition(**j)
                except Exception:
                    part.outcome("refused")
                    continue
                check_result(part, obj, version, c, "prebuilt-definition/%s-as-%s" % (dl.split("-")[0], dt_))
    # REFERENCES given as ready-made library OBJECTS (the reference is the instance's id): the id must be valid for the REFERRING object's spec version like an id given as text
    if base.get("type") in ("indicator", "relationship", "sighting", "note", "report") and case.get("base") in (None, "min"):
        other = stix2.v21 if version == "2.0" else stix2.v20
        donors = {"other-version-identity-uuid5": lambda: stix2.v21.Identity(id="identity--e1d2f3a4-5b6c-51ea-8d7e-0123456789ab", name="n", identity_class="individual"),
                  "other-version-identity-uuid1": lambda: stix2.v21.Identity(id="identity--e1d2f3a4-5b6c-11ea-8d7e-0123456789ab", name="n", identity_class="individual"),
                  "nil-uuid-identity-built-with-interoperability": lambda: mod.Identity(id="identity--00000000-0000-0000-0000-000000000000", name="n", identity_class="individual", interoperability=True),
                  "same-version-identity": lambda: mod.Identity(name="n", identity_class="individual")}
        slots = [k for k in ("created_by_ref", "source_ref", "target_ref", "sighting_of_ref", "where_sighted_refs", "object_refs") if k in model.spec(version).classes[tkey]["properties"]]
        for slot in slots:
            for dl, make in donors.items():
                part.evaluations += 1
                part.transitions += 1
                try:
                    donor = make()
                except Exception:
                    continue
                j = dict({k: v for k, v in base.items()}, **{slot: [donor] if slot.endswith("_refs") else donor})
                c = dict(case, corruption="%s=%s" % (slot, dl), form="constructor(reference given as an object)")
                try:
                    obj = getattr(mod, type(stix2.parse(copy.deepcopy(base), allow_custom=False)).__name__)(**{k: v for k, v in j.items() if k != "type"})
                except Exception:
                    part.outcome("refused")
                    continue
                check_result(part, obj, version, c, "reference-given-as-object/%s" % dl)
    if version == "2.0" and base.get("type") == "observed-data" and isinstance(base.get("objects"), dict) and len(base["objects"]) > 1:
        try:
            od = stix2.parse(copy.deepcopy(base), allow_custom=False)
        except Exception:
            return
        for drop in list(base["objects"]):
            members = {k: v for k, v in od.objects.items() if k != drop}        # library INSTANCES, one of their siblings gone
            for form in ("constructor", "new_version"):
                part.evaluations += 1
                part.transitions += 1
                c = dict(case, corruption="member-instances-without-%s" % drop, form="%s(prebuilt container members)" % form)
                try:
                    obj = od.new_version(objects=members) if form == "new_version" else mod.ObservedData(**dict({k: v for k, v in base.items() if k != "objects"}, objects=members))
                except Exception:
                    part.outcome("refused")
                    continue
                check_result(part, obj, version, c, "prebuilt-container-members/sibling-removed")


def datetime_objects():
    """timestamp values as objects: STIXdatetime with every (precision, constraint) - as read from some other object's property - and plain datetimes, carrying 123456 microseconds"""
    import datetime as dt
    import stix2.utils as U
    base = dt.datetime(2016, 5, 12, 8, 17, 27, 123456, tzinfo=dt.timezone.utc)
    out = [("datetime-us", base), ("datetime-offset", base.astimezone(dt.timezone(dt.timedelta(hours=5, minutes=30)))), ("date", dt.date(2016, 5, 12))]
    for p in ("any", "millisecond", "second"):
        for c in ("exact", "min"):
            out.append(("STIXdatetime-%s-%s" % (p, c), U.STIXdatetime(base, precision=p, precision_constraint=c)))
    return out


def run_datetime_objects(case, part):
    """every timestamp slot x every datetime object form, through the constructor and parse(dict) (a dict may hold objects)"""
    import stix2
    version, key, label = case["version"], case["key"], case["label"]
    wrapped = None
    for k2, l2, i2, w2, loc2 in harness.all_cases(version, keys=[key]):
        if l2 == label:
            wrapped = w2
            break
    if wrapped is None:
        raise RuntimeError("generator no longer produces %s %s %s" % (version, key, label))
    tkey = model.spec(version).key_for_type(wrapped["type"])
    part.state((version, key, label, "datetime-objects"), nontrivial=True)
    for path, v, p, ckey, pname in harness.typed_slots(wrapped, version, tkey):
        if p["kind"] != "timestamp":
            continue
        for dlabel, dv in datetime_objects():
            j = gen.set_path(wrapped, path, dv)
            # companions that must stay ordered after / equal to this slot are moved along (the value itself is what is under test)
            c = dict(case, slot=list(path), corruption="object:" + dlabel)
            attempt(part, j, version, c, "timestamp/object:" + dlabel, ["parse(dict)", "constructor"])


def reference_objects():
    """library OBJECTS handed over where a reference is expected (the documented convenience form), whose identifier is fine where they were built but not
    for every referrer: (label, factory)"""
    import stix2
    TS = "2016-05-12T08:17:27.000Z"
    U1, NIL = "e1d2f3a4-5b6c-11ea-8d7e-0123456789ab", "00000000-0000-0000-0000-000000000000"

    def mk(cls, **kw):
        return lambda: cls(created=TS, modified=TS, **kw)
    return [
        ("v21-identity-uuid1", mk(stix2.v21.Identity, id="identity--" + U1, name="n")),
        ("v21-identity-uuid4", mk(stix2.v21.Identity, id="identity--" + V4, name="n")),
        ("v20-identity-uuid4", mk(stix2.v20.Identity, id="identity--" + V4, name="n", identity_class="individual")),
        ("interoperability-identity-nil-uuid", mk(stix2.v21.Identity, id="identity--" + NIL, name="n", interoperability=True)),
        ("interoperability-identity-20-nil-uuid", mk(stix2.v20.Identity, id="identity--" + NIL, name="n", identity_class="individual", interoperability=True)),
        ("v21-malware-uuid1", mk(stix2.v21.Malware, id="malware--" + U1, name="n", is_family=False)),
        ("v21-marking-uuid1", lambda: stix2.v21.MarkingDefinition(id="marking-definition--" + U1, created=TS, definition_type="statement", definition={"statement": "s"})),
        ("v21-location-uuid4", mk(stix2.v21.Location, id="location--" + V4, region="europe")),
    ]


def run_reference_objects(case, part):
    """every reference slot x every object form of a reference, through the constructor and parse(dict)"""
    version, key, label = case["version"], case["key"], case["label"]
    wrapped = None
    for k2, l2, i2, w2, loc2 in harness.all_cases(version, keys=[key]):
        if l2 == label:
            wrapped = w2
            break
    if wrapped is None:
        raise RuntimeError("generator no longer produces %s %s %s" % (version, key, label))
    tkey = model.spec(version).key_for_type(wrapped["type"])
    part.state((version, key, label, "reference-objects"), nontrivial=True)
    for path, v, p, ckey, pname in harness.typed_slots(wrapped, version, tkey):
        if p["kind"] != "ref" or not isinstance(v, str):
            continue
        for rlabel, make in reference_objects():
            try:
                ro = make()
            except Exception:
                continue
            j = gen.set_path(wrapped, path, ro)
            attempt(part, j, version, dict(case, slot=list(path), corruption="object:" + rlabel), "ref/object:" + rlabel, ["parse(dict)", "constructor"])


def run_case(case, part):
    env.reset()
    if case.get("kind") == "datetime-objects":
        return run_datetime_objects(case, part)
    if case.get("kind") == "reference-objects":
        return run_reference_objects(case, part)
    version, key, label = case["version"], case["key"], case["label"]
    wrapped = loc = None
    for k2, l2, i2, w2, loc2 in harness.all_cases(version, keys=[key]):
        if l2 == label:
            wrapped, loc = w2, loc2
            break
    if wrapped is None:
        raise RuntimeError("generator no longer produces %s %s %s" % (version, key, label))
    forms = ["parse(dict)", "parse(text)", "constructor"]
    tkey = model.spec(version).key_for_type(wrapped["type"])
    only = case.get("slot")
    part.state((version, key, label), nontrivial=True)
    extras = [None]
    if case.get("with_extra"):
        g = gen.Gen(version)
        c = g.sp.classes[tkey]
        extras = []
        for name in g.optional_props(tkey):
            if name in wrapped:
                continue
            alpha = g.alphabet(name, c["properties"][name], tkey)
            if alpha:
                extras.append((name, alpha[0]))
    for extra in extras:
        base = wrapped
        if extra is not None:
            base = gen.Gen(version).with_prop(tkey, wrapped, extra[0], extra[1])
            if model.validate(base, version):
                continue
        for path, v, p, ckey, pname in harness.typed_slots(base, version, tkey):
            if only is not None and list(path) != only:
                continue
            if extra is not None and path and path[0] == extra[0]:
                continue
            kind = p["kind"] if p["kind"] != "list" else "list<%s>" % p["of"]["kind"]
            for clabel, cv in corruptions(v, p, version, pname):
                if case.get("corruption") and clabel != case["corruption"]:
                    continue
                j = gen.del_path(base, path) if cv == "$remove" and isinstance(cv, str) else gen.set_path(base, path, cv)
                c = dict(case, slot=list(path), corruption=clabel)
                if extra is not None:
                    c["extra"] = extra[0]
                fm = forms if not (isinstance(cv, float) and (math.isnan(cv) or math.isinf(cv))) and not (isinstance(cv, int) and abs(cv) > 10 ** 300) and not isinstance(cv, Lazy) else ["parse(dict)", "constructor"]
                attempt(part, j, version, c, feature(version, kind, clabel, pname), fm if not path[:1] == ("type",) else ["parse(dict)", "parse(text)"])
        if only is None and extra is None and not loc:
            prebuilt_subobjects(part, base, version, tkey, case)
        if only is None and extra is None:
            prebuilt_special(part, base, version, tkey, case)
        if only is None and extra is None:
            inner = harness.locate(base, loc)
            for clabel, inst in object_level(inner, version, key):
                if case.get("corruption") and clabel != case["corruption"]:
                    continue
                j = inst if not loc else gen.set_path(base, loc, inst)
                attempt(part, j, version, dict(case, corruption=clabel), "object/" + clabel, forms if "type-other" not in clabel else forms[:2])


def replay(case, part):
    c = {k: v for k, v in case.items() if k not in ("form", "invalid_at", "extra")}
    if str(case.get("form", "")).startswith("constructor(prebuilt") or str(case.get("corruption", "")).startswith(("constraint:", "unknown-", "spec_version", "type-other", "confidence", "extref", "gm-")):
        c.pop("slot", None)
        if str(case.get("form", "")).startswith("constructor(prebuilt"):
            c.pop("corruption", None)
    if "extra" in case:
        c["with_extra"] = True
    if str(case.get("corruption", "")).startswith("object:"):
        c = {"version": case["version"], "key": case["key"], "label": case["label"], "kind": case.get("kind", "datetime-objects")}
    run_case(c, part)


def run(run):
    th = run.thorough
    cases = []
    for version in ("2.0", "2.1"):
        g = gen.Gen(version)
        for key in g.top_keys():
            for label in ("min", "max"):
                cases.append({"version": version, "key": key, "label": label})
            if th:
                cases.append({"version": version, "key": key, "label": "min", "with_extra": True})
            cases.append({"version": version, "key": key, "label": "max", "kind": "datetime-objects"})
            cases.append({"version": version, "key": key, "label": "max", "kind": "reference-objects"})
    run.mode = "DEV (fault enumeration)"
    run.rule = ("every (type, base in {minimal, maximal}, slot, corruption) + object-level corruptions x 3 entry forms in strict mode%s; states = distinct bases; an evaluation is "
                "non-trivial whenever the library ACCEPTS the corrupted input (then the frozen validator judges the output); every timestamp slot also fed with datetime / STIXdatetime objects of every precision setting, every reference slot with library objects of both versions / relaxed mode" % ("; x one extra valid optional property on minimal bases" if th else ""))
    run.bound = {"simultaneous_corruptions": 1, "bases": len(cases), "entry_forms": 3}
    run.assumptions += ["frozen spec model and validator mc/spec (MUST-level rules only; sanity-checked on the repository's example content)", "stix2patterns validates indicator patterns"]
    run.pmap(run_case, cases, order_independent=True)
    run.part.sample({"version": "2.1", "key": "observables:network-traffic", "label": "max", "slot": ["src_port"], "corruption": "above-max", "value": 65536, "expected": "refused"})
    run.part.sample({"version": "2.0", "key": "objects:sighting", "label": "min", "slot": ["observed_data_refs", 0], "corruption": "uuid-v1", "expected": "refused (2.0 ids are UUIDv4)"})
    run.part.sample({"version": "2.1", "key": "objects:location", "label": "min", "corruption": "constraint:latitude-without-longitude", "expected": "refused"})
    o = run.part.outcomes
    run.require(o.get("refused", 0) > 50000, "corruptions refused")
    run.require(o.get("accepted-valid", 0) > 5000, "normalising acceptances reached the validator")
