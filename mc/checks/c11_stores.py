"""C11 - Memory and filesystem stores agree with a plain list over any history.

Tree exploration (no state merging, so every ORDER of additions is executed) of all add-histories of length <= 3 (quick) / <= 4
(thorough) over a menu of add events on MemoryStore and FileSystemStore side by side, with a list model in lock-step. After every
history: get / all_versions for every id of the menu, query([]) and type queries on both stores; from every state also
save_to_file -> fresh MemoryStore.load_from_file -> same observations.
"""
import copy
import hashlib
import itertools
import json
import os
import shutil

from mc import env
from mc.ref import tsfmt

ID = "C11"
U = "3f7f0c5f-5d54-4292-94ea-ec1e1952be1"
A = "campaign--" + U + "1"
T1, T2, T3 = "2020-01-01T00:00:00.000Z", "2020-01-02T00:00:00.000Z", "2020-01-03T00:00:00.500Z"


def camp(n, mod, **kw):
    d = dict(type="campaign", spec_version="2.1", id=A, created=T1, modified=mod, name=n)
    d.update(kw)
    return d


V1, V2, V3 = camp("v1", T1), camp("v2", T2), camp("v3", T3)
V2X = camp("v2-other-content", T2)                        # same (id, instant) as V2, different content
V3US = camp("v3us", "2020-01-03T00:00:00.500001Z")        # one microsecond after V3 (2.1 keeps sub-millisecond digits)
SCO = dict(type="ipv4-addr", spec_version="2.1", id="ipv4-addr--" + U + "2", value="1.2.3.4")
OLD20 = dict(type="campaign", id="campaign--3f7f0c5f-5d54-4292-94ea-ec1e1952be13", created=T1, modified=T1, name="old20")
MD = dict(type="marking-definition", spec_version="2.1", id="marking-definition--" + U + "4", created=T1, definition_type="statement", definition={"statement": "s"})
XID = "x-unreg--" + U + "5"
C1 = dict(type="x-unreg", spec_version="2.1", id=XID, created="2020-01-01T00:00:00Z", modified="2020-01-01T00:00:00.5Z", name="c1", weight=0.1, nested={"ratio": 2.675, "tiny": 1e-07, "count": 3, "big": 1e+22})
C2 = dict(type="x-unreg", spec_version="2.1", id=XID, created="2020-01-01T00:00:00Z", modified="2020-01-01T00:00:01Z", name="c2")
C0 = dict(type="x-unreg", spec_version="2.1", id=XID, created="2020-01-01T00:00:00Z", modified="2020-01-01T00:00:00Z", name="c0")
C3 = dict(type="x-unreg", spec_version="2.1", id=XID, created="2020-01-01T00:00:00Z", modified="2020-01-01T00:00:02.0004Z", name="c3")
C4 = dict(type="x-unreg", spec_version="2.1", id=XID, created="2020-01-01T00:00:00Z", modified="2020-01-01T00:00:02.0009Z", name="c4")   # same millisecond as C3
NCID = "x-unreg--" + U + "c"
NC1 = dict(type="x-unreg", spec_version="2.1", id=NCID, modified="2020-01-01T00:00:00.000Z", name="nc1")      # versioned by 'modified' alone ('created' is absent)
NC2 = dict(type="x-unreg", spec_version="2.1", id=NCID, modified="2020-01-02T00:00:00.000Z", name="nc2")
CU = dict(type="x-unreg", spec_version="2.1", id="x-unreg--" + U + "8", name="cu")     # no 'modified': stored unversioned, in the same type directory as C0..C4
T5ID = "tool--e1d2f3a4-5b6c-51ea-8d7e-0123456789ab"          # UUIDv5-shaped id (legal in 2.1), the only id of its type directory
TOOL5A = dict(type="tool", spec_version="2.1", id=T5ID, created=T1, modified=T1, name="t5a")
TOOL5B = dict(type="tool", spec_version="2.1", id=T5ID, created=T1, modified=T2, name="t5b")
I1ID = "identity--e1d2f3a4-5b6c-11ea-8d7e-0123456789ab"      # UUIDv1-shaped id
IDENT1 = dict(type="identity", spec_version="2.1", id=I1ID, created=T1, modified=T1, name="i1")
UPID = "course-of-action--018F3C1E-7B2A-7ABC-8DEF-0123456789AB"     # upper-case hex digits AND a UUID version beyond 5 (v7; both accepted by the library for 2.1), the only id of its type directory
COA_UP1 = dict(type="course-of-action", spec_version="2.1", id=UPID, created=T1, modified=T1, name="up1")
COA_UP2 = dict(type="course-of-action", spec_version="2.1", id=UPID, created=T1, modified=T2, name="up2")
RID = "x-verif-obj--" + U + "6"
R1 = dict(type="x-verif-obj", spec_version="2.1", id=RID, created=T1, modified=T1, prop="r1")
R2 = dict(type="x-verif-obj", spec_version="2.1", id=RID, created=T1, modified=T2, prop="r2")
# STIX 2.0 content that is custom: a 2.0 object with a custom property, and an unregistered type written the 2.0 way (no spec_version) - alone they make a store
# that holds nothing of 2.1
OLD20X = dict(type="campaign", id="campaign--3f7f0c5f-5d54-4292-94ea-ec1e1952be1e", created=T1, modified=T1, name="old20x", x_note="custom", x_weight=0.1, x_rank=3)
U20ID = "x-unreg--3f7f0c5f-5d54-4292-94ea-ec1e1952be1f"
U20 = dict(type="x-unreg", id=U20ID, created=T1, modified=T1, name="u20")
# two versions of a REGISTERED custom object inside one millisecond (2.1 keeps the digits)
R3US = dict(type="x-verif-obj", spec_version="2.1", id=RID, created=T1, modified="2020-01-02T00:00:00.000400Z", prop="r3us")
R4US = dict(type="x-verif-obj", spec_version="2.1", id=RID, created=T1, modified="2020-01-02T00:00:00.000800Z", prop="r4us")
# versions exactly one hour apart inside the hour a daylight-saving zone repeats (Europe: 2021-10-31 00:30Z / 01:30Z are both "02:30" local), and non-ASCII content
DST1 = camp("dst1 caf\u00e9", "2021-10-31T00:30:00.000Z")
DST2 = camp("dst2 \u6f22", "2021-10-31T01:30:00.000Z")
DST3 = camp("dst3", "2021-03-28T01:30:00.000Z")
# content WITHOUT spec_version handed over with the version NAMED on the call (store.add(..., version="2.1")): stored as that version's object - by both stores, for every form
IDVID = "identity--3f7f0c5f-5d54-4292-94ea-ec1e1952be2a"
IDV_GIVEN = dict(type="identity", id=IDVID, created=T1, modified=T1, name="named", identity_class="individual")
IDV = dict(IDV_GIVEN, spec_version="2.1")
IDS = [IDVID, A, SCO["id"], OLD20["id"], MD["id"], XID, RID, T5ID, I1ID, "campaign--" + U + "9", CU["id"], UPID, NCID, OLD20X["id"], U20ID]
TYPES = ["campaign", "ipv4-addr", "marking-definition", "x-unreg", "x-verif-obj", "tool", "identity", "malware", "course-of-action"]


# queries by a timestamp given as TEXT in another spelling than the one the stores write (a timestamp filter compares instants).  Objects the stores keep as plain
# dictionaries are left out on both sides: for them the comparison is textual, which is C12's listed finding (string-timestamp-filter-vs-dict-kept-object).
DICT_KEPT = {XID, NCID, CU["id"], U20ID}
TS_QUERIES = [("modified = T1 written without fraction", "modified", "=", "2020-01-01T00:00:00Z"), ("modified = T3 written .5Z", "modified", "=", "2020-01-03T00:00:00.5Z"),
              ("modified >= T2 written with six digits", "modified", ">=", "2020-01-02T00:00:00.000000Z"), ("modified < T2 written without fraction", "modified", "<", "2020-01-02T00:00:00Z"),
              ("modified <= T3 written .50Z", "modified", "<=", "2020-01-03T00:00:00.50Z"), ("created = T1 written .0Z", "created", "=", "2020-01-01T00:00:00.0Z")]
_OPS = {"=": lambda a, b: a == b, ">=": lambda a, b: a >= b, "<": lambda a, b: a < b, "<=": lambda a, b: a <= b}
# type / id filters under EVERY operator (the file-system store derives directory shortcuts from =, in and != only; the others must fall through to the plain comparison)
KEY_QUERIES = [("type != tool", "type", "!=", "tool", lambda t, i: t != "tool"), ("type in [tool, malware, absent]", "type", "in", ["tool", "malware", "absent"], lambda t, i: t in ("tool", "malware")),
               ("type > identity", "type", ">", "identity", lambda t, i: t > "identity"),
               ("type <= malware", "type", "<=", "malware", lambda t, i: t <= "malware"),
               ("type contains al", "type", "contains", "al", lambda t, i: "al" in t),
               ("id != A", "id", "!=", A, lambda t, i: i != A), ("id in [A, absent]", "id", "in", [A, "tool--00000000-0000-4000-8000-000000000000"], lambda t, i: i == A),
               ("id > m", "id", ">", "m", lambda t, i: i > "m")]


def register_custom():
    import stix2
    from stix2 import properties as P
    if "x-verif-obj" not in stix2.registry.STIX2_OBJ_MAPS["2.1"]["objects"]:
        @stix2.v21.CustomObject("x-verif-obj", [("prop", P.StringProperty())])
        class XVerifObj(object):
            pass


def O(d):
    import stix2
    return stix2.parse(copy.deepcopy(d), allow_custom=True)


def bundle_dict(*ds):
    return {"type": "bundle", "id": "bundle--" + U + "7", "objects": [copy.deepcopy(d) for d in ds]}


# event name -> (factory of the thing handed to store.add, flat list of atoms (dicts) it contains, in order)
def EVENTS():
    import stix2
    return {
        "v1-obj": (lambda: O(V1), [V1]), "v2-obj": (lambda: O(V2), [V2]), "v3-obj": (lambda: O(V3), [V3]),
        "v1-dict": (lambda: copy.deepcopy(V1), [V1]),
        "v2-dict-6digits": (lambda: dict(V2, modified="2020-01-02T00:00:00.000000Z"), [V2]),
        "v3-list": (lambda: [copy.deepcopy(V3)], [V3]),
        "v1v3-bundle-obj": (lambda: stix2.v21.Bundle(O(V1), O(V3)), [V1, V3]),
        "v2-bundle-dict": (lambda: bundle_dict(V2), [V2]),
        "v1-text": (lambda: json.dumps(V1), [V1]),
        "v2x-obj": (lambda: O(V2X), [V2X]),
        "v3us-obj": (lambda: O(V3US), [V3US]),
        "sco": (lambda: O(SCO), [SCO]), "old20-dict": (lambda: copy.deepcopy(OLD20), [OLD20]), "md": (lambda: O(MD), [MD]),
        "reg1": (lambda: O(R1), [R1]), "reg2-dict": (lambda: copy.deepcopy(R2), [R2]),
        "c0": (lambda: copy.deepcopy(C0), [C0]), "c1": (lambda: copy.deepcopy(C1), [C1]), "c2": (lambda: copy.deepcopy(C2), [C2]),
        "mix-list": (lambda: [O(V2), copy.deepcopy(C1), O(SCO)], [V2, C1, SCO]),
        "cu": (lambda: copy.deepcopy(CU), [CU]),
        "nc1": (lambda: copy.deepcopy(NC1), [NC1]), "nc2": (lambda: copy.deepcopy(NC2), [NC2]), "nc12-bundle": (lambda: bundle_dict(NC1, NC2), [NC1, NC2]),
        "coa-upper1": (lambda: O(COA_UP1), [COA_UP1]), "coa-upper2-dict": (lambda: copy.deepcopy(COA_UP2), [COA_UP2]),
        # arrival through a FILE (memory: load_from_file into the store as it stands; filesystem: the same bundle dict through add)
        "v2-loadfile": (lambda: ("$loadfile", bundle_dict(V2)), [V2]), "v1v3-loadfile": (lambda: ("$loadfile", bundle_dict(V1, V3)), [V1, V3]),
        "c2-loadfile": (lambda: ("$loadfile", bundle_dict(C2)), [C2]),
        "c3": (lambda: copy.deepcopy(C3), [C3]), "c4-text": (lambda: json.dumps(C4), [C4]),
        # bundles as ELEMENTS of a list (object and dict form) next to a plain object
        "list-of-bundles": (lambda: [stix2.v21.Bundle(O(V1)), bundle_dict(V3), O(SCO)], [V1, V3, SCO]),
        "list-of-bundle-dict": (lambda: [bundle_dict(V2, C1)], [V2, C1]),
        "old20x-dict": (lambda: copy.deepcopy(OLD20X), [OLD20X]), "u20-dict": (lambda: copy.deepcopy(U20), [U20]),
        "reg3us-dict": (lambda: copy.deepcopy(R3US), [R3US]), "reg4us-obj": (lambda: O(R4US), [R4US]),
        "dst1-obj": (lambda: O(DST1), [DST1]), "dst2-dict": (lambda: copy.deepcopy(DST2), [DST2]), "dst3-obj": (lambda: O(DST3), [DST3]),
        "idv-list-named-2.1": (lambda: ("$version", "2.1", [copy.deepcopy(IDV_GIVEN)]), [IDV]), "idv-dict-named-2.1": (lambda: ("$version", "2.1", copy.deepcopy(IDV_GIVEN)), [IDV]),
        "tool5a": (lambda: O(TOOL5A), [TOOL5A]), "tool5b-dict": (lambda: copy.deepcopy(TOOL5B), [TOOL5B]), "ident1": (lambda: O(IDENT1), [IDENT1]),
    }


QUICK_EVENTS = ["v1-obj", "v2-obj", "v3-obj", "v1-dict", "v2-dict-6digits", "v3-list", "v1v3-bundle-obj", "v2-bundle-dict", "v1-text", "v2x-obj",
                "sco", "old20-dict", "md", "reg2-dict", "c0", "c1", "c2", "mix-list", "c3", "c4-text", "tool5a", "tool5b-dict", "v3us-obj", "cu", "coa-upper1", "v2-loadfile", "v1v3-loadfile", "c2-loadfile", "nc1", "nc2", "list-of-bundles", "list-of-bundle-dict", "old20x-dict", "u20-dict", "reg3us-dict", "reg4us-obj", "idv-list-named-2.1"]
ALL_EVENTS = QUICK_EVENTS + ["reg1", "ident1", "coa-upper2-dict", "nc12-bundle", "idv-dict-named-2.1"]


def instant_of(d):
    m = d.get("modified")
    if m is None:
        return None
    if not isinstance(m, str):
        import stix2.utils
        m = stix2.utils.format_datetime(m)
    return tsfmt.instant_of(m)


def norm(obj):
    """JSON view of a stored/returned object with timestamps replaced by exact instants (spelling-independent)."""
    import stix2.serialization
    if isinstance(obj, dict):
        v = json.loads(stix2.serialization.serialize(obj))
    else:
        v = json.loads(obj.serialize())

    def walk(x):
        if isinstance(x, dict):
            return {k: walk(y) for k, y in x.items()}
        if isinstance(x, list):
            return [walk(y) for y in x]
        if isinstance(x, str):
            i = tsfmt.instant_of(x)
            return {"$instant": i} if i is not None else x
        return x
    out = walk(v)
    # the Python KIND of every number found in the object as handed out (re-serializing would hide a float that came back as another numeric class)
    kinds = []

    def numbers(x, path):
        if hasattr(x, "items") and not isinstance(x, str):
            for k, y in x.items():
                numbers(y, path + (str(k),))
        elif isinstance(x, (list, tuple)):
            for i, y in enumerate(x):
                numbers(y, path + (i,))
        elif isinstance(x, bool) or x is None or isinstance(x, str):
            pass
        elif isinstance(x, (int, float)) or type(x).__module__ in ("decimal", "fractions", "numbers"):
            kinds.append([list(path), type(x).__name__, x == x and float(x) == x and repr(float(x)) or repr(x)])
    if obj.get("id") in (XID, OLD20X["id"]):       # the menu objects that carry numbers in untyped slots
        numbers(obj, ())
    kinds.sort(key=str)          # member order is not content
    if kinds and isinstance(out, dict):
        out["$number-kinds"] = kinds
    return out


def chash(n):
    return hashlib.blake2b(json.dumps(n, sort_keys=True).encode(), digest_size=6).hexdigest()


def expected_content(atom):
    """what the parser alone makes of the atom (the store must not alter it)"""
    return chash(norm(O(atom)))


class Model(object):
    """the plain list: id -> {instant: [content hashes in order of addition]}"""

    def __init__(self):
        self.v = {}

    def copy(self):
        m = Model()
        m.v = {i: {t: list(c) for t, c in d.items()} for i, d in self.v.items()}
        return m

    def add(self, atom):
        self.v.setdefault(atom["id"], {}).setdefault(instant_of(atom), []).append(expected_content(atom))

    def keys(self):
        return {(i, t) for i, d in self.v.items() for t in d}

    def versions(self, id_):
        return set(self.v.get(id_, {}))

    def latest(self, id_):
        d = self.v.get(id_)
        if not d:
            return None
        return max(d, key=lambda t: -1 if t is None else t)

    def pin(self, observed_keys):
        """after a loud refusal: acknowledged contents = what the store now holds"""
        for i in list(self.v):
            for t in list(self.v[i]):
                if (i, t) not in observed_keys:
                    del self.v[i][t]
            if not self.v[i]:
                del self.v[i]


def observe(store, part, what):
    """(keys, per-id versions, per-id latest, per-type keys, contents) of a store through its public API; exceptions are data"""
    obs = {"all": None, "versions": {}, "get": {}, "types": {}, "content": {}}
    try:
        objs = store.query([])
        obs["all"] = sorted(((o["id"], instant_of(o)) for o in objs), key=str)
        for o in objs:
            obs["content"].setdefault((o["id"], instant_of(o)), []).append(chash(norm(o)))
    except Exception as e:
        obs["all"] = "EXC:" + type(e).__name__
    from stix2 import Filter
    for id_ in IDS:
        try:
            obs["versions"][id_] = sorted((instant_of(o) for o in store.all_versions(id_)), key=str)
        except Exception as e:
            obs["versions"][id_] = "EXC:" + type(e).__name__
        try:
            g = store.get(id_)
            obs["get"][id_] = None if g is None else [instant_of(g), chash(norm(g))]
        except Exception as e:
            obs["get"][id_] = "EXC:" + type(e).__name__
    for t in TYPES:
        try:
            obs["types"][t] = sorted(((o["id"], instant_of(o)) for o in store.query([Filter("type", "=", t)])), key=str)
        except Exception as e:
            obs["types"][t] = "EXC:" + type(e).__name__
    obs["tsq"] = {}
    for label, prop, op, text in TS_QUERIES:
        try:
            obs["tsq"][label] = sorted(((o["id"], instant_of(o)) for o in store.query([Filter(prop, op, text)]) if o["id"] not in DICT_KEPT), key=str)
        except Exception as e:
            obs["tsq"][label] = "EXC:" + type(e).__name__
    obs["keyq"] = {}
    for label, prop, op, val, _ in (KEY_QUERIES if what in ("mem-final", "fs-final") else ()):        # a re-loaded store is compared on all / versions / get / types only
        try:
            obs["keyq"][label] = sorted(((o["id"], instant_of(o)) for o in store.query([Filter(prop, op, val)])), key=str)
        except Exception as e:
            obs["keyq"][label] = "EXC:" + type(e).__name__
    part.transitions += 2 * len(IDS) + len(TYPES) + 1 + len(TS_QUERIES) + len(KEY_QUERIES)
    return obs


def feature_of(id_):
    return {A: "versioned-sdo", SCO["id"]: "unversioned-sco", OLD20["id"]: "v20-sdo", MD["id"]: "marking-definition", XID: "unregistered-dict",
            RID: "registered-custom", OLD20X["id"]: "v20-sdo-with-custom-property", U20ID: "unregistered-dict-without-spec_version", T5ID: "uuid5-id", I1ID: "uuid1-id", CU["id"]: "unversioned-unregistered-dict", UPID: "upper-case-hex-uuid7-id", IDVID: "version-named-on-the-call", NCID: "dict-without-created"}.get(id_, "absent-id")


def compare(sname, obs, model, part, case, conflicted):
    """store observations vs list model"""
    mk = sorted(model.keys(), key=str)
    if isinstance(obs["all"], str):
        part.violation("C11/%s/query-all-raises/%s" % (sname, obs["all"]), "query([]) raises", case, mk, obs["all"])
    else:
        got = [tuple(x) for x in obs["all"]]
        if set(got) != set(mk):
            missing = set(mk) - set(got)
            feat = sorted({feature_of(i) for i, _ in (missing or set(got) - set(mk))})
            part.violation("C11/%s/query-all/%s/%s" % (sname, "missing" if missing else "extra", "+".join(feat)),
                           "query([]) does not return exactly the distinct versions added", case, mk, sorted(set(got), key=str))
        if len(got) != len(set(got)) and not conflicted:
            # the same (id, instant) twice with identical content is a duplicate answer
            part.notes["%s:query-all-duplicate-answers" % sname] += 1
    for id_ in IDS:
        exp_v = sorted(model.versions(id_), key=str)
        gv = obs["versions"][id_]
        if isinstance(gv, str):
            part.violation("C11/%s/all_versions-raises/%s/%s" % (sname, gv, feature_of(id_)), "all_versions raises", dict(case, id=id_), exp_v, gv)
        elif set(gv) != set(exp_v):
            part.violation("C11/%s/all_versions/%s/%s" % (sname, "missing" if set(exp_v) - set(gv) else "extra", feature_of(id_)),
                           "all_versions does not return every distinct version added", dict(case, id=id_), exp_v, gv)
        g = obs["get"][id_]
        lat = model.latest(id_)
        if isinstance(g, str):
            part.violation("C11/%s/get-raises/%s/%s" % (sname, g, feature_of(id_)), "get raises", dict(case, id=id_), lat, g)
            continue
        if not model.versions(id_):
            if g is not None:
                part.violation("C11/%s/get-phantom/%s" % (sname, feature_of(id_)), "get returns an object that was never added", dict(case, id=id_), None, g)
            continue
        if g is None:
            part.violation("C11/%s/get-none/%s" % (sname, feature_of(id_)), "get returns nothing for a stored id", dict(case, id=id_), lat, None)
            continue
        if g[0] != lat:
            part.violation("C11/%s/get-not-latest/%s" % (sname, feature_of(id_)), "get does not return the version with the greatest modified time",
                           dict(case, id=id_), lat, g[0])
        elif (id_, lat) not in conflicted:
            contents = set(model.v[id_][lat])
            if len(contents) == 1 and g[1] not in contents:
                part.violation("C11/%s/content-altered/%s" % (sname, feature_of(id_)), "what comes out differs from what went in", dict(case, id=id_), sorted(contents), g[1])
    for t in TYPES:
        exp_t = sorted(((i, x) for (i, x) in model.keys() if i.startswith(t + "--")), key=str)
        gt = obs["types"][t]
        if isinstance(gt, str):
            part.violation("C11/%s/type-query-raises/%s/%s" % (sname, gt, t), "query by type raises", dict(case, type=t), exp_t, gt)
        elif set(map(tuple, gt)) != set(exp_t):
            part.violation("C11/%s/type-query/%s" % (sname, t), "query by type does not return exactly the stored objects of that type", dict(case, type=t), exp_t, gt)
    for label, prop, op, text in TS_QUERIES:
        ref_t = tsfmt.instant_of(text)
        if prop == "modified":
            exp_q = sorted(((i, x) for (i, x) in model.keys() if i not in DICT_KEPT and x is not None and _OPS[op](x, ref_t)), key=str)
        else:
            # every non-dict-kept object of the menu that has 'created' was created at T1
            exp_q = sorted(((i, x) for (i, x) in model.keys() if i not in DICT_KEPT and i != SCO["id"] and _OPS[op](tsfmt.instant_of(T1), ref_t)), key=str)
        gq = obs["tsq"][label]
        if isinstance(gq, str):
            part.violation("C11/%s/timestamp-text-query-raises/%s" % (sname, gq), "a query by a timestamp given as text raises", dict(case, query=label), exp_q, gq)
        elif set(map(tuple, gq)) != set(exp_q):
            part.violation("C11/%s/timestamp-text-query/%s/%s" % (sname, prop, op), "a query by a timestamp given as text (another spelling of the instant) does not return exactly the stored versions it denotes",
                           dict(case, query=label), exp_q, gq)
    for label, prop, op, val, pred in KEY_QUERIES:
        exp_k = sorted(((i, x) for (i, x) in model.keys() if pred(i.split("--")[0], i)), key=str)
        if label not in obs["keyq"]:
            continue
        gk = obs["keyq"][label]
        if isinstance(gk, str):
            part.violation("C11/%s/key-query-raises/%s/%s:%s" % (sname, gk, prop, op), "a query by type / id raises", dict(case, query=label), exp_k, gk)
        elif set(map(tuple, gk)) != set(exp_k):
            part.violation("C11/%s/key-query/%s:%s" % (sname, prop, op), "a query by type / id under this operator does not return exactly the stored objects that satisfy it", dict(case, query=label), exp_k, gk)
    # contents of every version that was added with a single content
    if not isinstance(obs["all"], str):
        for (i, t), hashes in obs["content"].items():
            if (i, t) in conflicted or (i, t) not in model.keys():
                continue
            want = set(model.v[i][t])
            if len(want) == 1 and set(hashes) != want:
                part.violation("C11/%s/content-altered/%s" % (sname, feature_of(i)), "what comes out differs from what went in", dict(case, id=i), sorted(want), hashes)


def run_history(case, part):
    if case.get("tz"):
        # ENVIRONMENT: the same history under another process time zone (the stores' answers and file names do not depend on it)
        env.reset()
        try:
            with env.process_tz(case["tz"]):
                return _run_history(dict(case, tz_active=True), part)
        finally:
            env.reset()
    return _run_history(case, part)


def _run_history(case, part):
    import stix2
    from stix2 import FileSystemStore, MemoryStore
    from stix2.datastore import DataSourceError
    register_custom()
    if not case.get("tz_active"):
        env.reset()
    ev = EVENTS()
    hist = case["history"]
    d = env.scratch_dir("c11")
    try:
        mem = MemoryStore()
        fs = FileSystemStore(d, allow_custom=True, bundlify=bool(case.get("bundlify")))
        mm, fm = Model(), Model()
        conflicted = set()
        seen_content = {}
        for step, name in enumerate(hist):
            factory, atoms = ev[name]
            for a in atoms:
                k = (a["id"], instant_of(a))
                h = expected_content(a)
                if k in seen_content and seen_content[k] != h:
                    conflicted.add(k)
                seen_content.setdefault(k, h)
            # ---- memory (JSON text is not a documented memory input: it receives the equivalent dict)
            item = factory()
            if isinstance(item, str):
                item = json.loads(item)
            before = mm.copy()
            for a in atoms:
                mm.add(a)
            part.transitions += 1
            try:
                if isinstance(item, tuple) and item[0] == "$loadfile":
                    lp = os.path.join(d, "incoming-%d.json" % step)
                    with open(lp, "w") as fh:
                        json.dump(item[1], fh)
                    mem.load_from_file(lp)
                    os.unlink(lp)
                elif isinstance(item, tuple) and item[0] == "$version":
                    mem.add(item[2], version=item[1])
                else:
                    mem.add(item)
                part.outcome("mem-add-ok")
            except Exception as e:
                part.outcome("mem-add-raises:" + type(e).__name__)
                part.violation("C11/mem/add-raises/%s/%s" % (type(e).__name__, name), "MemoryStore.add raises on a documented input form",
                               dict(case, event=name), "added", "%s: %s" % (type(e).__name__, str(e)[:200]))
                mm = before
            # ---- filesystem
            before = fm.copy()
            for a in atoms:
                fm.add(a)
            part.transitions += 1
            try:
                fitem = factory()
                if isinstance(fitem, tuple) and fitem[0] == "$version":
                    fs.add(fitem[2], version=fitem[1])
                else:
                    fs.add(fitem[1] if isinstance(fitem, tuple) and fitem[0] == "$loadfile" else fitem)
                part.outcome("fs-add-ok")
            except DataSourceError:
                # loud refusal to overwrite: legitimate only if some atom's (id, instant) was already stored
                part.outcome("fs-add-refused-duplicate")
                dup = [a for a in atoms if (a["id"], instant_of(a)) in before.keys()] or len({(a["id"], instant_of(a)) for a in atoms}) < len(atoms)
                if not dup:
                    part.violation("C11/fs/refused-non-duplicate/%s" % feature_of(atoms[0]["id"]), "FileSystemStore refuses a version that is not stored yet (a different version is lost)",
                                   dict(case, event=name), "added", "DataSourceError")
                # acknowledged = observed prefix: pin the model to what the store now holds, which must lie between before and after
                try:
                    held = {(o["id"], instant_of(o)) for o in fs.query([])}
                except Exception:
                    held = None
                if held is not None:
                    if not (before.keys() <= held <= fm.keys()):
                        part.violation("C11/fs/refusal-lost-data", "after a refused add the store does not hold (at least) what it held before", dict(case, event=name),
                                       sorted(before.keys(), key=str), sorted(held, key=str))
                    fm.pin(held | before.keys())
            except Exception as e:
                part.outcome("fs-add-raises:" + type(e).__name__)
                part.violation("C11/fs/add-raises/%s/%s" % (type(e).__name__, name), "FileSystemStore.add raises on a documented input form",
                               dict(case, event=name), "added", "%s: %s" % (type(e).__name__, str(e)[:200]))
                fm = before
            if case.get("reads") == "interleaved" and step < len(hist) - 1:
                # lock-step: read through the SAME store objects after every add (whatever a read caches must not outlive the next add)
                step_case = dict(case, after_step=step)
                compare("mem", observe(mem, part, "mem"), mm, part, step_case, conflicted)
                compare("fs", observe(fs, part, "fs"), fm, part, step_case, conflicted)
        part.evaluations += 1
        mobs = observe(mem, part, "mem-final")       # type / id queries under every operator: in the state reached at the end of the history (every prefix is a history of its own)
        fobs = observe(fs, part, "fs-final")
        part.state(("mem", sorted(mm.keys(), key=str), "fs", sorted(fm.keys(), key=str)), nontrivial=len(mm.keys()) > 1)
        compare("mem", mobs, mm, part, case, conflicted)
        compare("fs", fobs, fm, part, case, conflicted)
        if mm.keys() == fm.keys() and not conflicted:
            # same acknowledged contents => the two stores must answer identically (three-way agreement)
            for key in ("all", "versions", "types", "tsq", "keyq"):
                a, b = mobs[key], fobs[key]
                if key == "all" and not isinstance(a, str) and not isinstance(b, str):
                    a, b = sorted(set(map(tuple, a)), key=str), sorted(set(map(tuple, b)), key=str)
                if a != b:
                    part.violation("C11/stores-disagree/%s" % key, "MemoryStore and FileSystemStore answer differently for the same history", case, a, b)
            for id_ in IDS:
                if mobs["get"][id_] != fobs["get"][id_]:
                    part.violation("C11/stores-disagree/get/%s" % feature_of(id_), "MemoryStore and FileSystemStore return different objects for get()",
                                   dict(case, id=id_), mobs["get"][id_], fobs["get"][id_])
        # ---- save_to_file -> load_from_file from this state
        if case.get("saveload", True):
            path = os.path.join(d, "export", "saved.json")
            part.transitions += 2
            try:
                mem.save_to_file(path)
                m2 = MemoryStore()
                m2.load_from_file(path)
                part.outcome("save-load-ok")
                lobs = observe(m2, part, "loaded")
                for key in ("all", "versions", "get", "types"):
                    a, b = mobs[key], lobs[key]
                    if key == "get" and conflicted:
                        # two contents under one (id, instant): which one survives has no defined behaviour; compare instants only
                        a = {i: (g[0] if isinstance(g, list) else g) for i, g in a.items()}
                        b = {i: (g[0] if isinstance(g, list) else g) for i, g in b.items()}
                    if key == "all" and not isinstance(a, str) and not isinstance(b, str):
                        a, b = sorted(set(map(tuple, a)), key=str), sorted(set(map(tuple, b)), key=str)
                    if a != b:
                        feat = "+".join(sorted({feature_of(i) for i, _ in mm.keys()}))
                        part.violation("C11/save-load/%s/%s" % (key, feat if len(feat) < 60 else "mixed"), "a saved and re-loaded memory store answers differently", case, a, b)
                        break
            except Exception as e:
                part.outcome("save-load-raises:" + type(e).__name__)
                feat = "+".join(sorted({feature_of(i) for i, _ in mm.keys()})) or "empty"
                part.violation("C11/save-load-raises/%s/%s" % (type(e).__name__, feat if len(feat) < 60 else "mixed"), "save_to_file/load_from_file raises", case, "round trip",
                               "%s: %s" % (type(e).__name__, str(e)[:200]))
            # ... and with the `encoding` argument of both calls (a legacy 8-bit code page, a 16-bit encoding): what comes back is what was saved
            for encn in (("latin-1", "utf-16", "cp1252") if case.get("encodings") else ()):
                path2 = os.path.join(d, "export", "saved-%s.json" % encn)
                part.transitions += 2
                try:
                    try:
                        mem.save_to_file(path2, encoding=encn)
                    except UnicodeEncodeError:
                        part.outcome("save-load-encoding:content-not-encodable")
                        continue
                    m3 = MemoryStore()
                    m3.load_from_file(path2, encoding=encn)
                    l3 = observe(m3, part, "loaded")
                    if l3["all"] != mobs["all"] or l3["get"] != mobs["get"]:
                        part.violation("C11/save-load/encoding/%s" % encn, "a memory store saved and re-loaded with the same `encoding` argument answers differently", dict(case, encoding=encn), mobs["get"], l3["get"])
                    else:
                        part.outcome("save-load-encoding:same")
                except Exception as e:
                    part.violation("C11/save-load-raises/%s/encoding=%s" % (type(e).__name__, encn), "save_to_file / load_from_file with the same `encoding` argument raises", dict(case, encoding=encn), "round trip",
                                   "%s: %s" % (type(e).__name__, str(e)[:200]))
    finally:
        shutil.rmtree(d, ignore_errors=True)


def replay(case, part):
    run_history(case, part)


def run(run):
    th = run.thorough
    names = ALL_EVENTS if th else QUICK_EVENTS
    depth = 3
    cases = [{"history": []}]
    for n in range(1, depth + 1):
        for h in itertools.product(names, repeat=n):
            cases.append({"history": list(h), "saveload": n <= 2 or th})
    if th:
        # depth 4 over the core sub-alphabet (every order of the version/duplicate/spelling events)
        core = ["v1-obj", "v2-obj", "v3-obj", "v2-dict-6digits", "v1v3-bundle-obj", "v2x-obj", "v3us-obj", "c0", "c1", "c2", "mix-list", "reg1", "reg2-dict"]
        for h in itertools.product(core, repeat=4):
            cases.append({"history": list(h), "saveload": False})
    for h in itertools.product(["v1-obj", "v2-dict-6digits", "v3-list", "c1", "c2", "sco", "md", "mix-list"], repeat=2):
        cases.append({"history": list(h), "bundlify": True})
    # the same histories with a full read after EVERY add (depth 2: all events; depth 3: the events that share an id or a type directory)
    shared = ["v1-obj", "v2-dict-6digits", "v3us-obj", "old20-dict", "cu", "c1", "c2", "c4-text", "mix-list", "md", "sco", "tool5a", "tool5b-dict", "v2-loadfile", "coa-upper1"]
    for h in itertools.product(names, repeat=2):
        cases.append({"history": list(h), "reads": "interleaved", "saveload": False})
    for h in itertools.product(shared if not th else names, repeat=3):
        cases.append({"history": list(h), "reads": "interleaved", "saveload": False})
    run.mode = "BFS (tree, no state merging: every order of additions is executed)"
    run.rule = ("all add-histories of length <= %d over %d add events%s on MemoryStore and FileSystemStore side by side; states = distinct (memory contents, filesystem "
                "contents) reached; non-trivial = more than one stored version; the histories of length 2 (all events) and 3 (%s) are also run with a complete read after every add" % (depth, len(names), " + length 4 over 13 core events" if th else "", "all events" if th else "13 events sharing ids / type directories"))
    run.bound = {"history_length": depth, "events": names, "ids": len(IDS), "bundlify_histories": 64}
    run.assumptions += ["list model in mc/checks/c11_stores.py (multiset of added atoms; distinct versions = distinct (id, instant))",
                        "scratch directories under /dev/shm, removed after each history"]
    for zone in env.process_tz.ZONES[1:]:
        for h in (["dst1-obj", "dst2-dict"], ["dst2-dict", "dst1-obj", "dst3-obj"], ["v1-obj", "v2-dict-6digits", "c1"]):
            cases.append({"history": h, "tz": zone, "saveload": True})
    for h in (["dst1-obj"], ["dst1-obj", "dst2-dict"], ["v1-obj", "c1"]):
        cases.append({"history": h, "saveload": True, "encodings": True})
    run.pmap(run_history, cases)
    run.part.sample({"history": ["v3-obj", "v1-dict", "v2-dict-6digits"], "expect": "get(campaign) = v3; all_versions = {v1, v2, v3} on both stores"})
    run.part.sample({"history": ["v2-obj", "v2-dict-6digits"], "expect": "duplicate version: memory idempotent, filesystem refuses loudly; one version held"})
    run.part.sample({"history": ["c2", "c1"], "expect": "unregistered dicts: latest is c2 (00:00:01Z) although '00:00:00.5Z' sorts after it as a string"})
    o = run.part.outcomes
    run.require(o.get("fs-add-refused-duplicate", 0) > 0, "duplicate refusals reached")
    run.require(o.get("save-load-ok", 0) > 100, "save/load executed")
    run.require(len(run.part.states) > 150, "many distinct store contents reached")
