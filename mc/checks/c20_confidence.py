"""C20 - Confidence-scale conversions are total, monotone and round-trip.

Complete enumeration (both tiers): every integer -200..300 through the five value_to_* functions, every label of
every scale plus near-miss labels (case / whitespace variants, labels of the other scales, '', None) through the five
*_to_value functions.  Oracle: frozen copy of the STIX 2.1 Appendix A tables + table-independent relational clauses.
"""
ID = "C20"

# frozen from STIX 2.1 Part 1, Appendix A (ranges inclusive, representative value)
TABLES = {
    "none_low_med_high": [(0, 0, "None", 0), (1, 29, "Low", 15), (30, 69, "Med", 50), (70, 100, "High", 85)],
    "zero_ten": [(0, 4, "0", 0), (5, 14, "1", 10), (15, 24, "2", 20), (25, 34, "3", 30), (35, 44, "4", 40), (45, 54, "5", 50),
                 (55, 64, "6", 60), (65, 74, "7", 70), (75, 84, "8", 80), (85, 94, "9", 90), (95, 100, "10", 100)],
    "admiralty_credibility": [(0, 19, "5 - Improbable", 10), (20, 39, "4 - Doubtful", 30), (40, 59, "3 - Possibly True", 50),
                              (60, 79, "2 - Probably True", 70), (80, 100, "1 - Confirmed by other sources", 90)],
    "wep": [(0, 0, "Impossible", 0), (1, 19, "Highly Unlikely/Almost Certainly Not", 10), (20, 39, "Unlikely/Probably Not", 30),
            (40, 59, "Even Chance", 50), (60, 79, "Likely/Probable", 70), (80, 99, "Highly likely/Almost Certain", 90),
            (100, 100, "Certain", 100)],
    "dni": [(0, 9, "Almost No Chance / Remote", 5), (10, 19, "Very Unlikely / Highly Improbable", 15),
            (20, 39, "Unlikely / Improbable", 30), (40, 59, "Roughly Even Chance / Roughly Even Odds", 50),
            (60, 79, "Likely / Probable", 70), (80, 89, "Very Likely / Highly Probable", 85),
            (90, 100, "Almost Certain / Nearly Certain", 95)],
}
FUNCS = {  # scale -> (value_to_label function name, label_to_value function name)
    "none_low_med_high": ("value_to_none_low_medium_high", "none_low_med_high_to_value"),
    "zero_ten": ("value_to_zero_ten", "zero_ten_to_value"),
    "admiralty_credibility": ("value_to_admiralty_credibility", "admiralty_credibility_to_value"),
    "wep": ("value_to_wep", "wep_to_value"),
    "dni": ("value_to_dni", "dni_to_value"),
}
NO_VALUE_LABELS = {"admiralty_credibility": ["6 - Truth cannot be judged"]}
LO, HI = -200, 300


def call(fn, arg):
    try:
        return ("ok", fn(arg))
    except ValueError as e:
        return ("ValueError", None)
    except Exception as e:   # wrong error class = not the documented refusal
        return (type(e).__name__, None)


def expected_label(scale, v):
    for lo, hi, label, rep in TABLES[scale]:
        if lo <= v <= hi:
            return label
    return None


def near_misses(scale):
    out = []
    for lo, hi, label, rep in TABLES[scale]:
        for var in (label.lower(), label.upper(), " " + label, label + " ", label + "x", label[:-1]):
            out.append(var)
    for other, rows in TABLES.items():
        if other != scale:
            out.extend(r[2] for r in rows)
    out.extend(["", "Not Specified", "not specified", None, "11", "-1", "00", "6", "High "])
    # labels RECOMBINED from the parts of the scale's own labels (a valid grade with another grade's description, halves of two labels, ...)
    own_labels = [r[2] for r in TABLES[scale]]
    for sep in (" - ", " / ", "/", " "):
        parts = [l.split(sep) for l in own_labels if sep in l]
        for a in parts:
            for b in parts:
                if a is not b:
                    out.append(sep.join(a[:1] + b[1:]))
                    out.append(sep.join(a[:-1] + b[-1:]))
    # things that are not strings but print like a label, and containers
    for lab in own_labels[:2]:
        out.extend([(lab,), [lab], {lab: 1}, lab.encode()])
    out.extend([(), [], {}, 0.5, True, b""])
    own = {r[2] for r in TABLES[scale]}
    seen, res = set(), []
    for x in out:
        k = repr(x)
        if (isinstance(x, str) and x in own) or k in seen:
            continue
        seen.add(k)
        res.append(x)
    return res


def check_scale(scale, part):
    import stix2.confidence.scales as S
    v2l = getattr(S, FUNCS[scale][0])
    l2v = getattr(S, FUNCS[scale][1])
    labels_seen = []
    for v in range(LO, HI + 1):
        part.evaluations += 1
        part.transitions += 1
        kind, res = call(v2l, v)
        exp = expected_label(scale, v)
        part.state((scale, "v2l", v), nontrivial=True)
        case = {"scale": scale, "fn": FUNCS[scale][0], "arg": v}
        repro = "import stix2.confidence.scales as S\nprint(S.%s(%r))\n" % (FUNCS[scale][0], v)
        if exp is None:
            part.outcome("value-refused" if kind == "ValueError" else "value-out-of-range-" + kind)
            if kind != "ValueError":
                part.violation("C20/out-of-range-not-refused/%s" % scale, "value outside 0-100 is not refused with ValueError", case,
                               "ValueError", [kind, res], repro)
        else:
            part.outcome("value-converted" if kind == "ok" else "value-in-range-" + kind)
            if kind != "ok":
                part.violation("C20/not-total/%s" % scale, "conversion undefined inside 0-100", case, exp, [kind, res], repro)
            elif res != exp:
                part.violation("C20/range-table/%s" % scale, "label disagrees with the STIX 2.1 Appendix A range table", case, exp, res, repro)
            if kind == "ok":
                labels_seen.append((v, res))
    # other KINDS of argument: something that is not a number is refused (never labelled); a number that EQUALS an integer n of the range (50.0, Decimal(50), True ...)
    # is refused or gets exactly n's label; whatever is returned is a label of the scale
    import decimal
    import fractions
    all_labels = {lab for lo, hi, lab, rep in TABLES[scale]}
    for arg in (None, "", [], (), {}, "50", "0", b"5", 50.0, 0.0, 100.0, -0.0, decimal.Decimal(50), fractions.Fraction(50), True, False, 4.5, 100.5, -0.5, float("nan"), float("inf"), 1e300):
        part.evaluations += 1
        part.transitions += 1
        kind, res = call(v2l, arg)
        case = {"scale": scale, "fn": FUNCS[scale][0], "arg": repr(arg)}
        repro = "import stix2.confidence.scales as S\nprint(S.%s(%s))\n" % (FUNCS[scale][0], repr(arg))
        part.state((scale, "v2l-kind", repr(arg)), nontrivial=False)
        is_number = isinstance(arg, (int, float, decimal.Decimal, fractions.Fraction))
        if kind != "ok":
            part.outcome("other-kind-refused")
            continue
        part.outcome("other-kind-labelled")
        whole = is_number and arg == arg and arg not in (float("inf"),) and arg == int(arg) and 0 <= int(arg) <= 100
        if not is_number:
            part.violation("C20/non-number-labelled/%s" % scale, "an argument that is not a number gets a label instead of being refused", case, "refused", res, repro)
        elif res not in all_labels:
            part.violation("C20/result-is-not-a-label/%s" % scale, "the conversion returns something that is not a label of the scale", case, "a label of the scale or a refusal", res, repro)
        elif whole and res != expected_label(scale, int(arg)):
            part.violation("C20/equal-number-other-label/%s" % scale, "a number equal to an integer of the range gets another label than that integer", case, expected_label(scale, int(arg)), res, repro)
    # table-independent: along 0..100 each label occupies one contiguous interval (moves one way only)
    order = []
    for v, lab in labels_seen:
        if not order or order[-1] != lab:
            order.append(lab)
    if len(order) != len(set(order)):
        part.violation("C20/not-monotone/%s" % scale, "a label re-appears after another label as the value grows",
                       {"scale": scale, "fn": FUNCS[scale][0], "arg": "0..100"}, "each label one interval", order)
    # labels -> values
    for lo, hi, label, rep in TABLES[scale]:
        part.evaluations += 1
        part.transitions += 1
        part.state((scale, "l2v", label))
        kind, res = call(l2v, label)
        case = {"scale": scale, "fn": FUNCS[scale][1], "arg": label}
        repro = "import stix2.confidence.scales as S\nprint(S.%s(%r))\n" % (FUNCS[scale][1], label)
        part.outcome("label-converted" if kind == "ok" else "label-" + kind)
        if kind != "ok":
            part.violation("C20/label-refused/%s" % scale, "a label of the scale is refused", case, rep, [kind, res], repro)
            continue
        if res != rep:
            part.violation("C20/label-value-table/%s" % scale, "label value disagrees with the specification table", case, rep, res, repro)
        if isinstance(res, bool) or not isinstance(res, int) or not (0 <= res <= 100):
            part.violation("C20/label-value-not-confidence/%s" % scale, "label value is not an integer 0-100", case, rep, res, repro)
            continue
        k2, back = call(v2l, res)
        if k2 != "ok" or back != label:
            part.violation("C20/round-trip/%s" % scale, "value_to(label_to(l)) != l", case, label, [k2, back], repro)
    # label values must be ordered like their intervals
    vals = []
    for lo, hi, label, rep in TABLES[scale]:
        kind, res = call(l2v, label)
        if kind == "ok" and isinstance(res, int):
            vals.append(res)
    if vals != sorted(vals) or len(set(vals)) != len(vals):
        part.violation("C20/label-values-not-monotone/%s" % scale, "label values are not strictly increasing along the scale",
                       {"scale": scale, "fn": FUNCS[scale][1], "arg": "all labels"}, "strictly increasing", vals)
    for label in NO_VALUE_LABELS.get(scale, []) + near_misses(scale):
        part.evaluations += 1
        part.transitions += 1
        part.state((scale, "l2v", label), nontrivial=False)
        kind, res = call(l2v, label)
        part.outcome("unknown-label-refused" if kind == "ValueError" else "unknown-label-" + kind)
        if kind != "ValueError":
            part.violation("C20/unknown-label-not-refused/%s" % scale, "a string that is not a label of the scale is not refused with ValueError",
                           {"scale": scale, "fn": FUNCS[scale][1], "arg": label}, "ValueError", [kind, res],
                           "import stix2.confidence.scales as S\nprint(S.%s(%r))\n" % (FUNCS[scale][1], label))


def expected_call(scale, direction, arg):
    """history-free expectation from the frozen tables: ('ok', result) or ('ValueError', None)"""
    if direction == "v2l":
        lab = expected_label(scale, arg)
        return ("ok", lab) if lab is not None else ("ValueError", None)
    for lo, hi, label, rep in TABLES[scale]:
        if arg == label:
            return ("ok", rep)
    return ("ValueError", None)


def domain(scale, full):
    ints = list(range(LO, HI + 1)) if full else list(range(-3, 105)) + [LO, HI]
    labs = [r[2] for r in TABLES[scale]] + NO_VALUE_LABELS.get(scale, []) + near_misses(scale)
    return [(scale, "v2l", v) for v in ints] + [(scale, "l2v", l) for l in labs]


def sequences(case, part):
    """All ordered pairs of calls (a then b): whatever a call leaves behind (a memo, a consumed iterator, a mutated table) must not change any later answer.
    Per first call a the scales module is reloaded (fresh state), a is made, then every b of the menu is made in menu order and again in reverse order;
    each answer is compared with the history-free table expectation."""
    import importlib
    import stix2.confidence.scales as S
    full = case.get("full", False)
    scales = [case["scale"]] if not case.get("cross") else sorted(TABLES)
    firsts = domain(case["scale"], full)
    seconds = [c for sc in scales for c in domain(sc, full and not case.get("cross"))]
    for a in firsts:
        S = importlib.reload(S)
        fns = {(sc, d): getattr(S, FUNCS[sc][0 if d == "v2l" else 1]) for sc in TABLES for d in ("v2l", "l2v")}
        ra = call(fns[a[:2]], a[2])
        part.state(("seq", a), nontrivial=True)
        for order, menu in (("fwd", seconds), ("rev", seconds[::-1])):
            for b in menu:
                part.evaluations += 1
                part.transitions += 1
                rb = call(fns[b[:2]], b[2])
                if rb != expected_call(*b):
                    # the same call on a fresh module: a wrong answer that does not depend on history is the business of the depth-1 pass above
                    S = importlib.reload(S)
                    fns = {(sc, d): getattr(S, FUNCS[sc][0 if d == "v2l" else 1]) for sc in TABLES for d in ("v2l", "l2v")}
                    iso = call(fns[b[:2]], b[2])
                    S = importlib.reload(S)
                    fns = {(sc, d): getattr(S, FUNCS[sc][0 if d == "v2l" else 1]) for sc in TABLES for d in ("v2l", "l2v")}
                    call(fns[a[:2]], a[2])
                    if iso == rb:
                        part.outcome("sequence:wrong-regardless-of-history")
                        continue
                    part.outcome("sequence:DIFFERS")
                    part.violation("C20/history-dependent/%s" % b[0], "the answer of a conversion depends on the calls made before it",
                                   {"scale": case["scale"], "first": list(a), "then": list(b), "order": order, "full": full, "cross": bool(case.get("cross")), "kind": "sequences"},
                                   list(expected_call(*b)), list(rb),
                                   "import stix2.confidence.scales as S\nS.%s(%r)\nprint(S.%s(%r))\n" % (FUNCS[a[0]][0 if a[1] == "v2l" else 1], a[2], FUNCS[b[0]][0 if b[1] == "v2l" else 1], b[2]))
                else:
                    part.outcome("sequence:same")
    importlib.reload(S)


def run_case(case, part):
    if case.get("kind") == "sequences":
        return sequences(case, part)
    check_scale(case["scale"], part)


def replay(case, part):
    if case.get("kind") == "sequences":
        return sequences({"kind": "sequences", "scale": case["scale"], "full": case.get("full", False), "cross": case.get("cross", False)}, part)
    check_scale(case["scale"], part)


def run(run):
    run.mode = "DEV (complete domain)"
    run.rule = ("complete enumeration: every integer %d..%d through each value_to_* function and every label + near-miss label through each "
                "*_to_value function; a case is non-trivial when the argument is an integer or a genuine label of the scale" % (LO, HI))
    run.bound = {"integers": [LO, HI], "scales": len(TABLES)}
    run.alphabets = {"scales": sorted(TABLES), "near_miss_labels_per_scale": {s: len(near_misses(s)) for s in TABLES}}
    run.assumptions.append("oracle: frozen copy of STIX 2.1 Appendix A ranges in mc/checks/c20_confidence.py")
    cases = [{"scale": s} for s in sorted(TABLES)]
    run.pmap(run_case, cases, serial=True)
    # depth-2 operation sequences (state left behind by an earlier call)
    seq = [{"kind": "sequences", "scale": s, "full": run.thorough} for s in sorted(TABLES)]
    seq += [{"kind": "sequences", "scale": s, "cross": True} for s in sorted(TABLES)]      # both tiers: a call of one scale, then every call of every scale
    run.pmap(run_case, seq)
    run.rule += ("; plus every ordered pair of calls (a, b) of one scale%s: module reloaded, a called, then every b (menu order and reversed) compared with the history-free table"
                 % (" over the complete domain, and across scales over the reduced domain" if run.thorough else " and across scales, over the reduced domain (-3..104, extremes, all labels and near misses)"))
    run.bound["sequence_depth"] = 2
    run.part.sample({"scale": "wep", "fn": "value_to_wep", "arg": 99, "expected": "Highly likely/Almost Certain"})
    run.part.sample({"scale": "admiralty_credibility", "fn": "admiralty_credibility_to_value", "arg": "6 - Truth cannot be judged", "expected": "ValueError"})
    run.part.sample({"scale": "zero_ten", "fn": "value_to_zero_ten", "arg": -200, "expected": "ValueError"})
    o = run.part.outcomes
    run.require(o["value-converted"] == 5 * 101, "all 505 in-range conversions observed")
    run.require(o["value-refused"] == 5 * (HI - LO + 1 - 101), "all out-of-range values observed refused")
    run.require(o["label-converted"] == sum(len(t) for t in TABLES.values()), "every label converted")
    run.require(o["sequence:same"] + o["sequence:DIFFERS"] > 100000, "call pairs executed")
