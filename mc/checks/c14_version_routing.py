"""C14 - A requested spec version is honoured everywhere and never alters strictness.

DEV-mode differential enumeration: every public entry point that takes `version` (parse, dict_to_stix2, parse_observable, MemoryStore /
MemorySource / MemorySink construction, add and load_from_file, FileSystemSource get / all_versions / query over raw files,
FileSystemSink / FileSystemStore add) x every type x content version {2.0, 2.1} x version argument {None, 2.0, 2.1} x identifier class
{UUIDv4, UUIDv1, nil UUID, non-RFC-4122 variant, malformed} x allow_custom {False, store default}.
Oracle: outcome(entry point) == outcome(stix2.parse(content, allow_custom, version=version)), where an outcome is the class of the object
obtained back or a refusal; with no version named, the library's own serialization of a version-V object is recognised as V everywhere.
"""
import copy
import json
import os
import shutil

from mc import env
from mc.spec import gen, harness, model

ID = "C14"
IDS = {"uuid4": "3f7f0c5f-5d54-4292-94ea-ec1e1952be01", "uuid1": "e1d2f3a4-5b6c-11ea-8d7e-0123456789ab", "nil": "00000000-0000-0000-0000-000000000000",
       "ncs-variant": "3f7f0c5f-5d54-4292-14ea-ec1e1952be01", "35-chars": "3f7f0c5f-5d54-4292-94ea-ec1e1952be0"}
VERSIONS = [None, "2.0", "2.1"]


class Scratch(object):
    inst = None

    def __init__(self):
        self.dir = env.scratch_dir("c14")
        self.pid = os.getpid()
        self.n = 0
        import atexit
        atexit.register(shutil.rmtree, self.dir, True)

    def fresh(self):
        self.n += 1
        d = os.path.join(self.dir, "d%d" % self.n)
        os.makedirs(d)
        return d

    @classmethod
    def get(cls):
        if cls.inst is None or cls.inst.pid != os.getpid():
            cls.inst = Scratch()
        return cls.inst


def outcome(fn):
    """('class', qualified class name) | ('refused', None) | ('dict', None) | ('absent', None)"""
    try:
        r = fn()
    except Exception as e:
        return ("refused", None), e
    if r is None:
        return ("absent", None), None
    if isinstance(r, list):
        if not r:
            return ("absent", None), None
        r = r[0]
    if isinstance(r, dict):
        return ("dict", None), None
    name = type(r).__module__.replace("stix2.", "") + "." + type(r).__name__
    if hasattr(r, "get") and r.get("type") != "bundle":        # (a bundle may hold members of either version; the members of any other object are of the object's own version)
        other = sorted(n for n in nested_classes(r) if n.split(".")[0] in ("v20", "v21") and n.split(".")[0] != name.split(".")[0])
        if other:
            name += "{contains %s}" % ",".join(other)
    return ("class", name), None


def nested_classes(v, acc=None, top=True):
    import collections.abc
    from stix2.base import _STIXBase
    acc = set() if acc is None else acc
    if isinstance(v, _STIXBase) and not top:
        acc.add(type(v).__module__.replace("stix2.", "").split(".")[0] + "." + type(v).__name__)
    if isinstance(v, collections.abc.Mapping):
        for x in v.values():
            nested_classes(x, acc, False)
    elif isinstance(v, (list, tuple)):
        for x in v:
            nested_classes(x, acc, False)
    return acc


def write_raw(d, j):
    """the file layout the filesystem store reads: <type>/<id>/<modified>.json or <type>/<id>.json"""
    tdir = os.path.join(d, j["type"])
    if "modified" in j:
        odir = os.path.join(tdir, j["id"])
        os.makedirs(odir, exist_ok=True)
        path = os.path.join(odir, "20160512081727000.json")
    else:
        os.makedirs(tdir, exist_ok=True)
        path = os.path.join(tdir, j["id"] + ".json")
    with open(path, "w") as f:
        json.dump(j, f)


def sink_content(sink):
    """what a MemorySink holds (it has no read API): the object, or the latest version of its family"""
    if not sink._data:
        return None
    v = list(sink._data.values())[0]
    return getattr(v, "latest_version", v)


def entry_points(j, version, allow, is_observable_type):
    """(name, callable) -> object / list / None ; `allow` None = the entry point's own default"""
    import stix2
    from stix2 import FileSystemSink, FileSystemSource, FileSystemStore, MemorySink, MemorySource, MemoryStore
    from stix2.parsing import dict_to_stix2
    sc = Scratch.get()
    kw = {} if allow is None else {"allow_custom": allow}
    J = lambda: copy.deepcopy(j)
    id_ = j.get("id")
    eps = []
    eps.append(("dict_to_stix2", lambda: dict_to_stix2(J(), version=version, **kw)))
    # the wrappers around the parser
    from stix2 import Environment
    eps.append(("Environment.parse(version=)", lambda: Environment().parse(J(), version=version, **kw)))
    eps.append(("Environment.parse(text, version=)", lambda: Environment().parse(json.dumps(j), version=version, **kw)))
    eps.append(("parse(text)", lambda: stix2.parse(json.dumps(j), version=version, **kw)))
    if is_observable_type:
        eps.append(("parse_observable", lambda: stix2.parse_observable(J(), version=version, **kw)))
    if id_ is None or j.get("type") == "bundle":
        return eps          # stores unpack bundles (they store the members, not the bundle): parser entry points only

    def back(store):
        r = store.query([])
        return r

    def ms_ctor():
        s = MemoryStore(J(), version=version, **kw)
        return back(s)
    eps.append(("MemoryStore(data, version=)", ms_ctor))

    def msrc_ctor():
        s = MemorySource(J(), version=version, **kw)
        return back(s)
    eps.append(("MemorySource(data, version=)", msrc_ctor))

    def msink_ctor():
        s = MemorySink(J(), version=version, **kw)
        return sink_content(s)
    eps.append(("MemorySink(data, version=)", msink_ctor))

    def ms_add():
        s = MemoryStore(**kw)
        s.add(J(), version=version)
        return back(s)
    eps.append(("MemoryStore.add(version=)", ms_add))

    def ms_add_list():
        s = MemoryStore(**kw)
        s.add([J()], version=version)
        return back(s)
    eps.append(("MemoryStore.add([..], version=)", ms_add_list))

    def msink_add():
        s = MemorySink(**kw)
        s.add(J(), version=version)
        return sink_content(s)
    eps.append(("MemorySink.add(version=)", msink_add))

    if version is None:
        # a version named at CONSTRUCTION (with no data) says nothing about later calls that name none: those detect, as a direct parse does
        def later_call(cls, w, how):
            def f():
                s = cls(version=w, **kw)
                if how == "add":
                    s.add(J())
                else:
                    d = sc.fresh()
                    p = os.path.join(d, "in.json")
                    with open(p, "w") as fh:
                        json.dump(j, fh)
                    s.load_from_file(p)
                return sink_content(s) if cls is MemorySink else back(s)
            return f
        for w in ("2.0", "2.1"):
            eps.append(("MemoryStore(version=%s).add()" % w, later_call(MemoryStore, w, "add")))
            eps.append(("MemorySink(version=%s).add()" % w, later_call(MemorySink, w, "add")))
            eps.append(("MemoryStore(version=%s).load_from_file()" % w, later_call(MemoryStore, w, "load")))
            eps.append(("MemorySource(version=%s).load_from_file()" % w, later_call(MemorySource, w, "load")))

    def load_file(cls):
        def f():
            d = sc.fresh()
            p = os.path.join(d, "in.json")
            with open(p, "w") as fh:
                json.dump(j, fh)
            s = cls(**kw)
            s.load_from_file(p, version=version)
            return s.query([])
        return f
    # the same content inside a bundle ENVELOPE that states its own spec_version (or none): the version named on the call decides, not the envelope
    for env_sv in (None, "2.0", "2.1"):
        bj = {"type": "bundle", "id": "bundle--3f7f0c5f-5d54-4292-94ea-ec1e1952be0c", "objects": [copy.deepcopy(j)]}
        if env_sv:
            bj["spec_version"] = env_sv
        tag = "[bundle envelope spec_version=%s]" % env_sv

        def b_add(cls, bj=bj):
            def f():
                s = cls(**kw)
                s.add(copy.deepcopy(bj), version=version)
                return back(s) if cls is MemoryStore else sink_content(s)
            return f
        eps.append(("MemoryStore.add(version=)" + tag, b_add(MemoryStore)))
        eps.append(("MemorySink.add(version=)" + tag, b_add(MemorySink)))
        eps.append(("MemorySource(data, version=)" + tag, lambda bj=bj: back(MemorySource(copy.deepcopy(bj), version=version, **kw))))

        def b_load(bj=bj):
            d = sc.fresh()
            p = os.path.join(d, "in.json")
            with open(p, "w") as fh:
                json.dump(bj, fh)
            s = MemoryStore(**kw)
            s.load_from_file(p, version=version)
            return s.query([])
        eps.append(("MemoryStore.load_from_file(version=)" + tag, b_load))
    eps.append(("MemoryStore.load_from_file(version=)", load_file(MemoryStore)))
    eps.append(("MemorySource.load_from_file(version=)", load_file(MemorySource)))
    import re
    # the directory layout can only address ids of UUID shape (a malformed id cannot name a version directory)
    addressable = isinstance(id_, str) and isinstance(j.get("type"), str) and re.match(r"^[a-z0-9-]+--[0-9a-f]{8}-[0-9a-f]{4}-[0-9a-f]{4}-[0-9a-f]{4}-[0-9a-f]{12}\Z", id_)
    if addressable:
        def fs_read(method):
            def f():
                d = sc.fresh()
                write_raw(d, j)
                src = FileSystemSource(d, **kw)
                if method == "get":
                    return src.get(id_, version=version)
                if method == "all_versions":
                    return src.all_versions(id_, version=version)
                return src.query([], version=version)
            return f
        for m in ("get", "all_versions", "query"):
            eps.append(("FileSystemSource.%s(version=)" % m, fs_read(m)))

        # HISTORY on one directory: the same unchanged file read first under ANOTHER version argument (through the same source object, or through another one on the same
        # directory), then under this one - the later answer is the one judged
        def fs_reread(method, v0, same_object):
            def f():
                d = sc.fresh()
                write_raw(d, j)
                src = FileSystemSource(d, **kw)
                call = lambda s, v: s.get(id_, version=v) if method == "get" else s.all_versions(id_, version=v) if method == "all_versions" else s.query([], version=v)
                for warm in ((lambda: call(src, v0)), (lambda: src.query([], version=v0))):
                    try:
                        warm()
                    except Exception:
                        pass
                return call(src if same_object else FileSystemSource(d, **kw), version)
            return f
        for v0 in (None, "2.0", "2.1"):
            if v0 != version:
                for m in ("get", "all_versions", "query"):
                    for same in (True, False):
                        eps.append(("FileSystemSource.%s(version=)[after-%s-read-it-with-version=%s]" % (m, "the-same-source" if same else "another-source", v0), fs_reread(m, v0, same)))

        if "modified" in j:
            # the older on-disk layout (<type>/<id>.json for a versioned object) next to a sibling kept in the current layout
            def fs_legacy(method):
                def f():
                    from stix2 import Filter
                    d = sc.fresh()
                    sib = dict(copy.deepcopy(j), id="%s--3f7f0c5f-5d54-4292-94ea-ec1e1952beff" % j["type"])
                    write_raw(d, sib)
                    with open(os.path.join(d, j["type"], id_ + ".json"), "w") as fh:
                        json.dump(j, fh)
                    src = FileSystemSource(d, **kw)
                    if method == "get":
                        return src.get(id_, version=version)
                    if method == "all_versions":
                        return src.all_versions(id_, version=version)
                    return src.query([Filter("id", "=", id_)], version=version)
                return f
            for m in ("get", "all_versions", "query"):
                eps.append(("FileSystemSource.%s(version=)[legacy-layout]" % m, fs_legacy(m)))

        if version is None:
            # federation in front of the stores (no version can be named there: whatever the composite hands down must not end up in the version slot)
            from stix2 import CompositeDataSource, Filter

            def composite(kind, method, with_filter):
                def f():
                    if kind == "fs":
                        d = sc.fresh()
                        write_raw(d, j)
                        src = FileSystemSource(d, **kw)
                    else:
                        src = MemorySource(J(), **kw)
                    cds = CompositeDataSource()
                    cds.add_data_source(src)
                    if with_filter:
                        cds.filters.add(Filter("type", "=", j["type"]))
                    tgt = Environment(source=cds) if method.startswith("env.") else cds
                    m = method.split(".")[-1]
                    return tgt.get(id_) if m == "get" else tgt.all_versions(id_) if m == "all_versions" else tgt.query([Filter("id", "=", id_)])
                return f
            for kind in ("fs", "mem"):
                for method in ("get", "all_versions", "query", "env.get"):
                    for wf in (False, True):
                        eps.append(("Composite(%s%s).%s" % (kind, "+filter" if wf else "", method), composite(kind, method, wf)))

        def fstore_get():
            d = sc.fresh()
            write_raw(d, j)
            return FileSystemStore(d, **kw).get(id_, version=version)
        eps.append(("FileSystemStore.get(version=)", fstore_get))

    def fs_sink(form):
        def f():
            d = sc.fresh()
            sink = FileSystemSink(d, **kw)
            sink.add(J() if form == "dict" else json.dumps(j) if form == "text" else [J()], version=version)
            files = [os.path.join(dp, x) for dp, dn, fn in os.walk(d) for x in fn]
            if not files:
                return None
            with open(files[0]) as fh:
                return ("written", json.load(fh))
        return f
    for form in ("dict", "text", "list"):
        eps.append(("FileSystemSink.add(%s, version=)" % form, fs_sink(form)))
    return eps


def run_envelopes(case, part):
    """the bundle ENVELOPE handed to a file-system sink under a named version is judged like a direct parse of that envelope under that version (accepted / refused);
    a refused envelope leaves nothing written"""
    import stix2
    from stix2 import FileSystemSink
    env.reset()
    sc = Scratch.get()
    member = {"type": "identity", "id": "identity--3f7f0c5f-5d54-4292-94ea-ec1e1952be21", "created": "2020-01-01T00:00:00.000Z", "modified": "2020-01-01T00:00:00.000Z", "name": "n", "identity_class": "individual"}
    envs = {"id-v4": {"id": "bundle--3f7f0c5f-5d54-4292-94ea-ec1e1952be22"}, "id-v1": {"id": "bundle--e1d2f3a4-5b6c-11ea-8d7e-0123456789ab"}, "id-malformed": {"id": "bundle--zzz"},
            "id-of-another-type": {"id": "identity--3f7f0c5f-5d54-4292-94ea-ec1e1952be22"}, "no-id": {}, "unknown-property": {"id": "bundle--3f7f0c5f-5d54-4292-94ea-ec1e1952be22", "foo": 1},
            "spec_version-2.0": {"id": "bundle--3f7f0c5f-5d54-4292-94ea-ec1e1952be22", "spec_version": "2.0"}, "spec_version-2.1": {"id": "bundle--3f7f0c5f-5d54-4292-94ea-ec1e1952be22", "spec_version": "2.1"},
            "spec_version-junk": {"id": "bundle--3f7f0c5f-5d54-4292-94ea-ec1e1952be22", "spec_version": "9.9"}}
    for ename, extra in envs.items():
        for msv in (None, "2.1"):
            m = dict(member, **({"spec_version": msv} if msv else {}))
            bj = dict({"type": "bundle", "objects": [m]}, **extra)
            for version in (None, "2.0", "2.1"):
                for allow in (False, True):
                    try:
                        stix2.parse(copy.deepcopy(bj), version=version, allow_custom=allow)
                        want = "accepted"
                    except Exception:
                        want = "refused"
                    for form in ("dict", "text", "list-of-dict"):
                        part.evaluations += 1
                        part.transitions += 1
                        d = sc.fresh()
                        sink = FileSystemSink(d, allow_custom=allow)
                        arg = copy.deepcopy(bj) if form == "dict" else json.dumps(bj) if form == "text" else [copy.deepcopy(bj)]
                        try:
                            sink.add(arg, version=version)
                            got = "accepted"
                        except Exception as e:
                            got = "refused"
                        written = any(fn for _, _, fn in os.walk(d))
                        part.state(("envelope", ename, msv, version, allow, form, got), nontrivial=True)
                        part.outcome("envelope:" + got)
                        c = {"kind": "envelopes", "envelope": ename, "member_spec_version": msv, "version": version, "allow_custom": allow, "form": form}
                        if got != want:
                            part.violation("C14/envelope-differs-from-direct-parse/%s/%s" % (ename, "named=%s" % version), "a bundle envelope handed to a file-system sink is not judged like a direct parse under the same version", c, want, got)
                        elif got == "refused" and written:
                            part.violation("C14/refused-envelope-written/%s" % ename, "a refused bundle left files behind", c, "nothing written", "files written")


def run_case(case, part):
    if case.get("kind") == "envelopes":
        return run_envelopes(case, part)
    import stix2
    env.reset()
    cver, key = case["content_version"], case["key"]
    g = gen.Gen(cver)
    base = g.minimal(key)
    if case.get("member_claims"):
        # an observed-data container whose embedded member says it is of the OTHER version
        base.pop("object_refs", None)
        member = {"type": "file", "name": "f.txt", "spec_version": case["member_claims"]}
        if case["member_claims"] == "2.1":
            member["id"] = "file--3f7f0c5f-5d54-4292-94ea-ec1e1952be0c"
        base["objects"] = {"0": member}
    sp = model.spec(cver)
    is_obs = sp.classes[key]["category"] == "observables"
    part.state((cver, key, case.get("member_claims")), nontrivial=True)
    own_text = None
    for idc, u in IDS.items():
        j = copy.deepcopy(base)
        if "id" in j:
            j["id"] = "%s--%s" % (j["type"], u)
        elif idc != "uuid4":
            continue
        for version in VERSIONS:
            for allow in (False, None):
                ref, _ = outcome(lambda: stix2.parse(copy.deepcopy(j), version=version, **({} if allow is None else {"allow_custom": allow})))
                if is_obs and "id" not in j:
                    ref, _ = outcome(lambda: stix2.parse_observable(copy.deepcopy(j), version=version, **({} if allow is None else {"allow_custom": allow})))
                part.outcome("reference:" + ref[0])
                # ABSOLUTE clauses (the differential below cannot see a defect that moves the reference together with the entry points):
                # a named version yields a class of THAT version's module or nothing; identifiers that 2.0 forbids are refused whenever 2.0 is named
                if version is not None and ref[0] == "class" and not ref[1].startswith("v%s." % version.replace(".", "")):
                    part.violation("C14/class-of-another-version/parse/named=%s" % version, "a parse that names a version returns a class of the other version",
                                   dict(case, id_class=idc, version=version, allow_custom=allow, entry="parse"), "v%s.* or a refusal" % version.replace(".", ""), ref[1])
                if version == "2.0" and idc != "uuid4" and "id" in j and ref[0] == "class":
                    part.violation("C14/named-2.0-accepts-non-v4-identifier/%s" % idc, "naming version 2.0 does not enforce the 2.0 identifier rule", dict(case, id_class=idc, version=version, allow_custom=allow, entry="parse"),
                                   "refused", ref[1])
                if ref[0] == "class" and "{contains" in ref[1]:
                    part.violation("C14/member-of-another-version/parse/named=%s" % version, "the members of a parsed object are not all of the object's own version",
                                   dict(case, id_class=idc, version=version, allow_custom=allow, entry="parse"), "one version throughout, or a refusal", ref[1])
                if case.get("member_claims") and version in (None, cver) and idc == "uuid4" and ref[0] != "refused":
                    part.violation("C14/member-claiming-another-version-accepted/parse/named=%s" % version, "a strict parse accepts a container whose member is content of the other version",
                                   dict(case, id_class=idc, version=version, allow_custom=allow, entry="parse"), "refused", list(ref))
                known20 = key in model.spec("2.0").classes
                if version == "2.0" and not known20 and ref[0] == "class":
                    part.violation("C14/named-version-does-not-know-the-type/parse", "a type that does not exist in the named version is parsed with another version's class",
                                   dict(case, id_class=idc, version=version, allow_custom=allow, entry="parse"), "refused (strict) / plain dict (permissive)", ref[1])
                for name, fn in entry_points(j, version, allow, is_obs):
                    part.evaluations += 1
                    part.transitions += 1
                    got, err = outcome(fn)
                    exp = ref
                    # the stores' own default is allow_custom=True: compare them with the permissive reference
                    if allow is None and not name.startswith(("dict_to_stix2", "parse", "Environment.parse")) and not name.startswith("FileSystemSink"):
                        exp, _ = outcome(lambda: stix2.parse(copy.deepcopy(j), version=version, allow_custom=True))
                    if name.startswith("FileSystemSink"):
                        # judged on (accepted?, what was written) so that the sink is not judged through the source
                        if allow is None:
                            exp, _ = outcome(lambda: stix2.parse(copy.deepcopy(j), version=version, allow_custom=False))
                        if got[0] == "refused" or exp[0] == "refused":
                            same = got[0] == exp[0] or (got[0] == "absent" and exp[0] == "refused")
                        else:
                            same = True
                        if not same:
                            part.violation("C14/differs-from-direct-parse/%s/version-arg=%s" % (name.split("(")[0], version), "a store entry point accepts or refuses differently from a direct parse with the same version",
                                           dict(case, id_class=idc, version=version, allow_custom=allow, entry=name), exp[0], got[0])
                        continue
                    if version is not None and got[0] == "class" and not got[1].startswith("v%s." % version.replace(".", "")):
                        part.violation("C14/class-of-another-version/%s/named=%s" % (name.split("(")[0], version), "an entry point that was given a version returns a class of the other version",
                                       dict(case, id_class=idc, version=version, allow_custom=allow, entry=name), "v%s.* or a refusal" % version.replace(".", ""), got[1])
                    if got[0] == "class" and "{contains" in got[1]:
                        part.violation("C14/member-of-another-version/%s/named=%s" % (name.split("(")[0], version), "the members of an object an entry point returns are not all of the object's own version",
                                       dict(case, id_class=idc, version=version, allow_custom=allow, entry=name), "one version throughout, or a refusal", got[1])
                    if got[0] == "absent" and exp[0] == "refused":
                        got = ("refused", None)      # a read path that skips / hides a file it cannot parse is a refusal too
                    if got != exp and not (got[0] == "refused" and exp[0] == "refused"):
                        kind = "class" if got[0] == "class" and exp[0] == "class" else "strictness" if "refused" in (got[0], exp[0]) else "other"
                        part.violation("C14/differs-from-direct-parse/%s/%s/version-arg=%s" % (name.split("(")[0], kind, "named" if version else "none"),
                                       "an entry point that was given a version interprets the content differently from stix2.parse(..., version=)",
                                       dict(case, id_class=idc, version=version, allow_custom=allow, entry=name), list(exp), list(got) + ([str(err)[:100]] if err else []))
    # the identifier rule of the named version applies to every identifier IN the content, not only to the object's own id: references at the top level and inside
    # the nested helper types (granular markings)
    if cver == "2.0" and "id" in base and base.get("type") != "bundle" and "created_by_ref" in sp.classes[key]["properties"]:
        from stix2 import MemoryStore
        for idc, u in IDS.items():
            if idc == "uuid4":
                continue
            for where, put in (("created_by_ref", lambda j: dict(j, created_by_ref="identity--" + u)), ("object_marking_refs", lambda j: dict(j, object_marking_refs=["marking-definition--" + u])),
                               ("granular_markings.marking_ref", lambda j: dict(j, granular_markings=[{"marking_ref": "marking-definition--" + u, "selectors": ["type"]}]))):
                j = put(copy.deepcopy(base))
                for version in (None, "2.0"):
                    for ename, fn in (("parse", lambda: stix2.parse(copy.deepcopy(j), version=version, allow_custom=False)), ("parse(allow_custom)", lambda: stix2.parse(copy.deepcopy(j), version=version, allow_custom=True)),
                                      ("MemoryStore.add", lambda: MemoryStore(allow_custom=False).add(copy.deepcopy(j), version=version) or "added")):
                        part.evaluations += 1
                        part.transitions += 1
                        got, err = outcome(fn)
                        part.outcome("inner-identifier:" + got[0])
                        if got[0] != "refused":
                            part.violation("C14/named-2.0-accepts-non-v4-identifier/%s/in-%s" % (idc, where), "2.0 content (named or detected) is accepted with an identifier that 2.0 forbids inside it",
                                           dict(case, id_class=idc, where=where, version=version, entry=ename), "refused", list(got))
    # SEQUENCES on one store: the same content added twice under every ordered pair of version arguments; the second call must be as strict as a direct parse
    # with ITS version argument, whatever the store already holds
    from stix2 import MemorySink, MemorySource, MemoryStore
    for idc, u in IDS.items():
        if "id" not in base or base.get("type") == "bundle":
            break
        j = copy.deepcopy(base)
        j["id"] = "%s--%s" % (j["type"], u)
        refs = {v: outcome(lambda: stix2.parse(copy.deepcopy(j), version=v, allow_custom=False))[0] for v in VERSIONS}
        bj = {"type": "bundle", "id": "bundle--3f7f0c5f-5d54-4292-94ea-ec1e1952be0b", "objects": [copy.deepcopy(j)]}
        for v1 in VERSIONS:
            for v2 in VERSIONS:
                for sname, mk, add in (("MemoryStore.add", lambda: MemoryStore(allow_custom=False), lambda s, v: s.add(copy.deepcopy(j), version=v)),
                                       ("MemorySink.add", lambda: MemorySink(allow_custom=False), lambda s, v: s.add(copy.deepcopy(j), version=v)),
                                       ("MemoryStore.add(bundle-dict)", lambda: MemoryStore(allow_custom=False), lambda s, v: s.add(copy.deepcopy(bj), version=v))):
                    part.evaluations += 1
                    part.transitions += 2
                    st = mk()
                    first, _ = outcome(lambda: add(st, v1) or 1)
                    second, err = outcome(lambda: add(st, v2) or 1)
                    want = "refused" if refs[v2][0] == "refused" else "accepted"
                    got = "refused" if second[0] == "refused" else "accepted"
                    part.outcome("second-add:" + got)
                    if got != want and not (bj is not None and sname.endswith("(bundle-dict)") and cver == "2.0" and v2 == "2.1" and False):
                        part.violation("C14/second-add-differs-from-direct-parse/%s/%s" % (sname, "first-accepted" if first[0] != "refused" else "first-refused"),
                                       "the second add of the same content is not as strict as a direct parse with the version named on that call",
                                       dict(case, id_class=idc, sequence=[v1, v2], entry=sname), want, got)
    # strictness must not depend on what was parsed before: the same id first goes through the relaxed ("interoperability") mode, then
    # the strict outcome is recomputed and must be what it was in the cold state
    for idc, u in IDS.items():
        if "id" not in base:
            break
        j = copy.deepcopy(base)
        j["id"] = "%s--%s" % (j["type"], u)
        for version in VERSIONS:
            cold, _ = outcome(lambda: stix2.parse(copy.deepcopy(j), version=version, allow_custom=False))
            outcome(lambda: stix2.parse(copy.deepcopy(j), version=version, allow_custom=False, interoperability=True))
            outcome(lambda: stix2.parse_observable(copy.deepcopy(j), version=version, allow_custom=False, interoperability=True) if is_obs else None)
            warm, _ = outcome(lambda: stix2.parse(copy.deepcopy(j), version=version, allow_custom=False))
            part.evaluations += 1
            part.transitions += 3
            if warm != cold:
                part.violation("C14/strictness-depends-on-history", "a strict parse answers differently after the same content went through the relaxed mode",
                               dict(case, id_class=idc, version=version), list(cold), list(warm))
    # no version named: the library's own output for version V is recognised as V by every entry point
    try:
        obj = stix2.parse(copy.deepcopy(base), version=cver, allow_custom=False) if not (is_obs and cver == "2.0") else stix2.parse_observable(copy.deepcopy(base), version="2.0")
    except Exception:
        return
    own = json.loads(obj.serialize())
    want = ("class", type(obj).__module__.replace("stix2.", "") + "." + type(obj).__name__)
    for name, fn in entry_points(own, None, None, is_obs):
        if name.startswith("FileSystemSink"):
            continue
        part.evaluations += 1
        part.transitions += 1
        got, err = outcome(fn)
        part.outcome("own-output:" + got[0])
        if got != want:
            part.violation("C14/own-output-not-recognised/%s" % name.split("(")[0], "content the library produced for one spec version is not recognised as that version when no version is named",
                           dict(case, entry=name), list(want), list(got))


def replay(case, part):
    if case.get("kind") == "envelopes":
        return run_envelopes({"kind": "envelopes"}, part)
    run_case({k: case[k] for k in ("content_version", "key", "member_claims") if k in case}, part)


def run(run):
    cases = []
    for cver in ("2.0", "2.1"):
        g = gen.Gen(cver)
        for key in g.top_keys():
            cases.append({"content_version": cver, "key": key})
    cases.append({"kind": "envelopes"})
    cases.append({"content_version": "2.0", "key": "objects:observed-data", "member_claims": "2.1"})
    cases.append({"content_version": "2.1", "key": "objects:observed-data", "member_claims": "2.0"})
    run.mode = "DEV (differential)"
    run.rule = ("every type x content version x 5 identifier classes x version argument {None, 2.0, 2.1} x allow_custom {False, default} x up to 19 entry points; states = distinct "
                "(content version, type); every case is a comparison with a direct stix2.parse(..., version=); + the older on-disk layout next to the current one; + the same content "
                "added twice to one memory store / sink under every ordered pair of version arguments")
    run.bound = {"types": len(cases), "id_classes": list(IDS), "version_arguments": VERSIONS, "entry_points": 19}
    run.assumptions += ["minimal instances from the frozen spec model", "stix2.parse(content, allow_custom, version=version) is the reference (C02/C03 judge the parser itself)"]
    run.pmap(run_case, cases, order_independent=True)
    run.part.sample({"content_version": "2.0", "key": "objects:identity", "id_class": "uuid1", "version": "2.1", "entry": "MemoryStore.add(version=)",
                     "expect": "v21.Identity (the 2.0-style dict is also a valid 2.1 identity; UUIDv1 is legal in 2.1)"})
    run.part.sample({"content_version": "2.1", "key": "objects:campaign", "id_class": "nil", "version": "2.1", "entry": "FileSystemSource.get(version=)", "expect": "refused, as the direct parse refuses a non-RFC-4122 UUID"})
    o = run.part.outcomes
    run.require(o.get("reference:class", 0) > 500 and o.get("reference:refused", 0) > 500, "both acceptance and refusal references observed")
    run.require(o.get("own-output:class", 0) > 500, "own-output recognition executed")
