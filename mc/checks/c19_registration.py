"""C19 - Custom type registration is exact, exclusive and version-scoped.

BFS over registration histories (depth <= 2 over the full event menu, deeper over the valid/duplicate sub-menu): kind (object, observable,
marking, extension incl. extension-definition flavours) x spec version x name menu (fresh, built-in of the same / of the other top-level
category, rule-breaking names) x property-name menu, with the registry reference model in lock-step. After EVERY event the complete
registry contents are compared with the model and every name/version of the menu is probed through parse / parse_observable /
MarkingDefinition / extensions. The process-wide registries are restored from a snapshot before each history.
"""
import collections
import copy
import json

from mc import env

ID = "C19"
UA = "3f7f0c5f-5d54-4292-94ea-ec1e1952be1"
EXTDEF = {"prop": "extension-definition--" + UA + "a", "top": "extension-definition--" + UA + "b", "newsdo": "extension-definition--" + UA + "c"}
VERSIONS = ["2.0", "2.1"]
CATS = ["objects", "observables", "markings", "extensions"]
KCAT = {"object": "objects", "observable": "observables", "marking": "markings", "extension": "extensions"}
BUILTIN_SAME = {"object": "malware", "observable": "file", "marking": "tlp", "extension": "archive-ext"}
BUILTIN_OTHER = {"object": "file", "observable": "malware"}

_SNAP = {}
_SHARED = {}


def shared_props(ver, kind="marking"):
    """ONE properties table per version shared by every registration (users do share such tables between decorators): a list of
    tuples for objects/observables (the decorators index the tuples), an OrderedDict for markings/extensions"""
    from stix2 import properties as P
    key = (ver, "list" if kind in ("object", "observable") else "dict")
    if key not in _SHARED:
        _SHARED[key] = [("prop", P.StringProperty())] if key[1] == "list" else collections.OrderedDict([("prop", P.StringProperty())])
    return _SHARED[key]


def name_menu(kind, ver):
    sfx = "-ext" if kind == "extension" else ""
    m = [("fresh-a", "x-verif-a" + sfx), ("fresh-b", "x-verif-b" + sfx), ("builtin-same", BUILTIN_SAME[kind])]
    if kind in ("object", "observable"):
        m.append(("fresh-plain", "verif-plain"))        # a valid name without the conventional x- prefix (code that keys on the prefix treats it like a specification type)
    if kind in BUILTIN_OTHER:
        m.append(("builtin-other", BUILTIN_OTHER[kind]))
    m += [("upper", "X-Verif-a" + sfx), ("underscore", "x_verif_a" + sfx), ("short", "xv"), ("long251", "x" + "a" * (250 - len(sfx)) + sfx), ("empty", ""),
          ("nonascii", "x-vérif" + sfx), ("digit", "1x-verif" + sfx), ("dhyphen", "x--verif" + sfx), ("len3", "x-a" if not sfx else "a" + sfx[:2]),
          ("len250", "x" + "a" * (249 - len(sfx)) + sfx), ("arabic-indic-digit", "x-verif-\u0663" + sfx), ("fullwidth-digit", "x-verif\uff17" + sfx),
          ("trailing-newline", "x-verif-a" + sfx + "\n")]
    if kind == "extension" and ver == "2.1":
        m.append(("noext", "x-verif-noext"))
    return m


def all_events():
    evs = []
    for kind in ("object", "observable", "marking", "extension"):
        for ver in VERSIONS:
            for label, name in name_menu(kind, ver):
                evs.append({"kind": kind, "ver": ver, "name_kind": label, "name": name, "props": "valid"})
            for pv in ("digit-prop", "ref-not-ref", "refs-not-list", "valid-ref", "upper-prop", "nonascii-lower-prop", "micro-sign-prop", "underscore-first-prop", "hyphen-prop"):
                evs.append({"kind": kind, "ver": ver, "name_kind": "fresh-a", "name": "x-verif-a" + ("-ext" if kind == "extension" else ""), "props": pv})
    for flavour in ("prop", "top"):
        evs.append({"kind": "extension", "ver": "2.1", "name_kind": "extdef-" + flavour, "name": EXTDEF[flavour], "props": "valid", "extension_type":
                    "property-extension" if flavour == "prop" else "toplevel-property-extension"})
    evs.append({"kind": "object", "ver": "2.1", "name_kind": "fresh-c+extension_name", "name": "x-verif-c", "props": "valid", "extension_name": EXTDEF["newsdo"]})
    evs.append({"kind": "object", "ver": "2.1", "name_kind": "fresh-c+extension_name2", "name": "x-verif-c", "props": "valid", "extension_name": EXTDEF["newsdo"][:-1] + "d"})
    # the implicit extension of a new type: taken extension names must be refused and must not disturb the first owner
    evs.append({"kind": "object", "ver": "2.1", "name_kind": "fresh-f+extension_name-of-c", "name": "x-verif-f", "props": "valid", "extension_name": EXTDEF["newsdo"]})
    evs.append({"kind": "observable", "ver": "2.1", "name_kind": "fresh-d+extension_name3", "name": "x-verif-d", "props": "valid", "extension_name": EXTDEF["newsdo"][:-1] + "e"})
    evs.append({"kind": "observable", "ver": "2.1", "name_kind": "fresh-e+extension_name3", "name": "x-verif-e", "props": "valid", "extension_name": EXTDEF["newsdo"][:-1] + "e"})
    evs.append({"kind": "object", "ver": "2.1", "name_kind": "fresh-h+extension_name-without-separator", "name": "x-verif-h", "props": "valid", "extension_name": "x-verif-h-ext"})
    evs.append({"kind": "observable", "ver": "2.1", "name_kind": "fresh-i+extension_name-without-separator", "name": "x-verif-i", "props": "valid", "extension_name": "x-verif-i-ext"})
    evs.append({"kind": "observable", "ver": "2.1", "name_kind": "fresh-g+extension_name-of-c", "name": "x-verif-g", "props": "valid", "extension_name": EXTDEF["newsdo"]})
    return evs


def core_events():
    return [e for e in all_events() if e["props"] == "valid" and e["name_kind"] in ("fresh-a", "fresh-b", "fresh-plain", "builtin-same", "builtin-other", "extdef-prop", "extdef-top",
                                                                                    "fresh-c+extension_name", "fresh-c+extension_name2", "fresh-f+extension_name-of-c", "fresh-d+extension_name3",
                                                                                    "fresh-e+extension_name3", "fresh-g+extension_name-of-c")]


def name_rule(name, kind, ver):
    """'valid' | 'invalid' | 'either' by the unambiguous naming rules only"""
    import re
    if kind == "extension" and name.startswith("extension-definition--"):
        return "valid" if ver == "2.1" else "either"
    if not re.match(r"^[a-z0-9-]*\Z", name) or not (3 <= len(name) <= 250):
        return "invalid"
    if name[0].isdigit() or name[0] == "-":
        return "invalid" if ver == "2.1" else "either"
    if "--" in name:
        return "either"
    if kind == "extension" and ver == "2.1" and not name.endswith("-ext"):
        return "invalid"
    return "valid"


def props_rule(pv, kind, ver):
    if pv in ("valid", "valid-ref"):
        return "valid"
    if pv in ("digit-prop", "upper-prop", "nonascii-lower-prop", "micro-sign-prop", "underscore-first-prop", "hyphen-prop"):
        return "invalid" if ver == "2.1" else "either"
    return "invalid"           # *_ref / *_refs named properties that are not reference properties


def build_props(ev):
    from stix2 import properties as P
    ver, pv = ev["ver"], ev["props"]
    if pv == "valid":
        return shared_props(ver, ev["kind"])
    if pv == "digit-prop":
        return [("prop", P.StringProperty()), ("1prop", P.StringProperty())]
    if pv == "upper-prop":
        return [("prop", P.StringProperty()), ("Prop", P.StringProperty())]
    if pv in ("nonascii-lower-prop", "micro-sign-prop", "underscore-first-prop", "hyphen-prop"):
        # 2.1 property names: a-z first, then a-z 0-9 _ only (ASCII)
        return [("prop", P.StringProperty()), ({"nonascii-lower-prop": "\u00f1ame", "micro-sign-prop": "\u00b5_value", "underscore-first-prop": "_prop", "hyphen-prop": "my-prop"}[pv], P.StringProperty())]
    if pv == "ref-not-ref":
        return [("prop", P.StringProperty()), ("foo_ref", P.StringProperty())]
    if pv == "refs-not-list":
        return [("prop", P.StringProperty()), ("foo_refs", P.ListProperty(P.StringProperty))]
    if pv == "valid-ref":
        if ev["kind"] == "observable" and ver == "2.0":
            return [("prop", P.StringProperty()), ("foo_ref", P.ObjectReferenceProperty())]
        return [("prop", P.StringProperty()), ("foo_ref", P.ReferenceProperty(valid_types="identity", spec_version=ver))]
    raise ValueError(pv)


def do_register(ev):
    import stix2
    mod = stix2.v20 if ev["ver"] == "2.0" else stix2.v21
    props = build_props(ev)
    kind = ev["kind"]

    class Body(object):
        pass
    if ev.get("extension_type"):
        Body.extension_type = ev["extension_type"]
    if kind == "object":
        if ev.get("extension_name"):
            return mod.CustomObject(ev["name"], props, extension_name=ev["extension_name"])(Body)
        return mod.CustomObject(ev["name"], props)(Body)
    if kind == "observable":
        if ev.get("extension_name"):
            return mod.CustomObservable(ev["name"], props, extension_name=ev["extension_name"])(Body)
        return mod.CustomObservable(ev["name"], props)(Body)
    if kind == "marking":
        return mod.CustomMarking(ev["name"], props)(Body)
    return mod.CustomExtension(ev["name"], props)(Body)


def registry_now():
    import stix2.registry as R
    return {(v, c): dict(R.STIX2_OBJ_MAPS[v][c]) for v in VERSIONS for c in CATS}


class Model(object):
    def __init__(self, builtin):
        self.builtin = builtin                       # (ver, cat) -> {name: cls}
        self.custom = {k: {} for k in builtin}       # (ver, cat) -> {name: cls}

    def taken(self, ver, cat, name):
        if name in self.builtin[(ver, cat)] or name in self.custom[(ver, cat)]:
            return "same-category"
        if cat in ("objects", "observables"):
            other = "observables" if cat == "objects" else "objects"
            if name in self.builtin[(ver, other)] or name in self.custom[(ver, other)]:
                return "other-toplevel-category"
        return None

    def expected(self):
        return {k: dict(self.builtin[k], **self.custom[k]) for k in self.builtin}

    def canon(self):
        return sorted((v, c, n) for (v, c), m in self.custom.items() for n in m)


MINIMAL = {
    ("2.0", "malware"): {"type": "malware", "id": "malware--3f7f0c5f-5d54-4292-94ea-ec1e1952be11", "created": "2020-01-01T00:00:00.000Z", "modified": "2020-01-01T00:00:00.000Z",
                         "name": "m", "labels": ["trojan"]},
    ("2.1", "malware"): {"type": "malware", "spec_version": "2.1", "id": "malware--" + UA + "1", "created": "2020-01-01T00:00:00.000Z", "modified": "2020-01-01T00:00:00.000Z",
                         "name": "m", "is_family": False},
}


def probe_object(name, ver, prop="prop"):
    d = {"type": name, "id": "%s--3f7f0c5f-5d54-4292-94ea-ec1e1952be15" % name, "created": "2020-01-01T00:00:00.000Z", "modified": "2020-01-01T00:00:00.000Z", prop: "v"}
    if ver == "2.1":
        d["spec_version"] = "2.1"
    return d


def probes(model, part, case, touched):
    """observable behaviour of every registered custom name (and of the built-ins) under both versions"""
    import stix2
    from stix2 import exceptions as X
    from stix2.base import _STIXBase

    def fail(key, what, exp, obs, extra=None):
        part.violation(key, what, dict(case, probe=extra), exp, obs)
    # built-in answers never change
    for ver in VERSIONS:
        part.transitions += 3
        try:
            m = stix2.parse(copy.deepcopy(MINIMAL[(ver, "malware")]), version=ver)
            want = (stix2.v20 if ver == "2.0" else stix2.v21).Malware
            if type(m) is not want:
                fail("C19/builtin-answer-changed/objects", "a built-in type no longer parses to its built-in class", want.__name__, type(m).__name__, ["malware", ver])
        except Exception as e:
            fail("C19/builtin-answer-changed/objects", "a built-in type no longer parses", "Malware", "%s: %s" % (type(e).__name__, str(e)[:120]), ["malware", ver])
        try:
            f = stix2.parse_observable({"type": "file", "name": "f"}, version=ver)
            want = (stix2.v20 if ver == "2.0" else stix2.v21).File
            if type(f) is not want:
                fail("C19/builtin-answer-changed/observables", "a built-in observable no longer parses to its built-in class", want.__name__, type(f).__name__, ["file", ver])
            if ver == "2.1":
                f2 = stix2.parse({"type": "file", "spec_version": "2.1", "id": "file--" + UA + "1", "name": "f"}, version="2.1")
                if type(f2) is not want:
                    fail("C19/builtin-answer-changed/observables-via-parse", "parse() resolves a built-in observable name to another class", want.__name__, type(f2).__name__, ["file", ver])
        except Exception as e:
            fail("C19/builtin-answer-changed/observables", "a built-in observable no longer parses", "File", "%s: %s" % (type(e).__name__, str(e)[:120]), ["file", ver])
    # every custom name of the menu under both versions
    names = set(touched)
    for (v, c), m in model.custom.items():
        names.update((c, n) for n in m)
    for cat, name in sorted(names):
        for ver in VERSIONS:
            part.transitions += 1
            cls = model.custom[(ver, cat)].get(name)
            if name in model.builtin[(ver, cat)]:
                continue
            mod = stix2.v20 if ver == "2.0" else stix2.v21
            try:
                if cat == "objects":
                    r = stix2.parse(probe_object(name, ver), version=ver, allow_custom=False)
                elif cat == "observables":
                    r = stix2.parse_observable({"type": name, "prop": "v"}, version=ver, allow_custom=False)
                elif cat == "markings":
                    md = mod.MarkingDefinition(definition_type=name, definition={"prop": "v"})
                    r = md.definition
                    if cls is not None:
                        # the name stands for EXACTLY its class: a ready-made definition of another marking class under this name is refused - or, if taken, what is
                        # written reads back as this name's class
                        others = [("statement", mod.StatementMarking(statement="s")), ("tlp", mod.TLPMarking(tlp="white"))] + \
                            [(n2, c2(prop="v")) for n2, c2 in sorted(model.custom[(ver, "markings")].items()) if n2 != name and c2 is not None and c2 is not cls]
                        for oname, inst in others[:3]:
                            part.transitions += 1
                            try:
                                md2 = mod.MarkingDefinition(definition_type=name, definition=inst)
                            except (X.STIXError, ValueError, TypeError):
                                part.outcome("foreign-definition:refused")
                                continue
                            try:
                                back = stix2.parse(md2.serialize(), version=ver, allow_custom=False)
                                okb = isinstance(back.definition, cls)
                                why = type(back.definition).__name__
                            except Exception as e:
                                okb, why = False, "%s: %s" % (type(e).__name__, str(e)[:120])
                            part.outcome("foreign-definition:" + ("consistent" if okb else "INCONSISTENT"))
                            if not okb:
                                fail("C19/not-exact/markings/foreign-definition-instance-accepted", "a marking-definition takes a ready-made definition of another marking class under this name, and what it writes does not read back",
                                     "refused, or reads back as %s" % cls.__name__, why, [cat, name, ver, oname])
                else:
                    flavour = getattr(cls, "extension_type", None) if cls is not None else None
                    if flavour == "toplevel-property-extension":
                        fobj = mod.File(name="f", prop="v", extensions={name: {"extension_type": flavour}}, allow_custom=False)
                    elif flavour in ("new-sdo", "new-sco", "new-sro"):
                        continue
                    else:
                        fobj = mod.File(name="f", extensions={name: {"prop": "v"}}, allow_custom=False)
                    r = fobj.extensions[name]
                got = type(r) if isinstance(r, _STIXBase) else "dict"
                err = None
            except (X.STIXError, ValueError, TypeError) as e:
                got, err = None, e
            if cat == "objects" and not name.startswith("x-") and name_rule(name, "object", ver) == "valid" and not any(name in b for b in model.builtin.values()):
                # REFERENCES to the name from content of this version: a type registered for this version is a known type here, one registered for the other version only is not
                # (names with the x- prefix are custom content for references whatever the registry says: not asserted)
                for rk, mk in (("relationship.source_ref", lambda ac: mod.Relationship(source_ref=name + "--" + UA + "7", target_ref="malware--" + UA + "8", relationship_type="uses", allow_custom=ac)),
                               ("sighting.sighting_of_ref", lambda ac: mod.Sighting(sighting_of_ref=name + "--" + UA + "7", allow_custom=ac)),
                               ("parsed relationship.target_ref", lambda ac: stix2.parse(dict(json.loads(mod.Relationship(source_ref="malware--" + UA + "8", target_ref="malware--" + UA + "8", relationship_type="uses").serialize()),
                                                                                              target_ref=name + "--" + UA + "7"), version=ver, allow_custom=ac))):
                    reg_obj = cls is not None
                    reg_obs = model.custom[(ver, "observables")].get(name) is not None
                    if rk.startswith("sighting") and reg_obs and not reg_obj:
                        continue            # a sighting is of an SDO; what a registered custom OBSERVABLE name is there is not stated
                    known = reg_obj or (reg_obs and not rk.startswith("sighting"))
                    part.transitions += 2
                    try:
                        mk(False)
                        strict = "accepted"
                    except (X.STIXError, ValueError, TypeError) as e:
                        strict = "refused"
                    try:
                        flag = mk(True).has_custom
                    except (X.STIXError, ValueError, TypeError) as e:
                        flag = "refused: %s" % type(e).__name__
                    want = ("accepted", False) if known else ("refused", True)
                    part.outcome("reference-probe:" + strict)
                    if (strict, flag) != want:
                        fail("C19/not-version-scoped/reference-to-%s-name/%s" % ("registered" if known else "unregistered", rk.split(".")[0].split(" ")[-1]),
                             "a reference to a custom type name is not judged by the registry of the referring object's own spec version", list(want), [strict, flag], [cat, name, ver, rk])
            if cat == "observables" and ver == "2.1" and cls is not None and err is None:
                # the same name through parse() of a document that carries an id but no spec_version (optional on observables) and with no version named: detection must know the name
                for how, mk in (("parse(dict)", lambda: stix2.parse({"type": name, "id": "%s--%s9" % (name, UA), "prop": "v"}, allow_custom=False)),
                                ("parse(text)", lambda: stix2.parse(json.dumps({"type": name, "id": "%s--%s9" % (name, UA), "prop": "v"}), allow_custom=False)),
                                ("bundle-member", lambda: stix2.parse({"type": "bundle", "id": "bundle--%s9" % UA, "objects": [{"type": name, "id": "%s--%s9" % (name, UA), "prop": "v"}]}, allow_custom=False).objects[0])):
                    part.transitions += 1
                    try:
                        r2 = mk()
                        g2 = type(r2).__name__ if isinstance(r2, _STIXBase) else "dict"
                    except (X.STIXError, ValueError, TypeError) as e:
                        r2, g2 = None, "%s: %s" % (type(e).__name__, str(e)[:100])
                    if type(r2) is not cls:
                        fail("C19/not-exact/observables/registered-name-not-detected-without-spec_version", "a registered 2.1 observable name is not recognised when the document has an id but no spec_version",
                             cls.__name__, g2, [cat, name, ver, how])
            if cls is not None:
                part.outcome("probe-registered:" + ("resolves" if got is cls else "wrong"))
                if got is not cls:
                    fail("C19/not-exact/%s/registered-name-does-not-resolve" % cat, "a registered name does not parse to the registered class for its version", cls.__name__,
                         (got.__name__ if isinstance(got, type) else got) if err is None else "%s: %s" % (type(err).__name__, str(err)[:150]), [cat, name, ver])
                elif cat in ("objects", "observables"):
                    out = json.loads(r.serialize())
                    extra = sorted(set(out) - {"type", "id", "created", "modified", "spec_version", "prop", "extensions"})
                    if extra or out.get("prop") != "v":
                        fail("C19/round-trip/%s" % cat, "an object of a registered custom type does not serialize to what was parsed", "prop=v, no other properties", out, [cat, name, ver])
                    if cat == "objects":
                        # the common properties of a custom object follow the rules of ITS spec version, like a built-in type: timestamps keep / cut their digits the
                        # same way, and a new version made within the same millisecond is newer
                        sub = "2020-01-01T00:00:00.123456Z"
                        try:
                            o2 = stix2.parse(dict(probe_object(name, ver), created=sub, modified=sub), version=ver, allow_custom=False)
                            w2 = json.loads(o2.serialize())
                            ref_cls = (stix2.v20 if ver == "2.0" else stix2.v21).Identity
                            wr = json.loads(ref_cls(name="n", identity_class="individual", created=sub, modified=sub).serialize())
                            got_t, want_t = [w2.get("created"), w2.get("modified")], [wr.get("created"), wr.get("modified")]
                            env.CLOCK.frozen = o2.modified
                            try:
                                nv = json.loads(o2.new_version(prop="w").serialize())["modified"]
                            finally:
                                env.CLOCK.frozen = None
                            newer = nv > w2.get("modified") if len(nv) == len(w2.get("modified", "")) else nv != w2.get("modified")
                        except Exception as e:
                            got_t, want_t, newer = "%s: %s" % (type(e).__name__, str(e)[:100]), None, True
                        if got_t != want_t or not newer:
                            fail("C19/common-properties-differ-from-builtin-types/%s" % ("timestamps" if got_t != want_t else "new_version-not-newer"),
                                 "created / modified of a registered custom object are not handled like those of a built-in type of the same spec version", want_t, got_t, [cat, name, ver])
                    ext_id = getattr(cls, "with_extension", None)
                    if ext_id and ver == "2.1":
                        # a type defined through an extension definition: every object of it names that definition (extension_type new-sdo / new-sco), parsed or constructed
                        want_t = "new-sdo" if cat == "objects" else "new-sco"
                        try:
                            built = json.loads(cls(prop="v").serialize())
                        except Exception as e:
                            built = {"error": "%s: %s" % (type(e).__name__, str(e)[:100])}
                        # ... and keeps every OTHER extension it was given next to its own (round trip of custom types)
                        other = {"x-verif-other-ext": {"a": 1}}
                        src = probe_object(name, ver) if cat == "objects" else {"type": name, "spec_version": "2.1", "id": "%s--%s9" % (name, UA), "prop": "v"}
                        for how2, mk2 in (("parsed", lambda: stix2.parse(dict(src, extensions=dict({ext_id: {"extension_type": want_t}}, **other)), version=ver, allow_custom=True)),
                                          ("parsed-without-own-extension", lambda: stix2.parse(dict(src, extensions=dict(other)), version=ver, allow_custom=True)),
                                          ("constructed", lambda: cls(prop="v", extensions=dict(other), allow_custom=True))):
                            part.transitions += 1
                            try:
                                e3 = json.loads(mk2().serialize()).get("extensions")
                            except (X.STIXError, ValueError, TypeError) as e:
                                e3 = "%s: %s" % (type(e).__name__, str(e)[:100])
                            if not isinstance(e3, dict) or e3.get("x-verif-other-ext") != {"a": 1} or ext_id not in e3:
                                fail("C19/round-trip/%s/other-extension-lost" % cat, "an object of a type registered with extension_name loses the other extensions it was given",
                                     dict({ext_id: {"extension_type": want_t}}, **other), e3, [cat, name, ver, how2])
                        for how, o2 in (("parsed", out), ("constructed", built)):
                            e2 = o2.get("extensions") if isinstance(o2.get("extensions"), dict) else {}
                            if not isinstance(e2.get(ext_id), dict) or e2[ext_id].get("extension_type") != want_t:
                                fail("C19/extension-defined-type-without-its-extension/%s/%s" % (cat, how), "an object of a type registered with extension_name does not carry that extension definition",
                                     {ext_id: {"extension_type": want_t}}, o2.get("extensions", o2.get("error")), [cat, name, ver])
            else:
                # toplevel extension-definitions and unregistered extension-definition keys are not custom content by the library's documented choice
                lenient = cat == "extensions" and name.startswith("extension-definition--")
                part.outcome("probe-unregistered:" + ("refused" if err is not None else "accepted"))
                if err is None and not lenient:
                    fail("C19/not-version-scoped/%s" % cat, "a name that is not registered for this version/category is accepted in strict mode",
                         "refused", got.__name__ if isinstance(got, type) else got, [cat, name, ver])


def run_history(item, part):
    import stix2
    from stix2 import exceptions as X
    if "snap" not in _SNAP:
        _SNAP["snap"] = env.registry_snapshot()
        _SNAP["builtin"] = registry_now()
    env.registry_restore(_SNAP["snap"])
    env.reset()
    model = Model({k: dict(v) for k, v in _SNAP["builtin"].items()})
    hist = item["history"]
    touched = set()
    case0 = {"history": []}

    def apply(ev, case):
        part.transitions += 1
        cat = KCAT[ev["kind"]]
        touched.add((cat, ev["name"]))
        before = registry_now()
        shared_before = {v: [x if isinstance(x, str) else x[0] for x in t] for v, t in _SHARED.items()}
        nr, pr = name_rule(ev["name"], ev["kind"], ev["ver"]), props_rule(ev["props"], ev["kind"], ev["ver"])
        taken = model.taken(ev["ver"], cat, ev["name"])
        if not taken and ev.get("extension_name") and model.taken(ev["ver"], "extensions", ev["extension_name"]):
            taken = "same-category"          # the implicit extension's name is taken: the whole registration is a duplicate
        try:
            cls = do_register(ev)
            err = None
        except Exception as e:
            cls, err = None, e
        feat = "%s/v%s/%s/%s" % (ev["kind"], ev["ver"], ev["name_kind"], ev["props"])
        after = registry_now()
        for v, t in list(_SHARED.items()):
            now = [x if isinstance(x, str) else x[0] for x in t]
            if v in shared_before and now != shared_before[v]:
                part.violation("C19/caller-table-modified/%s" % ev["kind"], "registration modified the caller's properties table", case, shared_before[v], now)
                del _SHARED[v]          # a fresh table for the following events
        if err is not None:
            part.outcome("refused:" + type(err).__name__)
            if after != before:
                part.violation("C19/refusal-changed-registry/%s" % feat, "a refused registration left the registry changed", case, "unchanged",
                               sorted((k, n) for k in after for n in set(after[k]) ^ set(before[k])))
                env.registry_restore({v: {c: before[(v, c)] for c in CATS} for v in VERSIONS})
            if not isinstance(err, (X.STIXError, ValueError, TypeError)):
                part.violation("C19/wrong-error/%s/%s" % (type(err).__name__, feat), "registration refused through an unexpected error class", case, "library error family",
                               "%s: %s" % (type(err).__name__, str(err)[:150]))
            if taken == "same-category" and nr != "invalid" and pr != "invalid" and not isinstance(err, X.DuplicateRegistrationError):
                part.violation("C19/duplicate-wrong-error/%s" % feat, "a taken name is not refused with DuplicateRegistrationError", case, "DuplicateRegistrationError", type(err).__name__)
            if nr == "valid" and pr == "valid" and not taken:
                part.violation("C19/valid-registration-refused/%s" % feat, "a valid fresh registration is refused", case, "registered", "%s: %s" % (type(err).__name__, str(err)[:150]))
            return
        part.outcome("registered")
        if taken:
            part.violation("C19/not-exclusive/%s/%s/%s" % (taken, ev["kind"], "builtin" if ev["name_kind"].startswith("builtin") else "custom"), "a name that is already taken could be registered again", case,
                           "DuplicateRegistrationError", "registered")
            env.registry_restore({v: {c: before[(v, c)] for c in CATS} for v in VERSIONS})
            return
        if nr == "invalid" or pr == "invalid":
            part.violation("C19/rule-breaking-accepted/%s" % feat, "a type or property name that breaks the naming rules is accepted", case, "refused", "registered")
            env.registry_restore({v: {c: before[(v, c)] for c in CATS} for v in VERSIONS})
            return
        model.custom[(ev["ver"], cat)][ev["name"]] = cls
        if ev.get("extension_name"):
            ext_cls = stix2.registry.class_for_type(ev["extension_name"], ev["ver"], "extensions")
            if ext_cls is not None:
                model.custom[(ev["ver"], "extensions")][ev["extension_name"]] = ext_cls
        exp = model.expected()
        if after != exp:
            diff = sorted((k[0], k[1], n) for k in exp for n in set(exp[k]) ^ set(after[k])) + sorted((k[0], k[1], n) for k in exp for n in set(exp[k]) & set(after[k]) if exp[k][n] is not after[k][n])
            part.violation("C19/not-exact/registry-differs/%s" % feat, "after a registration the registry is not exactly the previous registry plus that name for that version", case,
                           "only (%s, %s, %s) added" % (ev["ver"], cat, ev["name"]), diff)

    probes(model, part, case0, touched)
    for i, ev in enumerate(hist):
        c = {"history": hist[:i + 1]}
        apply(ev, c)
        probes(model, part, c, touched)
    part.evaluations += 1
    part.state(model.canon(), nontrivial=bool(model.canon()))
    succ = []
    if item.get("expand", True):
        base_custom = {k: dict(v) for k, v in model.custom.items()}
        snap_here = env.registry_snapshot()
        for ev in item["menu"]():
            env.registry_restore(snap_here)
            model.custom = {k: dict(v) for k, v in base_custom.items()}
            c = {"history": hist + [ev]}
            apply(ev, c)
            probes(model, part, c, set(touched) | {(KCAT[ev["kind"]], ev["name"])})
            succ.append((("C19", model.canon()), {"history": hist + [ev]}))
    env.registry_restore(_SNAP["snap"])
    return succ


MENUS = {"all": all_events, "core": core_events}


def expand_all(item, part):
    return run_history(dict(item, menu=MENUS[item.get("menu_name", "all")]), part)


def replay(case, part):
    run_history({"history": case["history"], "expand": False, "menu": all_events}, part)


def run(run):
    th = run.thorough
    run.mode = "BFS"

    def lvl(l, fr, nx):
        print("  level %d: expanded %d states -> %d new states" % (l, len(fr), len(nx)), flush=True)
    # depth 2 over the full menu: expand the initial state and every state at depth 1 with ALL events
    run.bfs([(("C19", []), {"history": [], "menu_name": "all"})], expand_all, 1, lvl)
    deeper = run.unexpanded
    for it in deeper:
        it["menu_name"] = "core"
    levels = 2 if th else 1
    cur = deeper
    for d in range(levels):
        run.part.results = []
        run.pmap(expand_all, cur)
        res = sorted(run.part.results, key=lambda t: t[0])
        run.part.results = []
        seen, nxt = set(), []
        for _, succs in res:
            for canon, it in succs:
                k = json.dumps(canon)
                if k not in seen:
                    seen.add(k)
                    it["menu_name"] = "core"
                    nxt.append(it)
        print("  core level %d: expanded %d states -> %d new states" % (d + 2, len(cur), len(nxt)), flush=True)
        cur = nxt
    run.rule = ("BFS over registration histories: all events (%d) from the initial state and from every depth-1 state, valid/duplicate core events (%d) from deeper states; "
                "states = distinct sets of registered (version, category, name); non-trivial = at least one custom registration" % (len(all_events()), len(core_events())))
    run.bound = {"full_menu_depth": 2, "core_menu_depth": 2 + levels, "events": len(all_events()), "core_events": len(core_events())}
    run.alphabets = {"names": {k: [n for n, _ in name_menu(k, "2.1")] for k in KCAT}, "props": ["valid", "digit-prop", "upper-prop", "ref-not-ref", "refs-not-list", "valid-ref"]}
    run.assumptions += ["registry reference model in mc/checks/c19_registration.py; registries restored from a snapshot before each history (dict contents)",
                        "naming rules asserted: lower-case a-z/0-9/hyphen, length 3-250, 2.1 names begin with a letter, 2.1 extensions end in -ext; leading digits in 2.0 and double hyphens: either outcome"]
    run.part.sample({"history": [{"kind": "object", "ver": "2.1", "name": "x-verif-a", "props": "valid"}, {"kind": "object", "ver": "2.0", "name": "x-verif-a", "props": "valid"}],
                     "expect": "both accepted (version-scoped); each parses to its own class under its own version only"})
    run.part.sample({"history": [{"kind": "observable", "ver": "2.1", "name": "x-verif-a", "props": "valid"}, {"kind": "observable", "ver": "2.1", "name": "x-verif-a", "props": "valid"}],
                     "expect": "second refused with DuplicateRegistrationError, first class still answers"})
    o = run.part.outcomes
    run.require(o.get("registered", 0) > 100 and o.get("refused:DuplicateRegistrationError", 0) > 10 and o.get("refused:ValueError", 0) > 10, "acceptances and both refusal kinds reached")
    run.require(o.get("probe-registered:resolves", 0) > 100, "registered names were probed")
