"""C03 - Every specification-valid object is accepted and its content preserved.

DEV-mode enumeration of specification-valid instances generated from the FROZEN spec model (never from the library's tables):
minimal, maximal, minimal + each optional property x every legal value shape, pairs (thorough), every extension, each in four entry
contexts (parse(dict), parse(text), member of a bundle, member of an observed-data container), plus one variant per addressable path
carrying a granular marking on that path. Oracle: strict parse succeeds and the include-optional-defaults serialization contains every
input property with an equal value (timestamps as instants), adding at most spec-default optionals.
"""
import copy
import json

from mc import env
from mc.spec import gen, harness, model
from mc.ref import tsfmt

ID = "C03"
BUNDLE_ID = "bundle--3f7f0c5f-5d54-4292-94ea-ec1e1952be77"
MREF = "marking-definition--3f7f0c5f-5d54-4292-94ea-ec1e1952be99"


def value_feature(version, key, label, inst):
    """what is special about this instance (computed from the deviation, for minimal finding keys)"""
    if label.startswith("min+extdef:"):
        return label[4:]
    if not label.startswith("min+") or label.startswith("min+ext:"):
        return label.split(":")[0] if label.startswith("min+ext") else label
    names = label[4:].split("#")[0].split("+")
    c = model.spec(version).classes[key]
    feats = []
    for n in names:
        p = c["properties"].get(n, {})
        k = p.get("kind", "?")
        if k == "list":
            k = "list<%s>" % p["of"]["kind"]
        v = inst.get(n)
        f = k
        if isinstance(v, str) and p.get("kind") == "timestamp":
            m = tsfmt.TS_RE.match(v)
            if m and m.group(7) and len(m.group(7)) > 6:
                f = "timestamp-fraction-digits>6"
        elif v in (False, 0, "", 0.0) and not isinstance(v, list):
            f += "/falsy"
        feats.append(f)
    return "+".join(feats)


def contexts(version, key, wrapped, locator):
    cat = model.spec(version).classes[key]["category"]
    yield "parse(dict)", lambda: copy.deepcopy(wrapped), locator
    yield "parse(text)", lambda: json.dumps(wrapped), locator
    b = {"type": "bundle", "id": BUNDLE_ID, "objects": [wrapped]}
    if version == "2.0":
        b["spec_version"] = "2.0"
    if key != "objects:bundle":
        yield "in-bundle", lambda: copy.deepcopy(b), ("objects", 0) + tuple(locator)
    if cat == "observables" and version == "2.1":
        g = gen.Gen("2.1")
        od = g.minimal("objects:observed-data")
        od.pop("object_refs", None)
        od["objects"] = {"0": wrapped}
        yield "in-observed-data", lambda: copy.deepcopy(od), ("objects", "0")
    if cat == "observables" and version == "2.1" and isinstance(wrapped, dict) and wrapped.get("spec_version") == "2.1" and "id" in wrapped:
        # 'spec_version' is optional on a 2.1 cyber observable: the same object without it, on its own and as a bundle member
        bare = {k: v for k, v in wrapped.items() if k != "spec_version"}
        yield "parse(dict)/implicit-version", lambda: copy.deepcopy(bare), locator
        yield "parse(text)/implicit-version", lambda: json.dumps(bare), locator
        b2 = {"type": "bundle", "id": BUNDLE_ID, "objects": [bare]}
        yield "in-bundle/implicit-version", lambda: copy.deepcopy(b2), ("objects", 0) + tuple(locator)
        yield "in-bundle(text)/implicit-version", lambda: json.dumps(b2), ("objects", 0) + tuple(locator)


def run_instance(case, part):
    import stix2
    env.reset()
    version, key, label = case["version"], case["key"], case["label"]
    inst = wrapped = locator = None
    for k2, l2, i2, w2, loc2 in harness.all_cases(version, pairs=case.get("pairs", False), keys=[key]):
        if l2 == label:
            inst, wrapped, locator = i2, w2, loc2
            break
    if inst is None:
        raise RuntimeError("generator no longer produces %s %s %s" % (version, key, label))
    errs = model.validate(wrapped, version)
    if errs:
        raise RuntimeError("generator produced an instance the frozen validator rejects: %s %s %s %s" % (version, key, label, errs[:2]))
    feat = value_feature(version, key, label, inst)
    for cname, make, loc in contexts(version, key, wrapped, locator):
        check_parse(part, make, loc, inst, version, key, dict(case, context=cname), feat, "")
    if case.get("granular"):
        target_json = wrapped
        skip = {"granular_markings"}
        sels = [(s, v, f) for (s, v, f) in harness.selector_paths(target_json) if s.split(".")[0] not in skip]
        for sel, val, feats in sels:
            for mk in (("marking_ref", MREF),) + ((("lang", "fr"),) if version == "2.1" and case.get("lang") else ()):
                w = copy.deepcopy(wrapped)
                if "granular_markings" not in model.spec(version).classes[model.spec(version).key_for_type(w["type"])]["properties"]:
                    continue
                w["granular_markings"] = [{mk[0]: mk[1], "selectors": [sel]}]
                f2 = sorted(feats | ({"value-falsy"} if val in (False, 0, "", 0.0) and not isinstance(val, (list, dict)) else set()))
                gfeat = "granular-marking-selector/" + ("+".join(f2) if f2 else "plain")
                check_parse(part, lambda w=w: copy.deepcopy(w), (), w, version, model.spec(version).key_for_type(w["type"]),
                            dict(case, context="parse(dict)", selector=sel, marking=mk[0]), gfeat, "gm:")


def run_ts_sweep(case, part):
    """every fraction of the given digit count (stride as stated) in one timestamp property: accepted, and the instant is preserved to the digit"""
    env.reset()
    version, key, prop, digits = case["version"], case["key"], case["prop"], case["digits"]
    g = gen.Gen(version)
    base = g.minimal(key)
    for n in range(case["lo"], case["hi"], case["stride"]):
        frac = "%0*d" % (digits, n)
        ts = "2016-05-12T08:17:27.%sZ" % frac
        inst = copy.deepcopy(base)
        for pn in prop.split("+"):
            inst[pn] = ts
        if n == case["lo"] and model.validate(inst, version):
            raise RuntimeError("sweep instance rejected by the frozen validator: %r" % model.validate(inst, version)[:1])
        check_parse(part, lambda inst=inst: copy.deepcopy(inst), (), inst, version, key, dict(case, lo=n, hi=n + 1, context="parse(dict)"), "timestamp-fraction-sweep/%d-digits" % digits, "sweep:")
        if n % 10 == 0:
            check_parse(part, lambda inst=inst: json.dumps(inst), (), inst, version, key, dict(case, lo=n, hi=n + 1, context="parse(text)"), "timestamp-fraction-sweep/%d-digits" % digits, "sweep:")


def run_granular_extra(case, part):
    """granular-marking selectors whose textual order differs from the walk order of the content: list indices >= 10, sibling keys K and K-suffix"""
    env.reset()
    version, which = case["version"], case["which"]
    g = gen.Gen(version)
    if which == "long-lists":
        w = g.minimal("objects:identity")
        w["labels"] = ["l%02d" % i for i in range(12)]
        w["external_references"] = [{"source_name": "s%02d" % i, "url": "https://e.x/%d" % i} for i in range(11)]
    elif which == "prefix-keys":
        w = g.minimal("objects:language-content")
        w["contents"] = {"de": {"name": "n", "description": "d"}, "de-ch": {"name": "n2"}, "de-ch-1901": {"name": "n3"}, "fr": {"name": "n4"}}
    else:
        w = g.minimal("observables:file")
        w["extensions"] = {"windows-pebinary-ext": {"pe_type": "exe", "sections": [{"name": "s%02d" % i, "size": i} for i in range(12)]}}
    errs = model.validate(w, version)
    if errs:
        raise RuntimeError("extra granular base rejected by the frozen validator: %r" % errs[:2])
    key = model.spec(version).key_for_type(w["type"])
    for sel, val, feats in harness.selector_paths(w):
        if sel.split(".")[0] == "granular_markings":
            continue
        w2 = copy.deepcopy(w)
        w2["granular_markings"] = [{"marking_ref": MREF, "selectors": [sel]}]
        f2 = sorted(feats | ({"index>=10"} if any(st.startswith("[") and len(st) > 3 for st in sel.split(".")) else set()) | ({"key-extends-sibling-key"} if "de-ch" in sel else set()))
        check_parse(part, lambda w2=w2: copy.deepcopy(w2), (), w2, version, key, dict(case, context="parse(dict)", selector=sel), "granular-marking-selector/" + ("+".join(f2) if f2 else "plain"), "gm:")


def check_parse(part, make, loc, inst, version, key, case, feat, prefix):
    import stix2
    part.evaluations += 1
    part.transitions += 1
    try:
        res = stix2.parse(make(), allow_custom=False)
    except harness.lib_errors() as e:
        part.outcome(prefix + "refused")
        part.violation("C03/refused/%s" % feat, "a specification-valid object is refused in strict mode", case, "accepted", "%s: %s" % (type(e).__name__, str(e)[:200]))
        return
    part.outcome(prefix + "accepted")
    out = harness.view(res)
    try:
        got = harness.locate(out, loc)
    except (KeyError, IndexError, TypeError):
        part.violation("C03/content/member-lost/%s" % case["context"], "the object is not where it was put (bundle / container member lost)", case, list(loc), sorted(out))
        return
    part.state((version, key, json.dumps(got, sort_keys=True)), nontrivial=True)
    diffs = harness.subset_diff(inst, got, version, key)
    for path, kind, exp, obs in diffs[:3]:
        p = path.split(".")[-1].split("[")[0]
        part.violation("C03/content/%s/%s" % (kind, feat if kind != "added" else "property=" + p), "re-serialization does not reproduce the input content", dict(case, path=path), exp, obs)


def run_cross_version_history(case, part):
    """HISTORY: identifiers that STIX 2.1 allows and 2.0 does not (UUIDv1 / v3 / v5) are first shown to the 2.0 side of the library - as an object id and inside
    references, strict and relaxed - and only then used by valid 2.1 content, which must be accepted exactly as from a fresh process."""
    import stix2
    import uuid
    env.reset()
    key = case["key"]
    g21, g20 = gen.Gen("2.1"), gen.Gen("2.0")
    base = g21.minimal(key)
    if "id" not in base:
        return
    for ucls, u in (("uuid1", "e1d2f3a4-5b6c-11ea-8d7e-" + "%012x" % (abs(hash(key)) % 16 ** 12)), ("uuid5", str(uuid.uuid5(uuid.NAMESPACE_DNS, key))), ("uuid3", str(uuid.uuid3(uuid.NAMESPACE_DNS, key)))):
        ident20 = dict(g20.minimal("objects:identity"), id="identity--" + u)
        rel20 = dict(g20.minimal("objects:relationship"), source_ref="%s--%s" % (base["type"], u), created_by_ref="identity--" + u)
        for doc in (ident20, rel20, dict(ident20, id="%s--%s" % (base["type"], u), type=base["type"])):
            for kw in ({"allow_custom": False}, {"allow_custom": True}, {"allow_custom": False, "version": "2.0"}):
                try:
                    stix2.parse(copy.deepcopy(doc), **kw)
                except Exception:
                    pass
        inst = copy.deepcopy(base)
        inst["id"] = "%s--%s" % (inst["type"], u)
        if "created_by_ref" in model.spec("2.1").classes[key]["properties"]:
            inst["created_by_ref"] = "identity--" + u
        if model.validate(inst, "2.1"):
            continue
        check_parse(part, lambda inst=inst: copy.deepcopy(inst), (), inst, "2.1", key, dict(case, id_class=ucls, context="parse(dict)"), "non-v4-identifier-after-2.0-refusal/" + ucls, "hist:")
        check_parse(part, lambda inst=inst: json.dumps(inst), (), inst, "2.1", key, dict(case, id_class=ucls, context="parse(text)"), "non-v4-identifier-after-2.0-refusal/" + ucls, "hist:")


def run_hash_case(case, part):
    """every hashes slot of the maximal instance with upper-case and mixed-case digests (hex digits are case-insensitive; the spelling given is content and must come back)"""
    env.reset()
    version, key = case["version"], case["key"]
    wrapped = inst = loc = None
    for k2, l2, i2, w2, loc2 in harness.all_cases(version, keys=[key]):
        if l2 == "max":
            inst, wrapped, loc = i2, w2, loc2
            break
    if wrapped is None:
        return
    tkey = model.spec(version).key_for_type(wrapped["type"])
    for path, v, p, ckey, pname in harness.typed_slots(wrapped, version, tkey):
        if p["kind"] != "hashes" or not isinstance(v, dict):
            continue
        for style, fn in (("upper", str.upper), ("mixed", lambda x: "".join(ch.upper() if i % 2 else ch for i, ch in enumerate(x)))):
            nv = {a: (fn(h) if a not in ("SSDEEP", "ssdeep") else h) for a, h in v.items()}
            if nv == v:
                continue
            w2 = gen.set_path(wrapped, path, nv)
            if model.validate(w2, version):
                continue
            check_parse(part, lambda w2=w2: copy.deepcopy(w2), loc, harness.locate(w2, loc), version, key, dict(case, slot=list(path), style=style, context="parse(dict)"), "hash-digest-letter-case/" + style, "hash:")


TEXTS = [("combining-acute", "cafe\u0301"), ("angstrom-sign", "\u212b ngstr\u00f6m"), ("hangul-jamo", "\u1100\u1161"), ("cjk-compatibility", "\uf900"), ("nfd-and-nfc-mixed", "\u00e9e\u0301"),
         ("ohm-sign", "50 \u2126"), ("astral+combining", "\U0001f600\u0301"), ("leading-combining", "\u0301x"), ("fullwidth", "\uff21\uff22\uff11"), ("ligature-fi", "\ufb01le"),
         ("trailing-space", "x "), ("leading-space", " x"), ("inner-tab-newline", "a\tb\nc"), ("nbsp", "a\u00a0b"), ("zero-width-joiner", "a\u200db"), ("crlf", "a\r\nb"),
         ("upper-lower-not-one-to-one", "Stra\u00dfe \u0130i"), ("control-char", "a\u0001b"), ("bidi-mark", "a\u200fb"), ("very-long", "x" * 70000)]


def run_text_case(case, part):
    """every free-text slot of the maximal instance with text the library has no business touching: not normalised (NFC/NFKC), not trimmed, not re-cased -
    the code points given are content and must come back"""
    env.reset()
    version, key = case["version"], case["key"]
    wrapped = loc = None
    for k2, l2, i2, w2, loc2 in harness.all_cases(version, keys=[key]):
        if l2 == "max":
            wrapped, loc = w2, loc2
            break
    if wrapped is None:
        return
    tkey = model.spec(version).key_for_type(wrapped["type"])
    for path, v, p, ckey, pname in harness.typed_slots(wrapped, version, tkey):
        kind = p["kind"]
        if kind not in ("string", "openvocab") or not isinstance(v, str) or "fixed" in p or pname in ("pattern", "pattern_type", "pattern_version", "lang", "extension_type"):
            continue
        for tlabel, text in TEXTS:
            if case.get("text") and tlabel != case["text"]:
                continue
            w2 = gen.set_path(wrapped, path, text)
            if model.validate(w2, version):
                part.outcome("text:not-valid-here")
                continue
            check_parse(part, lambda w2=w2: copy.deepcopy(w2), loc, harness.locate(w2, loc), version, key, dict(case, slot=list(path), text=tlabel, context="parse(dict)"), "free-text/" + tlabel, "text:")
            if tlabel != "very-long":
                check_parse(part, lambda w2=w2: json.dumps(w2), loc, harness.locate(w2, loc), version, key, dict(case, slot=list(path), text=tlabel, context="parse(text)"), "free-text/" + tlabel, "text:")


def special_valid():
    """hand-written valid instances where TWO properties meet at a boundary value (co-constraints evaluated on zero / false / empty-but-legal values)"""
    g21 = gen.Gen("2.1")
    loc = {k: v for k, v in g21.minimal("objects:location").items() if k not in ("region", "country", "latitude", "longitude", "precision")}
    nt = g21.minimal("observables:network-traffic")
    out = [
        ("location-by-coordinates/latitude-zero", "2.1", "objects:location", dict(loc, latitude=0.0, longitude=39.668)),
        ("location-by-coordinates/longitude-zero", "2.1", "objects:location", dict(loc, latitude=51.477, longitude=0.0)),
        ("location-by-coordinates/both-zero", "2.1", "objects:location", dict(loc, latitude=0, longitude=0)),
        ("location-by-coordinates/both-zero+precision-zero", "2.1", "objects:location", dict(loc, latitude=0.0, longitude=0.0, precision=0.0)),
        ("location-by-coordinates/negative-zero", "2.1", "objects:location", dict(loc, latitude=-0.0, longitude=-0.0)),
        ("location-by-region+precision-with-zero-coordinates", "2.1", "objects:location", dict(loc, region="caribbean", latitude=0.0, longitude=0.0, precision=10.0)),
        ("network-traffic/ports-zero", "2.1", "observables:network-traffic", dict(nt, src_port=0, dst_port=0)),
        ("network-traffic/byte-counts-zero", "2.1", "observables:network-traffic", dict(nt, src_byte_count=0, dst_byte_count=0, src_packets=0, dst_packets=0)),
        ("network-traffic/ended+is_active-false", "2.1", "observables:network-traffic", dict(nt, start="2016-05-12T08:17:27Z", end="2016-05-12T08:17:27Z", is_active=False)),
        # integers a double cannot hold: content, not approximations
        ("big-integers/counters", "2.1", "observables:network-traffic", dict(nt, src_byte_count=2 ** 53 + 1, dst_byte_count=2 ** 63 - 1, src_packets=1234567890123456789, dst_packets=2 ** 64 + 1)),
        ("big-integers/file-size", "2.1", "observables:file", dict(g21.minimal("observables:file"), size=2 ** 53 + 1)),
        ("big-integers/sighting-count-is-bounded-but-exact", "2.1", "objects:sighting", dict(g21.minimal("objects:sighting"), count=999999999)),
    ]
    # "at least one of ..." groups whose ONLY populated member is a zero / false (present is present)
    for ver in ("2.1",):
        g = gen.Gen(ver)
        proc = {k: v for k, v in g.minimal("observables:process").items() if k in ("type", "id", "spec_version")}
        fil = g.minimal("observables:file")
        out += [("at-least-one/process-pid-zero", ver, "observables:process", dict(proc, pid=0)),
                ("at-least-one/process-is_hidden-false", ver, "observables:process", dict(proc, is_hidden=False)),
                ("at-least-one/pdf-ext-is_optimized-false", ver, "observables:file", dict(fil, extensions={"pdf-ext": {"is_optimized": False}})),
                ("at-least-one/windows-process-ext-aslr-false", ver, "observables:process", dict(proc, pid=1, extensions={"windows-process-ext": {"aslr_enabled": False}})),
                ("at-least-one/pe-optional-header-entry-point-zero", ver, "observables:file", dict(fil, extensions={"windows-pebinary-ext": {"pe_type": "exe", "optional_header": {"address_of_entry_point": 0}}})),
                ("at-least-one/raster-image-height-zero", ver, "observables:file", dict(fil, extensions={"raster-image-ext": {"image_height": 0}})),
                ("at-least-one/socket-ext-flags-false", ver, "observables:network-traffic", dict(g.minimal("observables:network-traffic"), extensions={"socket-ext": {"address_family": "AF_INET", "is_blocking": False}})),
                ("at-least-one/x509-extensions-empty-string-is-content", ver, "observables:x509-certificate", dict({k: v for k, v in g.minimal("observables:x509-certificate").items() if k in ("type", "id", "spec_version")}, is_self_signed=False))]
    return out


BYTE_FORMS = [("bytes/utf-8", lambda t: t.encode("utf-8")), ("bytes/utf-8-with-BOM", lambda t: t.encode("utf-8-sig")), ("bytes/utf-16", lambda t: t.encode("utf-16")),
              ("bytes/utf-32", lambda t: t.encode("utf-32")), ("bytearray/utf-8", lambda t: bytearray(t.encode("utf-8"))),
              ("BytesIO/utf-8", lambda t: __import__("io").BytesIO(t.encode("utf-8"))), ("BytesIO/utf-8-with-BOM", lambda t: __import__("io").BytesIO(t.encode("utf-8-sig"))),
              ("StringIO", lambda t: __import__("io").StringIO(t)), ("text/escaped-non-ascii", lambda t: t)]


def run_byte_forms(case, part):
    """the DOCUMENT arriving in the other forms parse() documents (bytes in the encodings JSON allows, with and without a byte-order mark, byte and text streams):
    the same object as from the text"""
    import stix2
    env.reset()
    version, key = case["version"], case["key"]
    wrapped = loc = None
    for k2, l2, i2, w2, loc2 in harness.all_cases(version, keys=[key]):
        if l2 == "max":
            wrapped, loc = w2, loc2
            break
    if wrapped is None:
        return
    w = copy.deepcopy(wrapped)
    target = harness.locate(w, loc)
    for k, v in list(target.items()):
        if isinstance(v, str) and k in ("name", "description", "value", "path", "display_name", "subject", "key", "user_id", "product", "opinion", "abstract", "content", "statement"):
            target[k] = v + " caf\u00e9 \u6f22 \U0001f600"        # non-ASCII content makes the encodings differ
            break
    if model.validate(w, version):
        w = copy.deepcopy(wrapped)
    text = json.dumps(w, ensure_ascii=(case.get("ascii", False)))
    for fname, mk in BYTE_FORMS:
        t = json.dumps(w, ensure_ascii=True) if fname == "text/escaped-non-ascii" else text
        check_parse(part, lambda mk=mk, t=t: mk(t), loc, harness.locate(w, loc), version, key, dict(case, context="parse(%s)" % fname), "document-form/" + fname.split("/")[0] + ("-with-BOM" if "BOM" in fname else ""), "bytes:")


def run_process_tz(case, part):
    """ENVIRONMENT: the process time zone is not part of the content - timestamps given as text (incl. wall-clock readings a zone skips or repeats) and as naive datetime
    objects are read as UTC whatever TZ says"""
    import stix2
    texts = ["2016-03-13T02:30:00Z", "2016-03-13T07:30:00.5Z", "2016-11-06T01:30:00.000Z", "2021-10-31T00:30:00Z", "2021-10-31T01:30:00Z", "2021-04-03T15:45:00Z", "2020-01-15T12:30:45.123456Z",
             "0001-01-01T00:00:00Z", "9999-12-31T23:59:59.999999Z", "1970-01-01T00:00:00Z", "1969-12-31T23:59:59Z"]
    g = gen.Gen("2.1")
    base = g.minimal("objects:campaign")
    for zone in env.process_tz.ZONES:
        with env.process_tz(zone):
            for t in texts:
                for form in ("text", "naive-datetime"):
                    inst = dict(base, first_seen=t)
                    given = dict(inst)
                    if form == "naive-datetime":
                        y, mo, d, h, mi, sec, us = tsfmt.split(tsfmt.instant_of(t) // tsfmt.PS_PER_US)
                        import datetime as _dt
                        given["first_seen"] = _dt.datetime(y, mo, d, h, mi, sec, us)
                    check_parse(part, lambda given=given: copy.deepcopy(given), (), inst, "2.1", "objects:campaign", {"kind": "process-tz", "zone": zone, "value": t, "form": form, "context": "parse(dict)"},
                                "process-time-zone/" + form, "tz:")
    env.reset()


def run_special_valid(case, part):
    env.reset()
    for label, version, key, inst in special_valid():
        if case.get("label") not in (None, label):
            continue
        wrapped = dict(inst)
        if key.startswith("observables:"):
            wrapped = dict(inst, spec_version="2.1", id="%s--3f7f0c5f-5d54-4292-94ea-ec1e1952be0d" % inst["type"])
        errs = model.validate(wrapped, version)
        if errs:
            raise RuntimeError("special instance rejected by the frozen validator: %s %r" % (label, errs[:2]))
        part.state((version, key, label), nontrivial=True)
        for cname, make, loc in contexts(version, key, wrapped, ()):
            check_parse(part, make, loc, wrapped, version, key, {"kind": "special-valid", "label": label, "context": cname}, "two-properties-meet/" + label.split("/")[0], "special:")


def run_any(case, part):
    if case.get("kind") == "byte-forms":
        return run_byte_forms(case, part)
    if case.get("kind") == "process-tz":
        return run_process_tz(case, part)
    if case.get("kind") == "special-valid":
        return run_special_valid(case, part)
    if case.get("kind") == "text-case":
        return run_text_case(case, part)
    if case.get("kind") == "hash-case":
        return run_hash_case(case, part)
    if case.get("kind") == "cross-version-history":
        return run_cross_version_history(case, part)
    if case.get("kind") == "ts-sweep":
        return run_ts_sweep(case, part)
    if case.get("kind") == "granular-extra":
        return run_granular_extra(case, part)
    return run_instance(case, part)


def replay(case, part):
    run_any({k: v for k, v in case.items() if k not in ("context", "selector", "path", "marking", "id_class", "slot", "style")}, part)


def run(run):
    th = run.thorough
    cases = []
    n_gm = 0
    for version in ("2.0", "2.1"):
        for key, label, inst, wrapped, loc in harness.all_cases(version, pairs=th):
            c = {"version": version, "key": key, "label": label, "pairs": th}
            if label in ("min", "max"):
                c["granular"] = True
                c["lang"] = label == "max"
            cases.append(c)
    run.mode = "DEV"
    run.rule = ("valid instances from the frozen spec model: per type minimal, maximal, minimal + each optional property x every value of its alphabet%s, each extension; "
                "x 3-4 entry contexts; + one granular-marking variant per addressable path of every minimal/maximal instance (and of bases with >= 11 list elements / keys extending a sibling key); "
                "+ every 2.1 type with UUIDv1/v3/v5 identifiers that were first refused on the 2.0 side (history); + every 4-digit, every %s 5-digit and every %s 6-digit second fraction in 4 timestamp properties; states = distinct accepted serializations"
                % (", all pairs of optional properties" if th else "", "" if th else "7th", "7th" if th else "61st"))
    run.bound = {"deviations": 2 if th else 1, "instances": len(cases), "versions": ["2.0", "2.1"]}
    run.assumptions += ["frozen spec model mc/spec/stix2x.json + mc/spec/model.py (bootstrapped once, audited by hand; only unambiguously valid content is generated)",
                        "pattern validity delegated to the third-party stix2patterns validator"]
    for version, key, prop in (("2.1", "objects:identity", "created+modified"), ("2.1", "objects:campaign", "first_seen"), ("2.0", "objects:campaign", "first_seen"), ("2.0", "objects:indicator", "valid_from")):
        for digits, stride in ((4, 1), (5, 1 if th else 7), (6, 7 if th else 61)):
            total = 10 ** digits
            step = max(stride, (total // 64 // stride) * stride)
            for lo in range(0, total, step):
                cases.append({"kind": "ts-sweep", "version": version, "key": key, "prop": prop, "digits": digits, "stride": stride, "lo": lo, "hi": min(lo + step, total)})
    for key in gen.Gen("2.1").top_keys():
        cases.append({"kind": "cross-version-history", "key": key})
    for version in ("2.0", "2.1"):
        for key in gen.Gen(version).top_keys():
            cases.append({"kind": "hash-case", "version": version, "key": key})
            cases.append({"kind": "text-case", "version": version, "key": key})
    for version, which in (("2.0", "long-lists"), ("2.1", "long-lists"), ("2.1", "prefix-keys"), ("2.1", "long-nested-list")):
        cases.append({"kind": "granular-extra", "version": version, "which": which})
    cases.append({"kind": "special-valid"})
    cases.append({"kind": "process-tz"})
    for version in ("2.0", "2.1"):
        for key in gen.Gen(version).top_keys():
            cases.append({"kind": "byte-forms", "version": version, "key": key})
    run.pmap(run_any, cases, order_independent=True)
    run.part.sample({"version": "2.1", "key": "observables:network-traffic", "label": "min+end#2", "instance": "minimal network-traffic + end='2017-05-12T08:17:27.5Z' (+ is_active=false)"})
    run.part.sample({"version": "2.0", "key": "observables:file", "label": "max", "context": "member '0' of an observed-data container with its referenced members"})
    run.part.sample({"version": "2.1", "key": "objects:malware", "label": "max", "selector": "kill_chain_phases.[0].phase_name", "marking": "marking_ref"})
    o = run.part.outcomes
    run.require(o.get("accepted", 0) > 5000, "thousands of valid instances accepted")
    run.require(o.get("gm:accepted", 0) > 1000, "granular-marking variants accepted")
