"""C09 - Pattern equivalence is a total, sound equivalence relation.

DEV-mode enumeration of ALL ORDERED PAIRS inside bounded pattern groups through the public API:
  C  comparison level : 15 atoms (all operators, NOT, set literals in both orders, 1 vs 1.0), every binary AND/OR over a core alphabet,
                        every 3-leaf tree  a op (b op c)  over 4 atoms incl. a negated one
  O  observation level: all trees with <= 3 leaves over {AND, OR, FOLLOWEDBY} x leaves X, Y, Z (Z = X AND Y inside one observation),
                        at most one qualifier (REPEATS, WITHIN 1/2, START-STOP) on the root or on one operand (thorough: two stacked)
  D  DNF family       : OR of two AND-terms that are multisets (size <= 2, thorough 3) over three mutually exclusive leaves
  S  special values   : ipv4 / ipv6 CIDR spellings and prefix lengths, registry keys in different letter case, each also with non-string
                        and set constants and every operator
  T  totality         : every atom of C10's menu (operator x NOT x constant kind x path shape) against itself and the base pattern
Oracle: (1) no call raises; (2) the boolean matrix of each group is reflexive, symmetric and transitively closed; (3) soundness: two patterns
reported equivalent evaluate identically on every member of a bounded universe (12 objects; all sequences of <= 3 observations over 4
classes x 4 timestamps) under AT LEAST ONE member of a family of 4 readings of the disputed semantics (FOLLOWEDBY strict or not,
WITHIN closed or half-open; AND binds distinct observations, as the specification and the library's own documentation say) - a pair is a violation only if EVERY reading distinguishes it; (4) the documented
rewrites are recognised; (5) find_equivalent_patterns == pairwise filter; (6) CIDR constants reported equal denote the same network.
"""
import ipaddress
import itertools
import re

from mc import env
from mc.ref import pattern_ast as A

ID = "C09"


def P(name):
    return ("path", "x", (("key", name),))


def atom(op, name, const, neg=False):
    return ("cmp", op, neg, P(name), const)


I = lambda n: ("int", n)
S = lambda s: ("str", s)
ATOMS = [atom("=", "p", I(1)), atom("!=", "p", I(1)), atom("=", "p", I(1), True), atom("=", "p", ("float", 1.0)), atom(">", "p", I(0)), atom(">=", "p", I(1)), atom("<", "p", I(2)),
         atom(">", "p", I(0), True), atom("IN", "p", ("set", (I(1), I(2)))), atom("IN", "p", ("set", (I(2), I(1)))), atom("IN", "p", ("set", (I(1), I(2))), True),
         atom("=", "q", S("a")), atom("LIKE", "q", S("a%")), atom("LIKE", "q", S("a%"), True), atom("MATCHES", "q", S("^a"))]
CORE = [ATOMS[0], ATOMS[1], ATOMS[4], ATOMS[8], ATOMS[11], ATOMS[13]]
TRI = [ATOMS[0], ATOMS[1], ATOMS[11], ATOMS[4]]
OBJECTS = [{"p": p, "q": q} for p in (0, 1, 2, 3) for q in ("a", "ab", "b")]


# ---- independent evaluator ------------------------------------------------------------------------------------
def ev_atom(a, obj):
    op, neg, path, c = a[1], a[2], a[3], a[4]
    name = path[2][0][1]
    if name not in obj:
        return False
    v = obj[name]
    if op in ("=", "!="):
        r = (v == c[1]) if not (isinstance(v, str) != isinstance(c[1], str)) else False
        if op == "!=":
            r = not r
    elif op in (">", ">=", "<", "<="):
        if isinstance(v, str) != isinstance(c[1], str):
            r = False
        else:
            r = {">": v > c[1], ">=": v >= c[1], "<": v < c[1], "<=": v <= c[1]}[op]
    elif op == "IN":
        r = any(v == x[1] and isinstance(v, str) == isinstance(x[1], str) for x in c[1])
    elif op == "LIKE":
        r = isinstance(v, str) and re.match("^" + re.escape(c[1]).replace("%", ".*").replace("_", ".") + "$", v) is not None
    elif op == "MATCHES":
        r = isinstance(v, str) and re.search(c[1], v) is not None
    else:
        raise ValueError(op)
    return (not r) if neg else r


def ev_cmp(c, obj):
    k = c[0]
    if k == "cparen":
        return ev_cmp(c[1], obj)
    if k == "bool":
        vals = [ev_cmp(x, obj) for x in c[2]]
        return all(vals) if c[1] == "AND" else any(vals)
    return ev_atom(c, obj)


def ev_obs(e, obs, sem):
    """set of bindings (frozensets of observation indices) of expression e on the observation sequence obs = [(object, time)]"""
    distinct, strict, wclosed = sem
    k = e[0]
    if k == "leaf":
        return {frozenset([i]) for i, (o, t) in enumerate(obs) if ev_cmp(e[1], o)}
    if k == "oparen":
        return ev_obs(e[1], obs, sem)
    if k == "obs":
        op = e[1]
        acc = None
        for sub in e[2]:
            cur = ev_obs(sub, obs, sem)
            if acc is None:
                acc = cur
                continue
            if op == "OR":
                acc = acc | cur
                continue
            out = set()
            for a in acc:
                for b in cur:
                    if distinct and a & b:
                        continue
                    if op == "FOLLOWEDBY":
                        ta, tb = max(obs[i][1] for i in a), min(obs[i][1] for i in b)
                        if not (ta < tb if strict else ta <= tb):
                            continue
                    out.add(a | b)
            acc = out
        return acc
    if k == "qual":
        q, sset = e[1], ev_obs(e[2], obs, sem)
        if q[0] == "REPEATS":
            out = set()
            for combo in itertools.combinations(sorted(sset, key=sorted), q[1]):
                if distinct and any(a & b for a, b in itertools.combinations(combo, 2)):
                    continue
                out.add(frozenset().union(*combo))
            return out
        if q[0] == "WITHIN":
            def span(b):
                return max(obs[i][1] for i in b) - min(obs[i][1] for i in b)
            return {b for b in sset if (span(b) <= q[1] if wclosed else span(b) < q[1])}
        lo, hi = TS_TO_T[q[1]], TS_TO_T[q[2]]
        return {b for b in sset if all(lo <= obs[i][1] < hi for i in b)}
    raise ValueError(e)


# readings of the disputed points: (AND/REPEATS bind distinct observations, FOLLOWEDBY strict in time, WITHIN window closed).
# The specification says AND operands match "different Observations" and the library documents the same ("need distinct bindings"), so
# only the distinct reading is kept for that point; the other two points are read both ways.
SEMS = [(True, a, b) for a in (True, False) for b in (True, False)]
BASE_T = A.tsfmt.instant_of("2020-01-01T00:00:00Z")
SEC = 1000000 * A.tsfmt.PS_PER_US
TS_TO_T = {BASE_T + i * SEC: i for i in range(5)}
CLASSES = {"XY": [{"p": 0, "q": "b"}, {"p": 1, "q": "b"}, {"p": 0, "q": "a"}, {"p": 1, "q": "a"}], "P": [{"p": 0, "q": "b"}, {"p": 1, "q": "b"}, {"p": 2, "q": "b"}, {"p": 3, "q": "b"}]}
_UNIVERSE = {}


def universe(kind):
    if kind not in _UNIVERSE:
        u = []
        for n in (1, 2, 3):
            for cs in itertools.product(CLASSES[kind], repeat=n):
                for ts in itertools.combinations_with_replacement((0, 1, 2, 3), n):
                    u.append(list(zip(cs, ts)))
        _UNIVERSE[kind] = u
    return _UNIVERSE[kind]


def signature(group, ast):
    """truth values over the bounded universe: one int bit mask per reading of the semantics (None = not evaluated for this group)"""
    if group == "C":
        bits = 0
        for i, o in enumerate(OBJECTS):
            if ev_cmp(ast[1], o):
                bits |= 1 << i
        return [bits]
    if group in ("O", "D"):
        u = universe("XY" if group == "O" else "P")
        out = []
        for sem in SEMS:
            bits = 0
            for i, obs in enumerate(u):
                if ev_obs(ast, obs, sem):
                    bits |= 1 << i
            out.append(bits)
        return out
    return None


# ---- groups -----------------------------------------------------------------------------------------------------
def group_C(thorough):
    out = [("leaf", a) for a in ATOMS]
    core = ATOMS if thorough else CORE
    for a, b in itertools.product(core, repeat=2):
        for op in ("AND", "OR"):
            out.append(("leaf", ("bool", op, (a, b))))
    tri = (TRI + [ATOMS[8], ATOMS[13]]) if thorough else TRI[:3]
    for a, b, c in itertools.product(tri, repeat=3):
        for o1, o2 in itertools.product(("AND", "OR"), repeat=2):
            out.append(("leaf", ("bool", o1, (a, ("cparen", ("bool", o2, (b, c)))))))
            if thorough:
                out.append(("leaf", ("bool", o1, (("cparen", ("bool", o2, (a, b))), c))))
    return dedupe(out)


X = ("leaf", ATOMS[0])
Y = ("leaf", ATOMS[11])
Z = ("leaf", ("bool", "AND", (ATOMS[0], ATOMS[11])))
QUALS = [("REPEATS", 2), ("WITHIN", 1), ("WITHIN", 2), ("STARTSTOP", BASE_T, BASE_T + 2 * SEC)]


def group_O(thorough):
    leaves = [X, Y, Z]
    ops = ("AND", "OR", "FOLLOWEDBY")
    trees = list(leaves)
    two = [("obs", o, (a, b)) for o in ops for a in leaves for b in leaves]
    trees += two
    l2 = [X, Y] if not thorough else leaves
    for o1, o2 in itertools.product(ops, repeat=2):
        for a, b, c in itertools.product(l2, repeat=3):
            trees.append(("obs", o1, (("obs", o2, (a, b)), c)))
            if thorough or o1 != o2:
                trees.append(("obs", o1, (a, ("obs", o2, (b, c)))))
    qual = []
    for t in leaves + (two if thorough else [x for x in two if Z not in x[2]]):
        for q in QUALS:
            qual.append(("qual", q, t))
            if t[0] == "obs" and (thorough or q[0] != "STARTSTOP"):
                qual.append(("obs", t[1], (("qual", q, t[2][0]), t[2][1])))
                qual.append(("obs", t[1], (t[2][0], ("qual", q, t[2][1]))))
            if thorough:
                for q2 in QUALS[:2]:
                    qual.append(("qual", q2, ("qual", q, t)))
    return dedupe(trees + qual)


def group_D(thorough):
    l = [("leaf", atom("=", "p", I(n))) for n in (1, 2, 3)]
    terms = []
    for n in (1, 2) + ((3,) if thorough else ()):
        for ms in itertools.combinations_with_replacement(range(3), n):
            terms.append(l[ms[0]] if n == 1 else ("obs", "AND", tuple(l[i] for i in ms)))
    if not thorough:
        terms += [("obs", "AND", (l[0], l[0], l[1])), ("obs", "AND", (l[0], l[1], l[2])), ("obs", "FOLLOWEDBY", (l[0], l[1])), ("obs", "FOLLOWEDBY", (l[1], l[0])),
                  ("obs", "FOLLOWEDBY", (l[0], l[0]))]          # a repeated operand in a sequence: (A FB A) OR (A FB B) is not A FB A
    else:
        terms += [("obs", "FOLLOWEDBY", (l[a], l[b])) for a in range(3) for b in range(3)]
    out = list(terms)
    for a, b in itertools.product(terms, repeat=2):
        out.append(("obs", "OR", (a, b)))
    # the factored forms that the DNF transformation expands
    for a, b, c in itertools.product(l, repeat=3):
        out.append(("obs", "AND", (a, ("obs", "OR", (b, c)))))
        out.append(("obs", "AND", (a, l[1], ("obs", "OR", (b, c)))))
        out.append(("obs", "FOLLOWEDBY", (a, ("obs", "OR", (b, c)))))
        out.append(("obs", "FOLLOWEDBY", (("obs", "OR", (a, b)), c)))
    return dedupe(out)


def group_S():
    """special values: plain texts (path names with hyphens and ':' need the real object types)"""
    out = []
    for c in ["'198.51.100.5'", "'198.51.100.5/32'", "'198.51.100.0/24'", "'198.51.100.77/24'", "'198.51.100.0/25'", "'198.051.100.005'", "'198.51.100.5/0'", "'0.0.0.0/0'", "'198.51.100.5/33'",
              "'not an address'", "1", "1.5", "true", "h'ab'", "t'2020-01-01T00:00:00Z'", "''"]:
        for op in ("=", "!=", "ISSUBSET", "ISSUPERSET", "LIKE", ">"):
            if op in ("ISSUBSET", "ISSUPERSET", "LIKE") and not c.startswith("'"):
                continue
            out.append("[ipv4-addr:value %s %s]" % (op, c))
    # prefix lengths that end INSIDE a byte: networks that differ only in the network bits of that byte, and spellings that differ only in host bits of it
    for c in ["'10.1.128.0/17'", "'10.1.0.0/17'", "'10.1.128.5/17'", "'10.1.255.255/17'", "'172.16.0.0/12'", "'172.32.0.0/12'", "'172.31.9.9/12'", "'192.0.0.0/3'", "'224.0.0.0/3'", "'128.0.0.0/1'", "'0.0.0.0/1'",
              "'10.1.2.128/25'", "'10.1.2.0/25'", "'10.1.2.255/31'", "'10.1.2.254/31'", "'10.1.2.253/31'"]:
        for op in ("=", "ISSUBSET"):
            out.append("[ipv4-addr:value %s %s]" % (op, c))
    for c in ["'fe80::/10'", "'fec0::/10'", "'febf::1/10'", "'2001:db8:8000::/33'", "'2001:db8::/33'", "'2001:db8:ffff::/33'", "'2001:db8::1/127'", "'2001:db8::2/127'", "'2001:db8::3/127'"]:
        out.append("[ipv6-addr:value = %s]" % c)
    out += ["[ipv4-addr:value IN ('198.51.100.5', '198.51.100.0/24')]", "[ipv4-addr:value IN ('198.51.100.77/24', '198.51.100.5/32')]", "[ipv4-addr:value IN (1, 2)]", "[ipv4-addr:value NOT IN ('198.51.100.5')]"]
    for c in ["'2001:db8::1'", "'2001:db8::1/128'", "'2001:db8::/32'", "'2001:db8:0:0::5/32'", "'2001:DB8::1'", "'2001:0db8:0000::0001'", "1", "'zz'", "'2001:db8::1/129'"]:
        for op in ("=", "ISSUBSET"):
            if op == "ISSUBSET" and not c.startswith("'"):
                continue
            out.append("[ipv6-addr:value %s %s]" % (op, c))
    out += ["[ipv6-addr:value IN ('2001:db8::1', '2001:db8::/32')]", "[ipv6-addr:value IN (1)]"]
    for c in ["'HKEY_LOCAL_MACHINE\\\\Foo'", "'hkey_local_machine\\\\foo'", "'HKLM\\\\Foo'", "1", "true"]:
        out.append("[windows-registry-key:key = %s]" % c)
        out.append("[windows-registry-key:values[*].name = %s]" % c)
    out += ["[windows-registry-key:key IN ('HKLM\\\\Foo', 'hklm\\\\foo')]", "[windows-registry-key:key IN (1, 2)]", "[windows-registry-key:key LIKE 'HKLM%']", "[windows-registry-key:key MATCHES '^hk']"]
    seen, res = set(), []
    for t in out:
        if t not in seen and valid(t):
            seen.add(t)
            res.append(t)
    return res


def valid(text):
    """the third-party grammar decides what a syntactically valid pattern is"""
    try:
        A.read(text)
        return True
    except Exception:
        return False


def group_T():
    base = "[x:p = 1]"
    return [base] + [A.to_text(("leaf", a)) for a in A.atom_menu() if a[1] != "EXISTS" and not A.path_feature(a[3]).startswith("consecutive")]


def dedupe(trees):
    seen, out = set(), []
    for t in trees:
        k = A.to_text(t)
        if k not in seen:
            seen.add(k)
            out.append(t)
    return out


_GROUPS = {}


def groups(thorough):
    if thorough not in _GROUPS:
        g = {}
        for name, fn in (("C", group_C), ("O", group_O), ("D", group_D)):
            asts = fn(thorough)
            g[name] = (asts, [A.to_text(t) for t in asts])
        g["S"] = (None, group_S())
        g["T"] = (None, group_T())
        _GROUPS[thorough] = g
    return _GROUPS[thorough]


# ---- one matrix row ---------------------------------------------------------------------------------------------
def call_eq(p, q):
    import stix2.equivalence.pattern as EP
    try:
        return "1" if EP.equivalent_patterns(p, q) else "0", None
    except Exception as e:
        import traceback
        import os
        where = "?"
        for fr in reversed(traceback.extract_tb(e.__traceback__)):
            if "/stix2/" in fr.filename:
                where = "%s:%s" % (os.path.basename(fr.filename), fr.name)
                break
        return "E", "%s@%s" % (type(e).__name__, where)


def run_row(case, part):
    """row i of the group's matrix. quick: the upper triangle (j >= i) for every row and the full row for every 5th row; thorough: all
    ordered pairs. The row is computed with find_equivalent_patterns (one public call per row) and cross-checked against direct
    equivalent_patterns calls on a deterministic stride of the pairs (clause 5); if the row call raises, every pair is called directly."""
    import stix2.equivalence.pattern as EP
    env.reset()
    g = groups(case["thorough"])
    asts, texts = g[case["group"]]
    i = case["row"]
    n = len(texts)
    part.state((case["group"], texts[i]), nontrivial=True)
    if case["group"] == "T":
        partners = [0, i]
    elif case["thorough"] or i % 5 == 0:
        partners = list(range(n))
    else:
        partners = list(range(i, n))
    row = ["?"] * n
    direct = set(j for j in partners if case["group"] == "T" or (j - i) % 11 == 0 or j == i)
    try:
        found = set(EP.find_equivalent_patterns(texts[i], [texts[j] for j in partners]))
        part.evaluations += len(partners)
        part.transitions += len(partners)
        for j in partners:
            row[j] = "1" if texts[j] in found else "0"
    except Exception:
        direct = set(partners)
    for j in sorted(direct):
        part.evaluations += 1
        part.transitions += 1
        r, err = call_eq(texts[i], texts[j])
        if err:
            alone, e2 = call_eq(texts[i], texts[i])
            alone_j, e3 = call_eq(texts[j], texts[j])
            culprit = texts[i] if alone == "E" else texts[j] if alone_j == "E" else None
            part.violation("C09/raises/%s%s" % (err, "" if culprit else "/only-in-combination"), "the equivalence test fails on syntactically valid patterns",
                           {"group": case["group"], "p": texts[i], "q": texts[j], "thorough": case["thorough"]}, "a boolean", err)
        elif row[j] != "?" and row[j] != r:
            part.violation("C09/find-vs-pairwise/%s" % case["group"], "find_equivalent_patterns disagrees with equivalent_patterns on the same pair",
                           {"group": case["group"], "p": texts[i], "q": texts[j], "thorough": case["thorough"]}, r, row[j])
        row[j] = r
    for r in row:
        if r != "?":
            part.outcome({"1": "equivalent", "0": "different", "E": "raises"}[r])
    sig = signature(case["group"], asts[i]) if asts is not None else None
    return (case["group"], i, "".join(row), sig)


def raise_feature(text):
    m = re.match(r"^\[([a-z0-9-]+):([^ ]+) (NOT )?([A-Z=!<>]+) (.*)\]$", text)
    if not m:
        return "structure"
    typ, path, neg, op, const = m.groups()
    ck = "set" if const.startswith("(") else "str" if const.startswith("'") else "ts" if const.startswith("t'") else "hex" if const.startswith("h'") else "bin" if const.startswith("b'") else \
        "bool" if const in ("true", "false") else "float" if "." in const else "int"
    special = typ in ("ipv4-addr", "ipv6-addr", "windows-registry-key")
    return "%s+const=%s" % ((typ + ":" + path) if special else "op=%s%s" % (neg or "", op), ck)


def skeleton(text):
    t = re.sub(r"'[^']*'", "S", text)
    t = re.sub(r"t'S'|\b\d+(\.\d+)?\b", "N", t)
    t = re.sub(r"x:[a-z_]+", "P", t)
    return t


# ---- rewrites (4) ----------------------------------------------------------------------------------------------
def rewrite_cases(thorough):
    out = []
    core = CORE
    for a, b in itertools.product(core, repeat=2):
        A1, B1 = ("leaf", a), ("leaf", b)
        for op in ("AND", "OR"):
            out.append(("commute-comparison", ("leaf", ("bool", op, (a, b))), ("leaf", ("bool", op, (b, a)))))
        out.append(("idempotence-comparison", ("leaf", ("bool", "AND", (a, a))), A1))
        out.append(("idempotence-comparison", ("leaf", ("bool", "OR", (a, a))), A1))
        out.append(("absorption-comparison", ("leaf", ("bool", "OR", (a, ("cparen", ("bool", "AND", (a, b)))))), A1))
        out.append(("absorption-comparison", ("leaf", ("bool", "AND", (a, ("cparen", ("bool", "OR", (a, b)))))), A1))
        out.append(("redundant-parentheses", ("leaf", ("cparen", ("cparen", a))), A1))
    for a, b, c in itertools.product(core[:4] if not thorough else core, repeat=3):
        out.append(("associate-comparison", ("leaf", ("bool", "AND", (a, ("cparen", ("bool", "AND", (b, c)))))), ("leaf", ("bool", "AND", (("cparen", ("bool", "AND", (a, b))), c)))))
        out.append(("distribute-comparison", ("leaf", ("bool", "AND", (a, ("cparen", ("bool", "OR", (b, c)))))),
                    ("leaf", ("bool", "OR", (("cparen", ("bool", "AND", (a, b))), ("cparen", ("bool", "AND", (a, c))))))))
    # the same rewrite applied INSIDE a larger expression, where AND and OR alternate four and five levels deep: one inner distribution step, and the fully distributed form
    cp = lambda op, *xs: ("cparen", ("bool", op, tuple(xs)))
    for a, b, c, d, e in itertools.permutations(core[:5], 5) if thorough else [tuple(core[i:] + core[:i])[:5] for i in range(len(core))]:
        deep = ("leaf", ("bool", "AND", (a, cp("OR", b, cp("AND", c, cp("OR", d, e))))))
        one_step = ("leaf", ("bool", "AND", (a, cp("OR", b, cp("AND", c, d), cp("AND", c, e)))))
        full = ("leaf", ("bool", "OR", (cp("AND", a, b), cp("AND", a, c, d), cp("AND", a, c, e))))
        out.append(("distribute-comparison-nested", deep, one_step))
        out.append(("distribute-comparison-nested", deep, full))
        out.append(("distribute-comparison-nested", one_step, full))
        deeper = ("leaf", ("bool", "OR", (e, cp("AND", a, cp("OR", b, cp("AND", c, cp("OR", d, a)))))))
        deeper_full = ("leaf", ("bool", "OR", (e, cp("AND", a, b), cp("AND", a, c, d), cp("AND", a, c, a))))
        out.append(("distribute-comparison-nested", deeper, deeper_full))
    out.append(("set-literal-order", ("leaf", ATOMS[8]), ("leaf", ATOMS[9])))
    out.append(("set-literal-order", ("leaf", atom("IN", "q", ("set", (S("a"), S("b"), S("c"))))), ("leaf", atom("IN", "q", ("set", (S("c"), S("a"), S("b")))))))
    for st in A.SETS:
        if len(st[1]) > 1:
            out.append(("set-literal-order", ("leaf", atom("IN", "p", st)), ("leaf", atom("IN", "p", ("set", tuple(reversed(st[1])))))))
            out.append(("set-literal-order", ("leaf", atom("IN", "p", st, True)), ("leaf", atom("IN", "p", ("set", tuple(reversed(st[1]))), True))))
    out.append(("set-literal-order", ("leaf", atom("IN", "p", ("set", (("hex", "AB"), ("hex", "aa"))))), ("leaf", atom("IN", "p", ("set", (("hex", "aa"), ("hex", "ab")))))))
    out.append(("numerically-equal-constants", ("leaf", ATOMS[0]), ("leaf", ATOMS[3])))
    out.append(("numerically-equal-constants", ("leaf", atom(">", "p", I(0))), ("leaf", atom(">", "p", ("float", 0.0)))))
    out.append(("not-equal-spellings", ("leaf", ATOMS[1]), ("leaf", ATOMS[2])))
    leaves = [X, Y, Z, ("qual", ("REPEATS", 2), X)]
    for a, b in itertools.product(leaves, repeat=2):
        for op in ("AND", "OR"):
            out.append(("commute-observation", ("obs", op, (a, b)), ("obs", op, (b, a))))
        out.append(("idempotence-observation-OR", ("obs", "OR", (a, a)), a))
        if a[0] != "qual":
            # the absorption rules are documented for plain observation expressions; with a QUALIFIED absorbing operand the library does
            # not apply them (incompleteness, which is not a violation) - such instances are not demanded
            out.append(("absorption-observation", ("obs", "OR", (a, ("obs", "AND", (a, b)))), a))
            out.append(("absorption-observation", ("obs", "OR", (a, ("obs", "FOLLOWEDBY", (a, b)))), a))
            out.append(("absorption-observation", ("obs", "OR", (a, ("obs", "FOLLOWEDBY", (b, a)))), a))
        out.append(("redundant-parentheses", ("oparen", ("oparen", a)), a))
    for a, b, c in itertools.product(leaves[:3], repeat=3):
        for op in ("AND", "OR", "FOLLOWEDBY"):
            out.append(("associate-observation", ("obs", op, (a, ("obs", op, (b, c)))), ("obs", op, (("obs", op, (a, b)), c))))
        out.append(("distribute-observation", ("obs", "AND", (a, ("obs", "OR", (b, c)))), ("obs", "OR", (("obs", "AND", (a, b)), ("obs", "AND", (a, c))))))
        out.append(("distribute-observation", ("obs", "FOLLOWEDBY", (a, ("obs", "OR", (b, c)))), ("obs", "OR", (("obs", "FOLLOWEDBY", (a, b)), ("obs", "FOLLOWEDBY", (a, c))))))
        out.append(("distribute-observation", ("obs", "FOLLOWEDBY", (("obs", "OR", (a, b)), c)), ("obs", "OR", (("obs", "FOLLOWEDBY", (a, c)), ("obs", "FOLLOWEDBY", (b, c))))))
    W, V = ("leaf", ATOMS[4]), ("leaf", ATOMS[13])
    ob = lambda op, *xs: ("obs", op, tuple(xs))
    for a, b, c, d, e in [(X, Y, Z, W, V), (V, W, X, Y, Z), (Z, X, V, Y, W)]:
        for op in ("AND", "FOLLOWEDBY"):
            deep = ob(op, a, ob("OR", b, ob(op, c, ob("OR", d, e))))
            one_step = ob(op, a, ob("OR", b, ob(op, c, d), ob(op, c, e)))
            full = ob("OR", ob(op, a, b), ob(op, a, c, d), ob(op, a, c, e))
            out.append(("distribute-observation-nested", deep, one_step))
            out.append(("distribute-observation-nested", deep, full))
    return out


def run_rewrites(case, part):
    env.reset()
    rc = rewrite_cases(case["thorough"])
    if case.get("phase"):
        # warm-up: 600 ordinary comparisons of small patterns with one or two OR groups under an AND (each against a commuted copy, which must be equivalent too)
        for i in range(600):
            width, ngroups = (3, 2) if i % 5 < 3 else (3, 1) if i % 5 == 3 else (2, 1)
            ors = [("cparen", ("bool", "OR", tuple(atom("=", "p%d" % gi, I(i * 10 + w)) for w in range(width)))) for gi in range(ngroups)]
            z = atom("=", "z", I(0))
            tp = A.to_text(("leaf", ("bool", "AND", (z,) + tuple(ors))))
            tq = A.to_text(("leaf", ("bool", "AND", tuple(reversed(ors)) + (z,))))
            r, err = call_eq(tp, tq)
            part.transitions += 1
            if r != "1":
                part.violation("C09/rewrite-not-recognised-late-in-a-long-lived-process/commute-comparison", "a documented algebraic rewrite is not recognised as an equivalence",
                               {"rewrite": "commute-comparison", "p": tp, "q": tq, "thorough": case["thorough"], "warmup_step": i}, "equivalent", err or "different")
                break
    for idx in range(case["lo"], min(case["hi"], len(rc))):
        rule, p, q = rc[idx]
        tp, tq = A.to_text(p), A.to_text(q)
        part.evaluations += 1
        part.transitions += 1
        r, err = call_eq(tp, tq)
        part.state(("rewrite", rule, tp, tq), nontrivial=True)
        part.outcome("rewrite:" + {"1": "recognised", "0": "NOT-recognised", "E": "raises"}[r])
        if r != "1":
            part.violation("C09/rewrite-not-recognised%s/%s" % ("-late-in-a-long-lived-process" if case.get("phase") else "", rule), "a documented algebraic rewrite is not recognised as an equivalence",
                           {"rewrite": rule, "p": tp, "q": tq, "thorough": case["thorough"]}, "equivalent", err or "different")
    return None


# ---- N: numeric constants at the limits of float arithmetic (exact-value oracle) --------------------------------
NUMBERS = [I(1), ("float", 1.0), I(2 ** 53), I(2 ** 53 + 1), I(2 ** 53 + 2), ("float", float(2 ** 53)), I(-(2 ** 53) - 1), I(2 ** 63), I(2 ** 63 + 1), I(2 ** 64), I(10 ** 30), I(10 ** 30 + 1),
           ("float", 0.1), ("float", 0.30000000000000004), ("float", 0.3), I(0), ("float", 0.5), I(10 ** 310), I(10 ** 310 + 1)]


def num_value(c):
    return c[1]


def number_patterns():
    """(text, denotation): denotation = frozenset of exact values for '=' / IN atoms and ORs of '=' atoms"""
    out = []
    for c in NUMBERS:
        out.append((A.to_text(("leaf", atom("=", "p", c))), ("set", frozenset([("n", num_value(c))]))))
    for a, b in itertools.combinations(NUMBERS[:12], 2):
        out.append((A.to_text(("leaf", atom("IN", "p", ("set", (a, b))))), ("set", frozenset([("n", num_value(a)), ("n", num_value(b))]))))
        out.append((A.to_text(("leaf", ("bool", "OR", (atom("=", "p", a), atom("=", "p", b))))), ("set", frozenset([("n", num_value(a)), ("n", num_value(b))]))))
    return out


def run_numbers(case, part):
    """all ordered pairs: two patterns of this family are equivalent exactly when they allow the same set of exact numbers (Python compares int and float exactly)"""
    env.reset()
    pats = number_patterns()
    i = case["row"]
    ti, di = pats[i]
    part.state(("N", ti), nontrivial=True)
    for j, (tj, dj) in enumerate(pats):
        part.evaluations += 1
        part.transitions += 1
        r, err = call_eq(ti, tj)
        c = {"kind": "numbers", "row": i, "p": ti, "q": tj}
        if err:
            part.outcome("raises")
            part.violation("C09/raises/%s/numeric-constant" % err, "the equivalence test fails on syntactically valid patterns", c, "a boolean", err)
            continue
        same = di == dj
        part.outcome("equivalent" if r == "1" else "different")
        if r == "1" and not same:
            part.violation("C09/unsound/numeric-constants", "patterns that allow different numbers are reported equivalent", c, "different", "equivalent")
        if r == "0" and same and i == j:
            part.violation("C09/not-reflexive/numeric-constant", "a pattern is not reported equivalent to itself", c, True, False)


# ---- PATH: object paths that extend one another (exact-structure oracle, both argument orders) -------------------------
PATH_MENU = [(("key", "p"),), (("key", "p"), ("key", "q")), (("key", "p"), ("key", "q"), ("key", "r")), (("key", "p"), ("idx", 1)), (("key", "p"), ("idx", 2)), (("key", "p"), ("idx", "*")),
             (("key", "p"), ("idx", 1), ("key", "q")), (("key", "p"), ("idx", "*"), ("key", "q")), (("key", "hashes"),), (("key", "hashes"), ("key", "MD5")), (("key", "hashes"), ("key", "SHA-256")),
             (("key", "q"),), (("key", "q"), ("key", "p")), (("key", "p_ref"), ("key", "q")), (("key", "p_ref"),), (("key", "p"), ("key", "q"), ("idx", 1))]


def path_patterns():
    out = []
    for path in PATH_MENU:
        out.append((A.to_text(("leaf", ("cmp", "=", False, ("path", "x", path), S("v")))), ("eq", path)))
    for a, b in itertools.combinations(PATH_MENU[:8], 2):
        out.append((A.to_text(("leaf", ("bool", "OR", (("cmp", "=", False, ("path", "x", a), S("v")), ("cmp", "=", False, ("path", "x", b), S("v")))))), ("or", frozenset([a, b]))))
    return out


def run_paths(case, part):
    """all ordered pairs: equivalent exactly when the same set of paths is constrained (a path is never equivalent to an extension of itself, in either argument order)"""
    env.reset()
    pats = path_patterns()
    i = case["row"]
    ti, di = pats[i]
    part.state(("PATH", ti), nontrivial=True)
    for j, (tj, dj) in enumerate(pats):
        part.evaluations += 1
        part.transitions += 1
        r, err = call_eq(ti, tj)
        c = {"kind": "paths", "row": i, "p": ti, "q": tj}
        if err:
            part.violation("C09/raises/%s/object-path" % err, "the equivalence test fails on syntactically valid patterns", c, "a boolean", err)
            continue
        same = (di[1] == dj[1]) if di[0] == dj[0] else (di[0] == "eq" and dj[1] == frozenset([di[1]])) or (dj[0] == "eq" and di[1] == frozenset([dj[1]]))
        part.outcome("equivalent" if r == "1" else "different")
        if r == "1" and not same:
            part.violation("C09/unsound/object-paths", "patterns that constrain different object paths are reported equivalent", c, "different", "equivalent")
        if r == "0" and i == j:
            part.violation("C09/not-reflexive/object-path", "a pattern is not reported equivalent to itself", c, True, False)


# ---- Q: qualifier values (exact-value oracle) ---------------------------------------------------------------------------
def qualifier_patterns():
    base = ("obs", "AND", (X, Y))
    out = []
    for w in (2, 2.0, 2.2, 2.5, 0.5, 0.25, 3, 2.0000000000000004):
        out.append((A.to_text(("qual", ("WITHIN", w), base)), ("within", float(w))))
    for n in (1, 2, 3, 20):
        out.append((A.to_text(("qual", ("REPEATS", n), base)), ("repeats", n)))
    for a, b in ((BASE_T, BASE_T + 2 * SEC), (BASE_T, BASE_T + 3 * SEC), (BASE_T + SEC, BASE_T + 2 * SEC), (BASE_T, BASE_T + 2 * SEC + 1000 * A.tsfmt.PS_PER_US)):
        out.append((A.to_text(("qual", ("STARTSTOP", a, b), base)), ("startstop", a, b)))
    out.append((A.to_text(base), ("none",)))
    return out


def run_qualifiers(case, part):
    """all ordered pairs: the same compound expression under two qualifiers is equivalent exactly when the qualifiers carry the same value"""
    env.reset()
    pats = qualifier_patterns()
    i = case["row"]
    ti, di = pats[i]
    part.state(("Q", ti), nontrivial=True)
    for j, (tj, dj) in enumerate(pats):
        part.evaluations += 1
        part.transitions += 1
        r, err = call_eq(ti, tj)
        c = {"kind": "qualifiers", "row": i, "p": ti, "q": tj}
        if err:
            part.violation("C09/raises/%s/qualifier" % err, "the equivalence test fails on syntactically valid patterns", c, "a boolean", err)
            continue
        part.outcome("equivalent" if r == "1" else "different")
        if r == "1" and di != dj:
            part.violation("C09/unsound/qualifier-values/%s" % di[0], "the same expression under qualifiers with different values is reported equivalent", c, "different", "equivalent")
        if r == "0" and i == j:
            part.violation("C09/not-reflexive/qualifier", "a pattern is not reported equivalent to itself", c, True, False)


# ---- M: several object types in one pattern (find_equivalent_patterns vs pairwise on EVERY pair) ---------------
def multi_type_patterns():
    a, b, c = (("cmp", "=", False, ("path", t, (("key", "p"),)), I(1)) for t in ("aa-a", "bb-b", "cc-c"))
    LA, LB, LC = ("leaf", a), ("leaf", b), ("leaf", c)
    out = [LA, LB, ("obs", "OR", (LA, ("obs", "AND", (LA, LB)))), ("obs", "OR", (LA, ("obs", "FOLLOWEDBY", (LB, LA)))), ("obs", "OR", (LA, ("obs", "FOLLOWEDBY", (LA, LB)))),
           ("obs", "OR", (("obs", "AND", (LB, LA)), LA)), ("obs", "AND", (LA, LB)), ("obs", "AND", (LB, LA)), ("obs", "FOLLOWEDBY", (LA, LB)), ("obs", "FOLLOWEDBY", (LB, LA))]
    for perm in itertools.permutations((a, b, c)):
        out.append(("leaf", ("bool", "OR", perm)))
    out.append(("leaf", ("bool", "OR", (("cparen", ("bool", "OR", (a, b))), c))))
    out.append(("leaf", ("bool", "OR", (a, ("cparen", ("bool", "OR", (b, c)))))))
    for perm in itertools.permutations((LA, LB, LC)):
        out.append(("obs", "OR", perm))
        out.append(("obs", "AND", perm))
    out.append(("obs", "OR", (LA, ("oparen", ("obs", "OR", (LB, LC))))))
    out += [("leaf", ("bool", "OR", (a, b))), ("leaf", ("bool", "OR", (b, a))), ("leaf", ("bool", "AND", (a, ("cparen", ("bool", "OR", (a, b))))))]
    return [A.to_text(t) for t in out]


def run_multitype(case, part):
    import stix2.equivalence.pattern as EP
    env.reset()
    texts = multi_type_patterns()
    i = case["row"]
    part.state(("M", texts[i]), nontrivial=True)
    try:
        found = set(EP.find_equivalent_patterns(texts[i], texts))
    except Exception as e:
        part.violation("C09/raises/%s/find_equivalent_patterns" % type(e).__name__, "find_equivalent_patterns fails on syntactically valid patterns", {"kind": "multitype", "row": i, "p": texts[i]}, "a list", str(e)[:100])
        return
    # the collection in every iterable form the documentation allows ("stream patterns in"): the answer is a property of the members, not of the container
    for form, make in (("tuple", lambda: tuple(texts)), ("iterator", lambda: iter(list(texts))), ("generator", lambda: (t for t in texts)), ("dict-keys", lambda: dict.fromkeys(texts).keys())):
        part.evaluations += 1
        part.transitions += 1
        try:
            got = list(EP.find_equivalent_patterns(texts[i], make()))
        except Exception as e:
            part.violation("C09/raises/%s/find_equivalent_patterns(%s)" % (type(e).__name__, form), "find_equivalent_patterns fails on a documented collection form", {"kind": "multitype", "row": i, "p": texts[i], "form": form},
                           "a list", str(e)[:100])
            continue
        if set(got) != found or len(got) != len(set(got)):
            part.violation("C09/find-depends-on-collection-form/%s" % form, "find_equivalent_patterns answers differently when the same patterns arrive as another kind of iterable",
                           {"kind": "multitype", "row": i, "p": texts[i], "form": form}, sorted(found), sorted(got))
    row = ""
    for j, tj in enumerate(texts):
        part.evaluations += 2
        part.transitions += 2
        r, err = call_eq(texts[i], tj)
        c = {"kind": "multitype", "row": i, "p": texts[i], "q": tj}
        if err:
            part.violation("C09/raises/%s/several-object-types" % err, "the equivalence test fails on syntactically valid patterns", c, "a boolean", err)
            continue
        part.outcome("equivalent" if r == "1" else "different")
        if (tj in found) != (r == "1"):
            part.violation("C09/find-vs-pairwise/M", "find_equivalent_patterns disagrees with equivalent_patterns on the same pair", c, r, "1" if tj in found else "0")
        row += r
    return ("M", i, row, None)


def run_address_history(case, part):
    """HISTORY across the special-value canonicalisers: an address text met first under its own family's path (ipv4-addr:value / ipv6-addr:value), then under the other
    family's path and under an ordinary path - the answer for a pair never depends on which patterns were compared before.  Each case uses texts of its own, so that
    every case starts cold whatever ran earlier in the worker."""
    env.reset()
    i = case["row"]
    a, b = "10.%d.2.3/8" % i, "10.0.0.0/8"                 # equal networks as IPv4 CIDR texts, unequal as plain strings
    c6, d6 = "2001:db8:%x::1/32" % i, "2001:db8::/32"
    fam = lambda t, v: "[%s:value = '%s']" % (t, v)
    questions = [(fam("ipv6-addr", a), fam("ipv6-addr", b)), (fam("x-other", a), fam("x-other", b)), (fam("ipv4-addr", c6), fam("ipv4-addr", d6)), (fam("domain-name", c6), fam("domain-name", d6)),
                 (fam("ipv4-addr", a), fam("ipv4-addr", b)), (fam("ipv6-addr", c6), fam("ipv6-addr", d6))]
    primers = [(fam("ipv4-addr", a), fam("ipv4-addr", b)), (fam("ipv6-addr", c6), fam("ipv6-addr", d6)), (fam("ipv6-addr", a), fam("ipv6-addr", b)), (fam("ipv4-addr", c6), fam("ipv4-addr", d6))]
    cold = {}
    order = case.get("order", 0)
    qs = questions if order == 0 else list(reversed(questions))
    for p, q in qs[:4]:
        cold[(p, q)] = call_eq(p, q)[0]
        part.transitions += 1
    for p, q in primers:
        call_eq(p, q)
        part.transitions += 1
    for p, q in qs[:4]:
        part.evaluations += 1
        part.transitions += 1
        warm = call_eq(p, q)[0]
        part.state(("address-history", i, order, p, q, warm))
        if warm != cold[(p, q)]:
            part.outcome("address-history:DIFFERS")
            part.violation("C09/answer-depends-on-earlier-comparisons/address-constants", "the same pair of patterns is answered differently after other patterns with the same constant texts were compared",
                           dict(case, p=p, q=q), cold[(p, q)], warm)
        else:
            part.outcome("address-history:same")
        # soundness on its own: as plain strings (any path but the own family's) the two texts are different constants
        if warm == "1" and not (p.startswith("[ipv4-addr") and "10." in p) and not (p.startswith("[ipv6-addr") and "2001" in p):
            part.violation("C09/unsound/address-text-under-another-path", "address texts that differ as strings are reported equivalent under a path where they are not addresses of that family", dict(case, p=p, q=q), "different", "equivalent")


# ---- V: the stix_version argument of both public calls ------------------------------------------------------------
VERSION_PATTERNS = ["[a:b = 1]", "[a:b = 1] OR [a:b = 1]", "[a:c = 2 OR a:b = 1]", "[a:b = 1 OR a:c = 2]", "[a:EXISTS = 1]", "[a:b.EXISTS = 1]", "[a:EXISTS = 1] OR [a:EXISTS = 1]",
                    "[a:b = 1] AND [a:EXISTS = 1]", "[a:EXISTS = 1] AND [a:b = 1]", "[a:b = 1] REPEATS 2 TIMES", "([a:b = 1]) REPEATS 2 TIMES"]
VERSION_CLASSES = [{0, 1}, {2, 3}, {4, 6}, {5}, {7, 8}, {9, 10}]          # the answer expected among them under the grammar that accepts them all (2.0: EXISTS is an ordinary name)


def run_versions(case, part):
    """both calls with the version named (keyword and positional): every pattern of the 2.0 grammar is answered, a name that is a keyword of the other grammar included; find == pairwise;
    patterns both grammars accept are answered as with the default"""
    import stix2.equivalence.pattern as EP
    env.reset()
    texts = VERSION_PATTERNS
    i = case["row"]
    both = [k for k, t in enumerate(texts) if "EXISTS" not in t]
    for ver, how in (("2.0", "keyword"), ("2.0", "positional"), ("2.1", "keyword")):
        idx = list(range(len(texts))) if ver == "2.0" else both
        if i not in idx:
            continue
        part.state(("V", texts[i], ver, how), nontrivial=True)
        row = {}
        for j in idx:
            part.evaluations += 1
            part.transitions += 1
            c = {"kind": "versions", "row": i, "p": texts[i], "q": texts[j], "stix_version": ver, "how": how}
            try:
                r = EP.equivalent_patterns(texts[i], texts[j], stix_version=ver) if how == "keyword" else EP.equivalent_patterns(texts[i], texts[j], ver)
            except Exception as e:
                part.violation("C09/raises/%s/version-named" % type(e).__name__, "the equivalence test fails on patterns that are valid under the version named", c, "a boolean", str(e)[:100])
                continue
            row[j] = bool(r)
            part.outcome("equivalent" if r else "different")
            want = any(i in cl and j in cl for cl in VERSION_CLASSES)
            if bool(r) != want:
                part.violation("C09/version-named/%s" % ("unsound" if r else "documented-rewrite-not-recognised"), "the answer under a named version differs from the answer the same rewrite rules give", c, want, bool(r))
        for form, make in (("list", lambda: [texts[j] for j in idx]), ("generator", lambda: (texts[j] for j in idx))):
            part.evaluations += 1
            part.transitions += 1
            c = {"kind": "versions", "row": i, "p": texts[i], "stix_version": ver, "how": how, "form": form}
            try:
                got = list(EP.find_equivalent_patterns(texts[i], make(), stix_version=ver) if how == "keyword" else EP.find_equivalent_patterns(texts[i], make(), ver))
            except Exception as e:
                part.violation("C09/raises/%s/find_equivalent_patterns/version-named" % type(e).__name__, "find_equivalent_patterns fails on patterns that are valid under the version named", c, "a list", str(e)[:100])
                continue
            want = [texts[j] for j in idx if row.get(j)]
            if sorted(got) != sorted(want):
                part.violation("C09/find-vs-pairwise/version-named", "find_equivalent_patterns disagrees with equivalent_patterns under the same named version", c, want, got)


def run_case(case, part):
    if case["kind"] == "versions":
        return run_versions(case, part)
    if case["kind"] == "address-history":
        return run_address_history(case, part)
    if case["kind"] == "row":
        return run_row(case, part)
    if case["kind"] == "numbers":
        return run_numbers(case, part)
    if case["kind"] == "multitype":
        return run_multitype(case, part)
    if case["kind"] == "paths":
        return run_paths(case, part)
    if case["kind"] == "qualifiers":
        return run_qualifiers(case, part)
    return run_rewrites(case, part)


def replay(case, part):
    th = case.get("thorough", False)
    if case.get("kind") == "address-history":
        return run_address_history({"kind": "address-history", "row": case["row"], "order": case.get("order", 0)}, part)
    if case.get("kind") == "versions":
        return run_versions({"kind": "versions", "row": case["row"]}, part)
    if "rewrite" in case:
        rc = rewrite_cases(th)
        for i, (rule, p, q) in enumerate(rc):
            if A.to_text(p) == case["p"] and A.to_text(q) == case["q"]:
                return run_rewrites({"thorough": th, "lo": i, "hi": i + 1}, part)
        return
    g = groups(th)
    asts, texts = g[case["group"]]
    rows = [i for i, t in enumerate(texts) if t in (case.get("p"), case.get("q"), case.get("r"))]
    got = {}
    for i in rows:
        r = run_row({"group": case["group"], "row": i, "thorough": th}, part)
        got[i] = r
    analyse(case["group"], {i: (r[2], r[3]) for i, r in got.items()}, texts, part, th, partial=True)


def analyse(group, rows, texts, part, thorough, partial=False):
    """(2) relation laws and (3) soundness on the assembled matrix"""
    n = len(texts)
    idx = sorted(rows)

    def cell(i, j):
        c = rows[i][0][j] if i in rows else "?"
        if c == "?" and j in rows:
            c = rows[j][0][i]          # only used where symmetry is not the clause under test
        return c

    def E(i, j):
        return cell(i, j) == "1"
    if group == "T":
        for i in idx:
            if rows[i][0][i] != "1" and i != 0:
                part.violation("C09/not-reflexive/%s" % raise_feature(texts[i]), "a pattern is not reported equivalent to itself", {"group": group, "p": texts[i], "q": texts[i], "thorough": thorough}, True,
                               rows[i][0][1])
        return
    for i in idx:
        if rows[i][0][i] == "0":
            part.violation("C09/not-reflexive/%s" % (raise_feature(texts[i]) if group == "S" else group), "a pattern is not reported equivalent to itself",
                           {"group": group, "p": texts[i], "q": texts[i], "thorough": thorough}, True, False)
        for j in idx:
            if j > i and "?" not in (rows[i][0][j], rows[j][0][i]) and rows[i][0][j] != rows[j][0][i] and "E" not in (rows[i][0][j], rows[j][0][i]):
                part.violation("C09/not-symmetric/%s" % group, "equivalent(p, q) differs from equivalent(q, p)", {"group": group, "p": texts[i], "q": texts[j], "thorough": thorough},
                               rows[i][0][j], rows[j][0][i])
    if not partial:
        # transitivity: connected components of the relation must be complete blocks
        comp = list(range(n))

        def find(x):
            while comp[x] != x:
                comp[x] = comp[comp[x]]
                x = comp[x]
            return x
        for i in idx:
            for j in idx:
                if j > i and E(i, j):
                    comp[find(i)] = find(j)
        blocks = {}
        for i in idx:
            blocks.setdefault(find(i), []).append(i)
        part.notes["%s:equivalence-classes" % group] = len(blocks)
        for members in blocks.values():
            bad = [(i, j) for i in members for j in members if i < j and cell(i, j) == "0"]
            if bad:
                i, j = min(bad, key=lambda t: (len(texts[t[0]]) + len(texts[t[1]]), texts[t[0]], texts[t[1]]))
                mid = next((k for k in members if E(i, k) and E(k, j)), None)
                part.violation("C09/not-transitive/%s" % group, "p ~ r and r ~ q are reported, p ~ q is not", {"group": group, "p": texts[i], "q": texts[j], "r": texts[mid] if mid is not None else None,
                                                                                                                "thorough": thorough}, True, False)
    # soundness
    unsound = []
    disputed = 0
    for i in idx:
        si = rows[i][1]
        if si is None:
            continue
        for j in idx:
            if j <= i or not E(i, j):
                continue
            sj = rows[j][1]
            if sj is None:
                continue
            agree = [a == b for a, b in zip(si, sj)]
            if not any(agree):
                unsound.append((i, j))
            elif not all(agree):
                disputed += 1
    part.notes["%s:pairs-equivalent-only-under-some-readings" % group] = disputed
    if unsound:
        i, j = min(unsound, key=lambda t: (len(texts[t[0]]) + len(texts[t[1]]), texts[t[0]], texts[t[1]]))
        part.violation("C09/unsound/%s/%s == %s" % (group, skeleton(texts[i]), skeleton(texts[j])),
                       "two patterns are reported equivalent although they match different observation sequences under every reading of the semantics (%d such pairs)" % len(unsound),
                       {"group": group, "p": texts[i], "q": texts[j], "thorough": thorough}, "same matches", "distinguished by the evaluator (%d pairs in this group)" % len(unsound))
    if group == "S":
        cidr_clause(rows, texts, part, thorough)


def network_of(text):
    m = re.match(r"^\[(ipv4-addr|ipv6-addr):value = '([^']*)'\]$", text)
    if not m:
        return None
    try:
        return ipaddress.ip_network(m.group(2), strict=False)
    except ValueError:
        return "invalid"


def cidr_clause(rows, texts, part, thorough):
    def cell(i, j):
        c = rows[i][0][j]
        return rows[j][0][i] if c == "?" else c
    for i in rows:
        ni = network_of(texts[i])
        if ni is None or ni == "invalid":
            continue
        for j in rows:
            nj = network_of(texts[j])
            if j <= i or nj is None or nj == "invalid":
                continue
            if cell(i, j) == "1" and ni != nj:
                part.violation("C09/cidr-unsound", "two address constants are reported equivalent although they denote different networks", {"group": "S", "p": texts[i], "q": texts[j], "thorough": thorough},
                               str(ni), str(nj))
            if cell(i, j) == "0" and ni == nj:
                part.notes["S:same-network-not-recognised"] += 1


def run(run):
    th = run.thorough
    g = groups(th)
    cases = []
    for name, (asts, texts) in g.items():
        for i in range(len(texts)):
            cases.append({"kind": "row", "group": name, "row": i, "thorough": th})
    nrw = len(rewrite_cases(th))
    for lo in range(0, nrw, 50):
        cases.append({"kind": "rewrites", "lo": lo, "hi": lo + 50, "thorough": th})
    for i in range(len(number_patterns())):
        cases.append({"kind": "numbers", "row": i})
    for i in range(len(multi_type_patterns())):
        cases.append({"kind": "multitype", "row": i})
    for i in range(len(path_patterns())):
        cases.append({"kind": "paths", "row": i})
    for i in range(len(VERSION_PATTERNS)):
        cases.append({"kind": "versions", "row": i})
    for i in range(len(qualifier_patterns())):
        cases.append({"kind": "qualifiers", "row": i})
    # the same rewrite instances once more, each chunk after a warm-up of 600 ordinary comparisons in the same process: the answer must not depend on
    # how much the process has already compared
    cases += [{"kind": "rewrites", "lo": lo, "hi": lo + 50, "thorough": th, "phase": "late"} for lo in range(0, nrw, 50)]
    cases += [{"kind": "address-history", "row": i, "order": i % 2} for i in range(1, 9)]
    run.mode = "DEV (all ordered pairs)"
    run.part.results = []
    run.pmap(run_case, cases)
    rows = {}
    for _, r in run.part.results:
        if r is None:
            continue
        gname, i, row, sig = r
        if gname == "M":
            continue
        rows.setdefault(gname, {})[i] = (row, sig)
    run.part.results = []
    for gname, (asts, texts) in g.items():
        analyse(gname, rows.get(gname, {}), texts, run.part, th)
    sizes = {k: len(v[1]) for k, v in g.items()}
    run.rule = ("all ordered pairs of patterns inside each group through equivalent_patterns (%s); + %d rewrite instances; + find_equivalent_patterns for %s rows; matrix laws on the whole matrix; "
                "numeric constants at the limits of float arithmetic (%d patterns, all ordered pairs, exact-value oracle); patterns over several object types (%d, every pair through both entry points); "
                "every rewrite instance asked again at the end of each worker process; soundness against an independent evaluator on 12 objects / %d observation sequences x %d readings; states = distinct patterns and rewrite instances"
                % (", ".join("%s: %d^2" % (k, n) for k, n in sizes.items() if k != "T") + ", T: %d x 2" % sizes["T"], nrw, "all" if th else "every 7th", len(number_patterns()), len(multi_type_patterns()), len(universe("XY")), len(SEMS)))
    run.bound = {"group_sizes": sizes, "universe_objects": len(OBJECTS), "universe_sequences": len(universe("XY")), "semantic_readings": len(SEMS), "rewrite_instances": nrw}
    run.assumptions += ["independent evaluator in mc/checks/c09_pattern_equivalence.py; where the specification's semantics is disputed a FAMILY of readings is used and a pair is unsound only if every reading "
                        "distinguishes it", "properties are always present in universe objects (the missing-path semantics of NOT is never exercised)", "incompleteness (equal but reported different) is not a violation"]
    run.part.sample({"group": "C", "p": "[x:p != 1 AND (x:q = 'a' OR x:p > 0)]", "q": "[(x:p != 1 AND x:q = 'a') OR (x:p != 1 AND x:p > 0)]", "expect": "equivalent, and equal on all 12 objects"})
    run.part.sample({"group": "D", "p": "([x:p = 1] AND [x:p = 1] AND [x:p = 2]) OR ([x:p = 1] AND [x:p = 2] AND [x:p = 3])", "q": "[x:p = 1] AND [x:p = 1] AND [x:p = 2]", "expect": "NOT equivalent"})
    run.part.sample({"group": "S", "p": "[ipv4-addr:value = '198.51.100.77/24']", "q": "[ipv4-addr:value = '198.51.100.0/24']", "expect": "equivalent (same network)"})
    o = run.part.outcomes
    run.require(o.get("equivalent", 0) > 1000 and o.get("different", 0) > 10000, "both verdicts observed in bulk")
    run.require(o.get("rewrite:recognised", 0) > 300, "rewrite instances executed")
