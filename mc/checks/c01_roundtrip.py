"""C01 - Serialize/parse round trip is lossless for every object and option set.

DEV-mode enumeration: every generated valid instance of every type of both spec versions (frozen spec model; deviation bound 1, thorough 2)
plus objects with custom content, harness-registered custom types, bundles, observed-data containers and timestamp 'transplants'
(values moved between properties of different precision) x all 24 combinations of the serialization options (+ ensure_ascii=False).
State graph: object -serialize(o)-> text -parse(no version)-> object' -serialize(o)-> text' -parse-> object'' -serialize(o)-> text''.
Clauses: strict JSON; same class and equal; byte-identical re-serialization; all option sets denote the same JSON value modulo
spec-default optionals; pretty output lists top-level properties in (frozen) specification order; canonical timestamps.
"""
import copy
import itertools
import json

from mc import env
from mc.ref import tsfmt
from mc.spec import gen, harness, model

ID = "C01"
OPTIONS = [dict(pretty=p, sort_keys=s, indent=i, include_optional_defaults=d) for p in (False, True) for s in (False, True) for i in (None, 0, 2) for d in (False, True)]
OPTIONS.append(dict(pretty=False, sort_keys=False, indent=None, include_optional_defaults=False, ensure_ascii=False))
OPTIONS.append(dict(pretty=True, sort_keys=False, indent=None, include_optional_defaults=True, ensure_ascii=False))
U = gen.U


def oname(o):
    return ",".join("%s=%s" % (k[:3], v) for k, v in sorted(o.items()) if v not in (False, None))


def parse_before_registration(R):
    """HISTORY: every custom type of this harness is first met by the parser while it is still unregistered (both strictness settings, alone and as a
    bundle member), and only then registered; whatever the parser remembers of the miss must not survive the registration"""
    import stix2
    TS = "2016-05-12T08:17:27.000Z"
    docs = []
    if "x-verif-obj" not in R["2.1"]["objects"]:
        docs.append(("2.1", {"type": "x-verif-obj", "spec_version": "2.1", "id": "x-verif-obj--" + U + "01", "created": TS, "modified": TS, "prop": "p"}))
    if "x-verif-obj" not in R["2.0"]["objects"]:
        docs.append(("2.0", {"type": "x-verif-obj", "id": "x-verif-obj--" + U + "01", "created": TS, "modified": TS, "prop": "p"}))
    if "x-verif-sco" not in R["2.1"]["observables"]:
        docs.append(("2.1", {"type": "x-verif-sco", "spec_version": "2.1", "id": "x-verif-sco--" + U + "01", "prop": "p"}))
        docs.append(("2.1", {"type": "file", "spec_version": "2.1", "name": "f", "extensions": {"x-verif-ext": {"level": 0}}}))
        docs.append(("2.1", {"type": "marking-definition", "spec_version": "2.1", "id": "marking-definition--" + U + "01", "created": TS, "definition_type": "x-verif-mark", "definition": {"level": "high"}}))
    for ver, d in docs:
        for allow in (True, False):
            for form in ("dict", "text", "bundle", "versioned"):
                try:
                    if form == "dict":
                        stix2.parse(copy.deepcopy(d), allow_custom=allow)
                    elif form == "text":
                        stix2.parse(json.dumps(d), allow_custom=allow)
                    elif form == "versioned":
                        stix2.parse(copy.deepcopy(d), allow_custom=allow, version=ver)
                    else:
                        b = {"type": "bundle", "id": "bundle--" + U + "0b", "objects": [copy.deepcopy(d)]}
                        if ver == "2.0":
                            b["spec_version"] = "2.0"
                        stix2.parse(b, allow_custom=allow)
                except Exception:
                    pass


def register_custom():
    import stix2
    from stix2 import properties as P
    R = stix2.registry.STIX2_OBJ_MAPS
    parse_before_registration(R)
    if "x-verif-obj" not in R["2.1"]["objects"]:
        @stix2.v21.CustomObject("x-verif-obj", [("prop", P.StringProperty(required=True)), ("count", P.IntegerProperty()), ("when", P.TimestampProperty()),
                                                  ("x_extra", P.StringProperty())])
        class A(object):
            pass
    if "x-verif-obj" not in R["2.0"]["objects"]:
        @stix2.v20.CustomObject("x-verif-obj", [("prop", P.StringProperty(required=True)), ("count", P.IntegerProperty())])
        class B(object):
            pass
    if "x-verif-sco" not in R["2.1"]["observables"]:
        @stix2.v21.CustomObservable("x-verif-sco", [("prop", P.StringProperty(required=True)), ("num", P.FloatProperty())], ["prop"])
        class C(object):
            pass
    if "x-verif-ext" not in R["2.1"]["extensions"]:
        @stix2.v21.CustomExtension("x-verif-ext", [("level", P.IntegerProperty(required=True)), ("note", P.StringProperty())])
        class D(object):
            pass
    if "extension-definition--" + U + "f1" not in R["2.1"]["extensions"]:
        @stix2.v21.CustomExtension("extension-definition--" + U + "f1", [("ext_rank", P.IntegerProperty()), ("ext_flag", P.BooleanProperty())])
        class E(object):
            extension_type = "toplevel-property-extension"
    if "x-verif-mark" not in R["2.1"]["markings"]:
        @stix2.v21.CustomMarking("x-verif-mark", [("level", P.StringProperty(required=True))])
        class F(object):
            pass


def add_custom_spec_entries():
    """hand-written spec entries for the harness-registered custom types (what the decorators document: common properties, then the
    declared ones in declaration order, then the trailing common properties, then x_ properties sorted)"""
    for ver in ("2.0", "2.1"):
        sp = model.spec(ver)
        if "objects:x-verif-obj" in sp.classes:
            continue
        ident = sp.classes["objects:identity"]["properties"]
        common_head = ["type"] + (["spec_version"] if ver == "2.1" else []) + ["id", "created_by_ref", "created", "modified"]
        common_tail = ["revoked", "labels"] + (["confidence", "lang"] if ver == "2.1" else []) + ["external_references", "object_marking_refs", "granular_markings"] + (["extensions"] if ver == "2.1" else [])
        own = [("prop", {"kind": "string", "required": True}), ("count", {"kind": "integer"})] + ([("when", {"kind": "timestamp", "fraction": "any"})] if ver == "2.1" else [])
        props = {n: ident[n] for n in common_head + common_tail if n in ident}
        props["type"] = {"kind": "type", "fixed": "x-verif-obj"}
        props.update(dict(own))
        if ver == "2.1":
            props["x_extra"] = {"kind": "string"}
        sp.classes["objects:x-verif-obj"] = {"name": "A", "category": "objects", "type": "x-verif-obj", "properties": props,
                                             "order": common_head + [n for n, _ in own] + common_tail + (["x_extra"] if ver == "2.1" else [])}
        if ver == "2.1":
            f = sp.classes["observables:file"]["properties"]
            order = ["type", "spec_version", "id", "prop", "num", "object_marking_refs", "granular_markings", "defanged", "extensions"]
            props = {n: f[n] for n in order if n in f}
            props.update({"type": {"kind": "type", "fixed": "x-verif-sco"}, "prop": {"kind": "string", "required": True}, "num": {"kind": "float"}})
            sp.classes["observables:x-verif-sco"] = {"name": "C", "category": "observables", "type": "x-verif-sco", "properties": props, "order": order, "id_contributing": ["prop"]}
            sp.classes["extensions:x-verif-ext"] = {"name": "D", "category": "extensions", "type": "x-verif-ext", "order": ["level", "note"],
                                                    "properties": {"level": {"kind": "integer", "required": True}, "note": {"kind": "string"}}}


def extra_objects():
    """(label, version, top-level JSON, allow_custom) beyond the generated instances"""
    g21, g20 = gen.Gen("2.1"), gen.Gen("2.0")
    TS = "2016-05-12T08:17:27.000Z"
    out = []
    base = g21.minimal("objects:identity")
    out.append(("custom-property", "2.1", dict(base, x_foo="bar", x_num=0), True))
    out.append(("custom-property-order", "2.1", dict(base, x_b="b", x_a="a", description="d"), True))
    out.append(("custom-property-20", "2.0", dict(g20.minimal("objects:identity"), x_foo="bar"), True))
    # numbers in positions the library does not type: they come back from TEXT exactly as they went in
    nums = {"x_float": 0.7, "x_nested": {"a": [1.1, {"b": 1e22, "c": -0.0, "d": 5e-324}], "e": 2 ** 53 + 1, "f": 1e-7, "g": 123456789.125}, "x_list": [0.1, 0.2, 0.30000000000000004]}
    out.append(("custom-property-floats", "2.1", dict(base, **nums), True))
    out.append(("custom-property-floats-20", "2.0", dict(g20.minimal("objects:identity"), **nums), True))
    f = g21.minimal("observables:file")
    out.append(("custom-extension-unregistered", "2.1", dict(f, extensions={"x-unreg-ext": {"a": 1}}), True))
    out.append(("custom-extension-unregistered-floats", "2.1", dict(f, extensions={"x-unreg-ext": {"a": 0.7, "b": [1.1, 1e22]}}), True))
    out.append(("extension-definition-unregistered-floats", "2.1", dict(f, extensions={"extension-definition--" + U + "f2": {"extension_type": "property-extension", "a": 0.7, "b": [1.1, 1e22]}}), False))
    out.append(("registered-extension", "2.1", dict(f, extensions={"x-verif-ext": {"level": 0, "note": ""}}), False))
    out.append(("registered-toplevel-extension", "2.1", dict(base, ext_rank=3, ext_flag=False, extensions={"extension-definition--" + U + "f1": {"extension_type": "toplevel-property-extension"}}), False))
    out.append(("registered-custom-object", "2.1", {"type": "x-verif-obj", "spec_version": "2.1", "id": "x-verif-obj--" + U + "01", "created": TS, "modified": TS, "prop": "p", "count": 0,
                                                  "when": "2016-05-12T08:17:27.5Z"}, False))
    out.append(("registered-custom-object-x-prop", "2.1", {"type": "x-verif-obj", "spec_version": "2.1", "id": "x-verif-obj--" + U + "01", "created": TS, "modified": TS, "prop": "p",
                                                         "x_extra": "e", "labels": ["l"]}, False))
    out.append(("registered-custom-object-20", "2.0", {"type": "x-verif-obj", "id": "x-verif-obj--" + U + "01", "created": TS, "modified": TS, "prop": "p", "count": 2 ** 53 + 1}, False))
    out.append(("digit-like-dictionary-keys", "2.1", dict(base, x_d={"\u00b2": 1, "\u0663": 2, "10": 3, "9": 4, "\uff17": 5, "07": 6}), True))
    out.append(("registered-custom-observable", "2.1", {"type": "x-verif-sco", "spec_version": "2.1", "id": "x-verif-sco--" + U + "01", "prop": "p", "num": 1e22}, False))
    out.append(("registered-custom-marking", "2.1", {"type": "marking-definition", "spec_version": "2.1", "id": "marking-definition--" + U + "01", "created": TS,
                                                   "definition_type": "x-verif-mark", "definition": {"level": "high"}}, False))
    for ver, g in (("2.0", g20), ("2.1", g21)):
        members = []
        for key in g.top_keys():
            c = g.sp.classes[key]
            if key == "objects:bundle" or (c["category"] == "observables" and ver == "2.0"):
                continue
            m = g.minimal(key)
            m["id"] = "%s--%s%02d" % (m["type"], U, len(members) + 10)
            members.append(m)
        b = {"type": "bundle", "id": "bundle--" + U + "02", "objects": members}
        if ver == "2.0":
            b["spec_version"] = "2.0"
        out.append(("bundle-of-all-minimal", ver, b, False))
        b2 = {"type": "bundle", "id": "bundle--" + U + "03", "objects": [members[0], {"type": "x-unreg", "id": "x-unreg--" + U + "04", "created": TS, "modified": TS, "foo": [1, {"a": None}, 0.7, 1e22]}]}
        if ver == "2.0":
            b2["spec_version"] = "2.0"
        else:
            b2["objects"][1]["spec_version"] = "2.1"
        out.append(("bundle-with-unregistered-dict", ver, b2, True))
    out.append(("empty-bundle", "2.1", {"type": "bundle", "id": "bundle--" + U + "05"}, False))
    # observed-data holding every 2.0 SCO with references between members
    cont = {}
    for key in g20.top_keys():
        if g20.sp.classes[key]["category"] != "observables":
            continue
        c = g20.resolve_objrefs(g20.maximal(key))
        off = len(cont)
        ren = {k: str(int(k) + off) for k in c}

        def rn(x, p=None):
            if isinstance(x, dict):
                return {kk: rn(v, kk) for kk, v in x.items()}
            if isinstance(x, list):
                return [rn(v, p) for v in x]
            if isinstance(x, str) and p and (p.endswith("_ref") or p.endswith("_refs")) and x in ren:
                return ren[x]
            return x
        for k, v in c.items():
            cont[ren[k]] = rn(v)
    out.append(("observed-data-all-scos", "2.0", g20.observed_data_with(cont), False))
    # containers whose members the library cannot turn into objects (unregistered observable types, kept as dicts)
    out.append(("observed-data-20-unregistered-member", "2.0", g20.observed_data_with({"0": {"type": "x-unknown-sco", "foo": 1, "nested": {"a": [1.5]}}, "1": {"type": "directory", "path": "p"}}), True))
    od21 = g21.minimal("objects:observed-data")
    od21.pop("object_refs", None)
    od21["objects"] = {"0": {"type": "x-unknown-sco", "spec_version": "2.1", "id": "x-unknown-sco--" + U + "0a", "foo": 1}}
    out.append(("observed-data-21-unregistered-member", "2.1", od21, True))
    return out


TRANSPLANT_TS = ["2016-05-12T08:17:27Z", "2016-05-12T08:17:27.5Z", "2016-05-12T08:17:27.120Z", "2016-05-12T08:17:27.123456Z", "2016-05-12T08:17:27.000900Z", "2016-05-12T08:17:27.999999Z"]
SOURCES = ["v21.created", "v20.created", "v21.first_seen", "v21.pe.time_date_stamp", "datetime", "string", "datetime-naive", "datetime-offset", "date"]
DESTS = ["v21.created", "v20.created", "v21.first_seen", "v21.object_modified", "v21.pe.time_date_stamp", "v20.statement-marking.created", "v20.tlp-like-custom-marking.created",
         "v21.marking.created"]


def transplant_value(src, text):
    """a timestamp VALUE as it exists inside the library after going through property `src` (carries that property's precision metadata)"""
    import datetime as dt
    import pytz
    import stix2
    if src == "string":
        return text
    if src == "datetime":
        y, mo, d, h, mi, s, us = tsfmt.split(tsfmt.instant_of(text) // tsfmt.PS_PER_US)
        return dt.datetime(y, mo, d, h, mi, s, us, tzinfo=pytz.utc)
    if src == "datetime-naive":
        y, mo, d, h, mi, s, us = tsfmt.split(tsfmt.instant_of(text) // tsfmt.PS_PER_US)
        return dt.datetime(y, mo, d, h, mi, s, us)
    if src == "datetime-offset":
        y, mo, d, h, mi, s, us = tsfmt.split(tsfmt.instant_of(text) // tsfmt.PS_PER_US)
        return dt.datetime(y, mo, d, h, mi, s, us, tzinfo=pytz.utc).astimezone(dt.timezone(dt.timedelta(hours=5, minutes=30)))
    if src == "date":
        y, mo, d, h, mi, s, us = tsfmt.split(tsfmt.instant_of(text) // tsfmt.PS_PER_US)
        return dt.date(y, mo, d)
    if src == "v21.created":
        return stix2.v21.Campaign(name="c", created=text, modified=text).created
    if src == "v20.created":
        return stix2.v20.Campaign(name="c", created=text, modified=text).created
    if src == "v21.first_seen":
        return stix2.v21.Campaign(name="c", first_seen=text).first_seen
    if src == "v21.pe.time_date_stamp":
        return stix2.v21.WindowsPEBinaryExt(pe_type="exe", time_date_stamp=text).time_date_stamp
    raise ValueError(src)


def transplant_object(dst, value):
    import stix2
    if dst == "v21.created":
        return stix2.v21.Campaign(name="c", id="campaign--" + U + "21", created=value, modified=value)
    if dst == "v20.created":
        return stix2.v20.Campaign(name="c", id="campaign--" + U + "21", created=value, modified=value)
    if dst == "v21.first_seen":
        return stix2.v21.Campaign(name="c", id="campaign--" + U + "21", created="2016-01-01T00:00:00.000Z", modified="2016-01-01T00:00:00.000Z", first_seen=value)
    if dst == "v21.object_modified":
        return stix2.v21.LanguageContent(id="language-content--" + U + "21", created="2016-01-01T00:00:00.000Z", modified="2016-01-01T00:00:00.000Z",
                                         object_ref="campaign--" + U + "21", object_modified=value, contents={"de": {"name": "n"}})
    if dst == "v21.pe.time_date_stamp":
        return stix2.v21.File(name="f", extensions={"windows-pebinary-ext": {"pe_type": "exe", "time_date_stamp": value}})
    if dst == "v20.statement-marking.created":
        return stix2.v20.MarkingDefinition(id="marking-definition--" + U + "21", created=value, definition_type="statement", definition={"statement": "s"})
    if dst == "v20.tlp-like-custom-marking.created":
        return stix2.v20.MarkingDefinition(id="marking-definition--" + U + "21", created=value, definition_type="statement", definition=stix2.v20.StatementMarking(statement="s"),
                                           external_references=[{"source_name": "s", "url": "u"}])
    if dst == "v21.marking.created":
        return stix2.v21.MarkingDefinition(id="marking-definition--" + U + "21", created=value, definition_type="statement", definition={"statement": "s"})
    raise ValueError(dst)


def strict_loads(text):
    def bad(x):
        raise ValueError("non-JSON constant " + x)
    return json.loads(text, parse_constant=bad)


def top_order(text):
    return [k for k, _ in json.loads(text, object_pairs_hook=list)]


def check_timestamps(j, version, key, part, case, path=""):
    """clause 6: every timestamp property in the text has the canonical shape"""
    sp = model.spec(version)
    c = sp.classes.get(key) if key else None
    if not c or not isinstance(j, dict):
        return
    for name, v in j.items():
        p = c["properties"].get(name)
        if not p:
            continue
        if p["kind"] == "timestamp" and (not isinstance(v, str) or tsfmt.parse_ts(v) is None):
            part.violation("C01/timestamp-not-canonical", "a serialized timestamp is not of the form YYYY-MM-DDTHH:MM:SS[.s+]Z", dict(case, path=path + name), "canonical timestamp", v)
        elif p["kind"] == "embedded":
            check_timestamps(v, version, p["class"], part, case, path + name + ".")
        elif p["kind"] == "list" and p["of"]["kind"] == "embedded" and isinstance(v, list):
            for i, x in enumerate(v):
                check_timestamps(x, version, p["of"]["class"], part, case, "%s%s[%d]." % (path, name, i))
        elif p["kind"] == "extensions" and isinstance(v, dict):
            for ek, ev in v.items():
                check_timestamps(ev, version, "extensions:" + ek, part, case, path + name + "." + ek + ".")


def roundtrip(obj, version, key, feat, part, case, options):
    """all clauses for one object"""
    import stix2
    texts = {}
    ref_json = None
    # every option left at its default is the compact form without defaulted optionals; the free function and str() answer like the method
    part.transitions += 3
    try:
        d0 = obj.serialize()
        d1 = obj.serialize(pretty=False, include_optional_defaults=False)
        d2 = stix2.serialization.serialize(obj)
        d3, d4 = str(obj), d0
        if not (d0 == d1 == d2) or d3 != d4:
            part.violation("C01/defaults-differ/%s" % feat, "serialize() with its options left at their defaults is not the compact form without defaulted optionals (or str() differs from it)",
                           dict(case, options="defaults"), d1[:200], (d0 if d0 != d1 else d2 if d2 != d1 else d3)[:200])
        # the text handed back in the other forms a document arrives in (bytes in another encoding JSON allows, a bytearray, byte / text streams): the same object
        import io
        for fname, mk in (("bytes/utf-16", lambda t: t.encode("utf-16")), ("bytearray/utf-8", lambda t: bytearray(t.encode("utf-8"))), ("bytes/utf-8-with-BOM", lambda t: t.encode("utf-8-sig")),
                          ("BytesIO/utf-32", lambda t: io.BytesIO(t.encode("utf-32"))), ("StringIO", lambda t: io.StringIO(t))):
            part.transitions += 1
            try:
                b2 = stix2.parse(mk(d0), allow_custom=obj.has_custom)
                same = type(b2) is type(obj) and b2 == obj and b2.serialize() == d0
                why = "another object"
            except Exception as e:
                same, why = False, "%s: %s" % (type(e).__name__, str(e)[:120])
            if not same:
                part.violation("C01/document-form/%s" % fname.split("/")[0], "the serialization handed back as bytes / a stream does not parse to the same object", dict(case, options="defaults", form=fname), "the same object", why)
    except Exception:
        pass        # serialization failures are reported per option set below
    for o in options:
        on = oname(o)
        c = dict(case, options=o)
        part.evaluations += 1
        part.transitions += 3
        try:
            text = obj.serialize(**o)
        except Exception as e:
            part.outcome("serialize-raises")
            part.violation("C01/serialize-raises/%s/%s" % (type(e).__name__, feat), "an object the library accepted cannot be serialized", c, "text", "%s: %s" % (type(e).__name__, str(e)[:150]))
            continue
        try:
            j = strict_loads(text)
        except Exception as e:
            part.violation("C01/not-json/%s" % feat, "serialization is not strict JSON", c, "JSON", text[:120])
            continue
        texts[on] = (o, text, j)
        try:
            back = stix2.parse(text, allow_custom=obj.has_custom)
        except Exception as e:
            part.outcome("reparse-raises")
            part.violation("C01/reparse-refused/%s/%s" % (type(e).__name__, feat), "the library cannot parse its own serialization", c, "object", "%s: %s" % (type(e).__name__, str(e)[:150]))
            continue
        part.outcome("round-trip")
        if type(back) is not type(obj):
            part.violation("C01/class-changed/%s" % feat, "parsing the serialization yields another class", c, type(obj).__module__ + "." + type(obj).__name__,
                           type(back).__module__ + "." + type(back).__name__)
            continue
        if not (back == obj):
            diff = sorted(k for k in set(back) | set(obj) if k not in back or k not in obj or back[k] != obj[k])
            part.violation("C01/not-equal/%s" % feat, "the parsed object is not equal to the original", dict(c, differing=diff),
                           {k: repr(obj.get(k))[:60] for k in diff[:3]}, {k: repr(back.get(k))[:60] for k in diff[:3]})
        text2 = back.serialize(**o)
        if text2 != text:
            part.violation("C01/not-byte-identical/%s" % feat, "serializing the parsed object does not reproduce the text byte for byte", c, text[:200], text2[:200])
        else:
            back2 = stix2.parse(text2, allow_custom=back.has_custom)
            if back2.serialize(**o) != text2:
                part.violation("C01/not-fixpoint/%s" % feat, "the round trip is not a fixed point after the second iteration", c, text2[:200], back2.serialize(**o)[:200])
        if o.get("pretty"):       # (pretty wins over sort_keys: specification order either way)
            order = top_order(text)
            spec_order = model.spec(version).classes[key]["order"] if key in model.spec(version).classes else list(type(obj)._properties) if key is None else []
            known = [k for k in order if k in spec_order]
            rest = [k for k in order if k not in spec_order]
            custom = [k for k in rest if not k.startswith("ext_")]
            if known != [k for k in spec_order if k in known] or order[:len(known)] != known or custom != sorted(custom):
                part.violation("C01/pretty-order/%s" % feat, "pretty output does not list top-level properties in specification order (then extension, then sorted custom properties)", c,
                               [k for k in spec_order if k in known] + rest, order)
        if ref_json is None and not o.get("include_optional_defaults"):
            ref_json = j
            check_timestamps(j, version, key, part, c)
    # clause 4: all option sets denote the same JSON value up to omitted spec-default optionals
    if ref_json is not None:
        part.state((version, key, json.dumps(ref_json, sort_keys=True)), nontrivial=True)
        for on, (o, text, j) in texts.items():
            if not o.get("include_optional_defaults"):
                if j != ref_json:
                    part.violation("C01/options-disagree/%s" % feat, "two option sets denote different JSON values", dict(case, options=o), json.dumps(ref_json, sort_keys=True)[:200],
                                   json.dumps(j, sort_keys=True)[:200])
            elif key is not None:
                diffs = harness.subset_diff(ref_json, j, version, key)
                for path, kind, exp, obs in diffs[:2]:
                    part.violation("C01/options-disagree-beyond-defaults/%s/%s" % (kind, path.split(".")[-1].split("[")[0]),
                                   "include_optional_defaults differs from the default output by more than spec-default optional properties", dict(case, options=o, path=path), exp, obs)


def feature(label):
    if label.startswith("min+"):
        return "generated"
    return label


def run_case(case, part):
    import stix2
    register_custom()
    add_custom_spec_entries()
    env.reset()
    kind = case["kind"]
    options = OPTIONS if case.get("all_options", True) else [OPTIONS[0], OPTIONS[13], OPTIONS[-1]]
    if kind == "generated":
        version, key, label = case["version"], case["key"], case["label"]
        wrapped = None
        for k2, l2, i2, w2, loc2 in harness.all_cases(version, pairs=case.get("pairs", False), keys=[key]):
            if l2 == label:
                wrapped = w2
                break
        if wrapped is None:
            raise RuntimeError("generator no longer produces %s %s %s" % (version, key, label))
        try:
            obj = stix2.parse(copy.deepcopy(wrapped), allow_custom=False)
        except harness.lib_errors():
            part.outcome("construction-refused(C03's business)")
            return
        tkey = model.spec(version).key_for_type(wrapped["type"])
        from mc.checks.c03_valid_accepted import value_feature
        roundtrip(obj, version, tkey, value_feature(version, key, label, harness.locate(wrapped, loc2)) if label.startswith("min+") else label, part, case, options)
    elif kind == "extra":
        for label, version, j, allow in extra_objects():
            if label != case["label"] or version != case["version"]:
                continue
            try:
                obj = stix2.parse(copy.deepcopy(j), allow_custom=allow, version=version if label == "empty-bundle" else None)
            except harness.lib_errors() as e:
                part.violation("C01/extra-object-refused/%s" % label, "a hand-written object of the C01 menu is refused", case, "accepted", "%s: %s" % (type(e).__name__, str(e)[:150]))
                return
            roundtrip(obj, version, model.spec(version).key_for_type(j["type"]), label, part, case, options)
            # text -> object -> text: the first serialization denotes the hand-written input (nothing lost, changed or invented), up to spec-default optionals
            try:
                out = json.loads(obj.serialize())
                for path, dkind, exp, obs in harness.subset_diff(j, out, version, model.spec(version).key_for_type(j["type"]))[:3]:
                    part.violation("C01/input-not-reproduced/%s/%s" % (dkind, label), "serializing the parsed input does not denote the input JSON value", dict(case, path=path), exp, obs)
            except harness.lib_errors():
                pass
    elif kind == "programmatic":
        # objects that exist only through constructors (not through parse): custom classes declared with extension_name, built WITHOUT passing 'extensions'
        R = stix2.registry.STIX2_OBJ_MAPS["2.1"]
        from stix2 import properties as P
        if "x-verif-en1" not in R["objects"]:
            @stix2.v21.CustomObject("x-verif-en1", [("prop", P.StringProperty()), ("x_extra", P.StringProperty())], extension_name="extension-definition--3f7f0c5f-5d54-4292-94ea-ec1e1952c0a1")
            class EN1(object):
                pass
        if "x-verif-en2" not in R["observables"]:
            @stix2.v21.CustomObservable("x-verif-en2", [("prop", P.StringProperty()), ("x_extra", P.StringProperty())], ["prop"], extension_name="extension-definition--3f7f0c5f-5d54-4292-94ea-ec1e1952c0a2")
            class EN2(object):
                pass
        TS = "2016-05-12T08:17:27.000Z"
        menu = {
            "extension_name-object": lambda: R["objects"]["x-verif-en1"](id="x-verif-en1--" + U + "01", created=TS, modified=TS, prop="p"),
            "extension_name-object+declared-x-property": lambda: R["objects"]["x-verif-en1"](id="x-verif-en1--" + U + "01", created=TS, modified=TS, prop="p", x_extra="e"),
            "extension_name-object+custom-property": lambda: R["objects"]["x-verif-en1"](id="x-verif-en1--" + U + "01", created=TS, modified=TS, prop="p", x_other=1, allow_custom=True),
            "extension_name-object+labels": lambda: R["objects"]["x-verif-en1"](id="x-verif-en1--" + U + "01", created=TS, modified=TS, prop="p", labels=["l"], x_extra="e"),
            "extension_name-observable": lambda: R["observables"]["x-verif-en2"](prop="p"),
            "extension_name-observable+declared-x-property": lambda: R["observables"]["x-verif-en2"](prop="p", x_extra="e", defanged=True),
            # the observable flavour of the decorator with UNDECLARED properties next to the implicit extension (custom, and through custom_properties)
            "extension_name-observable+custom-property": lambda: R["observables"]["x-verif-en2"](prop="p", x_other=1, a_first="a", allow_custom=True),
            "extension_name-observable+custom_properties-argument": lambda: R["observables"]["x-verif-en2"](prop="p", custom_properties={"x_other": [1], "zz_last": "z"}),
            # custom properties handed over in BOTH ways at once (inline keyword with allow_custom, and the custom_properties argument)
            "custom-inline+custom_properties-argument": lambda: stix2.v21.Identity(id="identity--" + U + "21", created=TS, modified=TS, name="n", x_bravo=1, x_delta=[1], allow_custom=True,
                                                                                   custom_properties={"x_alpha": 2, "x_charlie": {"k": 0.5}}),
            "custom-inline+custom_properties-argument-20": lambda: stix2.v20.Identity(id="identity--3f7f0c5f-5d54-4292-94ea-ec1e1952be21", created=TS, modified=TS, name="n", identity_class="individual",
                                                                                      zulu=1, allow_custom=True, custom_properties={"alpha": 2, "mike": 3}),
            # embedded objects of the OTHER spec version handed over as instances
            "embedded-objects-of-other-version": lambda: stix2.v21.AttackPattern(id="attack-pattern--" + U + "21", created=TS, modified=TS, name="n", external_references=[
                stix2.v20.ExternalReference(source_name="s", url="u", hashes={"ssdeep": "3:AXGBicFlgVNhBGcL6wCrFQEv:AXGHsNhxLsr2C", "MD5": "d41d8cd98f00b204e9800998ecf8427e"})],
                kill_chain_phases=[stix2.v20.KillChainPhase(kill_chain_name="k", phase_name="p")]),
            "embedded-objects-of-other-version-20": lambda: stix2.v20.AttackPattern(id="attack-pattern--3f7f0c5f-5d54-4292-94ea-ec1e1952be21", created=TS, modified=TS, name="n", external_references=[
                stix2.v21.ExternalReference(source_name="s", url="u", hashes={"SSDEEP": "3:AXGBicFlgVNhBGcL6wCrFQEv:AXGHsNhxLsr2C"})]),
            "toplevel-extension-as-instance": lambda: stix2.v21.Identity(id="identity--" + U + "21", created=TS, modified=TS, name="n", ext_rank=3,
                                                                         extensions={"extension-definition--" + U + "f1": R["extensions"]["extension-definition--" + U + "f1"]()}),
            "registered-extension-as-instance": lambda: stix2.v21.File(name="f", extensions={"x-verif-ext": R["extensions"]["x-verif-ext"](level=1)}),
        }
        try:
            obj = menu[case["label"]]()
        except harness.lib_errors() as e:
            part.violation("C01/extra-object-refused/%s" % case["label"], "a programmatically built object of the C01 menu is refused", case, "accepted", "%s: %s" % (type(e).__name__, str(e)[:150]))
            return
        roundtrip(obj, "2.0" if case["label"].endswith("-20") else "2.1", None, "programmatic/" + case["label"], part, case, options)
    elif kind == "transplant":
        try:
            val = transplant_value(case["src"], case["ts"])
            obj = transplant_object(case["dst"], val)
        except harness.lib_errors() as e:
            part.outcome("transplant-refused")
            return
        version = "2.0" if case["dst"].startswith("v20") else "2.1"
        feat = "transplant/%s->%s" % (case["src"], case["dst"])
        roundtrip(obj, version, model.spec(version).key_for_type(obj["type"]), feat, part, case, options)


def replay(case, part):
    c = {k: v for k, v in case.items() if k not in ("options", "path", "differing")}
    run_case(c, part)


def run(run):
    th = run.thorough
    cases = []
    for version in ("2.0", "2.1"):
        for key, label, inst, wrapped, loc in harness.all_cases(version, pairs=th):
            cases.append({"kind": "generated", "version": version, "key": key, "label": label, "pairs": th, "all_options": th or label in ("min", "max") or hash_mod(label) == 0})
    for label, version, j, allow in extra_objects():
        cases.append({"kind": "extra", "label": label, "version": version})
    for src in SOURCES:
        for dst in DESTS:
            for ts in TRANSPLANT_TS:
                cases.append({"kind": "transplant", "src": src, "dst": dst, "ts": ts, "all_options": False})
    for lab in ("extension_name-object", "extension_name-object+declared-x-property", "extension_name-object+custom-property", "extension_name-object+labels", "extension_name-observable",
                "extension_name-observable+declared-x-property", "extension_name-observable+custom-property", "extension_name-observable+custom_properties-argument", "toplevel-extension-as-instance", "registered-extension-as-instance", "custom-inline+custom_properties-argument",
                "custom-inline+custom_properties-argument-20", "embedded-objects-of-other-version", "embedded-objects-of-other-version-20"):
        cases.append({"kind": "programmatic", "label": lab, "all_options": True})
    run.mode = "DEV"
    run.rule = ("every generated valid instance of both spec versions (deviation bound %d) + custom-content / registered-custom / bundle / container objects + %d timestamp "
                "transplants x serialization option sets (all 26 for minimal, maximal, hand-written and every 4th generated instance%s; 3 representative sets otherwise); "
                "states = distinct serialized JSON values" % (2 if th else 1, len(SOURCES) * len(DESTS) * len(TRANSPLANT_TS), " and all generated instances" if th else ""))
    run.bound = {"option_sets": len(OPTIONS), "cases": len(cases), "round_trip_iterations": 2}
    run.assumptions += ["instances from the frozen spec model; top-level key order compared with the frozen `order` lists", "equality is the library's own Mapping equality plus class identity"]
    run.pmap(run_case, cases, order_independent=True)
    run.part.sample({"kind": "generated", "version": "2.1", "key": "objects:location", "label": "min+latitude#4", "options": OPTIONS[7]})
    run.part.sample({"kind": "transplant", "src": "v21.created", "dst": "v21.object_modified", "ts": "2016-05-12T08:17:27.123456Z", "expect": "millisecond-exact property stores .123 and round-trips"})
    run.part.sample({"kind": "extra", "label": "bundle-with-unregistered-dict", "version": "2.1"})
    o = run.part.outcomes
    run.require(o.get("round-trip", 0) > 20000, "tens of thousands of round trips executed")


def hash_mod(label):
    import zlib
    return zlib.crc32(label.encode()) % 4
