"""C15 - Timestamps are written in canonical form, truncated, order-preserving.

DEV-mode enumeration against the integer-arithmetic formatter mc/ref/tsfmt.py:
  sweep   : every microsecond value 0..999999 on one base date x 3 precisions x 2 constraints (both tiers)
  grid    : 13 years x calendar/time boundaries x 9 tzinfo kinds x structured microsecond subset x 3 x 2, three entry forms
  strings : accepted string spellings with 0..9 fraction digits, trailing zeros, case variants
  objects : timestamp properties of real objects (both spec versions) x V(timestamp)
Clauses: exact text, truncation (never rounding), four-digit year, digit count, fixpoint, order preservation.
"""
import datetime as dt
import itertools
import re

import pytz

from mc.ref import tsfmt

ID = "C15"
PRECS = ["any", "second", "millisecond"]
CONS = ["exact", "min"]
BASE = (2017, 3, 4, 5, 6, 7)
YEARS = [1, 2, 9, 10, 99, 100, 999, 1000, 1582, 1970, 2000, 2017, 9999]
CHUNK = 20000


def tzinfos():
    return [
        ("naive", None, 0), ("utc", dt.timezone.utc, 0), ("pytz.utc", pytz.utc, 0),
        ("+05:30", dt.timezone(dt.timedelta(minutes=330)), 330), ("-08:00", dt.timezone(dt.timedelta(minutes=-480)), -480),
        ("+14:00", dt.timezone(dt.timedelta(minutes=840)), 840), ("-12:00", dt.timezone(dt.timedelta(minutes=-720)), -720),
        ("+00:01", dt.timezone(dt.timedelta(minutes=1)), 1), ("pytz+05:30", pytz.FixedOffset(330), 330),
    ]


def structured_us(thorough):
    s = {0, 1, 9, 10, 99, 100, 999, 1000, 1001, 1999, 9999, 10000, 99999, 100000, 100001, 120000, 123000, 123400, 123450, 123456,
         499999, 500000, 500001, 999000, 999001, 999499, 999500, 999900, 999990, 999999, 5000, 500, 50, 5}
    if thorough:
        for a in range(6):
            for da in range(1, 10):
                s.add(da * 10 ** a)
                for b in range(a):
                    for db in (1, 5, 9):
                        s.add(da * 10 ** a + db * 10 ** b)
        for k in range(0, 1000, 37):
            s.add(k * 1000 + 999)
            s.add(999000 + k)
    return sorted(s)


def classify(got, exp, year):
    if tsfmt.parse_ts(got) is None:
        if year < 1000 and re.match(r"^\d{1,3}-", got) and got.rjust(len(exp), "0") == exp:
            return "year-not-four-digits"
        return "malformed"
    gi, ei = tsfmt.instant_of(got), tsfmt.instant_of(exp)
    if gi == ei:
        return "digit-count"
    if gi > ei:
        return "later-than-truncation"
    return "earlier-than-truncation"


def lib_call(fn, *a, **k):
    try:
        return ("ok", fn(*a, **k))
    except Exception as e:
        return (type(e).__name__, str(e)[:120])


def check_one(part, value, inst, p, c, entry, case, year):
    """value: what is handed to the library; inst: its exact UTC instant in microseconds (reference)."""
    import stix2.utils as U
    part.evaluations += 1
    part.transitions += 1
    inrange = tsfmt.MIN_INSTANT <= inst <= tsfmt.MAX_INSTANT
    if entry == "parse+format":
        k, r = lib_call(lambda: U.format_datetime(U.parse_into_datetime(value, precision=p, precision_constraint=c)))
    elif entry == "direct":      # STIXdatetime carrying the precision, formatted without the parse-time truncation
        k, r = lib_call(lambda: U.format_datetime(U.STIXdatetime(value, precision=p, precision_constraint=c)))
    elif entry == "components":  # STIXdatetime built from calendar fields + tzinfo (what datetime's own arithmetic / astimezone / replace produce)
        k, r = lib_call(lambda: U.format_datetime(U.STIXdatetime(value.year, value.month, value.day, value.hour, value.minute, value.second, value.microsecond,
                                                                 tzinfo=value.tzinfo, precision=p, precision_constraint=c)))
    elif entry == "astimezone":  # the same instant moved into another zone: a derived STIXdatetime (format metadata back to the defaults)
        k, r = lib_call(lambda: U.format_datetime(U.STIXdatetime(value, precision=p, precision_constraint=c).astimezone(dt.timezone(dt.timedelta(minutes=-210)))))
        p, c = "any", "exact"
    elif entry == "json-encoder":  # a datetime inside plain JSON-able content written by the library's encoder (no property cleaning involved)
        import json
        from stix2.serialization import STIXJSONEncoder
        k, r = lib_call(lambda: json.loads(json.dumps({"x": U.STIXdatetime(value.year, value.month, value.day, value.hour, value.minute, value.second, value.microsecond,
                                                                           tzinfo=value.tzinfo, precision=p, precision_constraint=c)}, cls=STIXJSONEncoder))["x"])
    elif entry in ("deepcopy", "copy", "pickle"):     # a SECOND operation on the library's timestamp object: the copy is written like the original
        import copy
        import pickle
        dup = {"deepcopy": copy.deepcopy, "copy": copy.copy, "pickle": lambda x: pickle.loads(pickle.dumps(x))}[entry]
        k, r = lib_call(lambda: U.format_datetime(dup(U.STIXdatetime(value, precision=p, precision_constraint=c))))
        if entry == "pickle":
            p, c = "any", "exact"     # format metadata is not part of the pickled state (documented limit of the check): the instant must survive
    else:
        raise ValueError(entry)
    if k != "ok":
        if inrange:
            part.outcome("refused-in-range")
            part.violation("C15/refused/%s" % k, "a representable instant is refused", case, "formatted text", [k, r], repro_for(case))
        else:
            part.outcome("refused-out-of-range")
        return None
    if not inrange:
        part.outcome("accepted-out-of-range(not asserted)")
        return None
    exp = tsfmt.fmt(inst, p, c)
    if r != exp:
        cls = classify(r, exp, year)
        part.outcome("mismatch:" + cls)
        key = "C15/year-not-four-digits" if cls == "year-not-four-digits" else "C15/wrong-text/%s/%s-%s" % (cls, p, c)
        part.violation(key, "written timestamp differs from the canonical truncated form", case, exp, r, repro_for(case))
        return r
    part.outcome("match:%s-%s" % (p, c))
    return r


def repro_for(case):
    return "import datetime as dt, pytz, stix2.utils as U\n# case: %r\n" % (case,)


def run_sweep(case, part):
    import stix2.utils as U
    p, c, lo, hi = case["precision"], case["constraint"], case["lo"], case["hi"]
    y, mo, d, h, mi, s = BASE
    base = dt.datetime(y, mo, d, h, mi, s, 0, tzinfo=dt.timezone.utc)
    inst0 = tsfmt.instant(y, mo, d, h, mi, s)
    prev_txt, prev_inst = None, -1
    fixpoint = case.get("fixpoint", False)
    fmtf, parsef = U.format_datetime, U.parse_into_datetime
    for us in range(lo, hi):
        value = base.replace(microsecond=us)
        r = check_one(part, value, inst0 + us, p, c, "parse+format", dict(case, us=us, lo=us, hi=us + 1), y)
        if r is None:
            continue
        if r != prev_txt:
            ri = tsfmt.instant_of(r)
            part.state(("sweep", p, c, r))
            if ri is not None:
                if ri < prev_inst:
                    part.violation("C15/order/%s-%s" % (p, c), "a later instant is written as an earlier one", dict(case, us=us, lo=us - 1, hi=us + 1),
                                   ">= %s" % prev_txt, r, repro_for(case))
                prev_inst = ri
            prev_txt = r
            if fixpoint:
                k2, r2 = lib_call(lambda: fmtf(parsef(r, precision=p, precision_constraint=c)))
                part.evaluations += 1
                if k2 != "ok" or r2 != r:
                    part.violation("C15/fixpoint/%s-%s" % (p, c), "format(parse(format(x))) != format(x)", dict(case, us=us, lo=us, hi=us + 1), r, [k2, r2], repro_for(case))


def run_grid(case, part):
    import stix2.utils as U
    y = case["year"]
    tzs = {n: (tz, off) for n, tz, off in tzinfos()}
    tz, off = tzs[case["tz"]]
    uss = structured_us(case.get("thorough", False))
    pts = [(1, 1, 0, 0, 0), (1, 1, 0, 0, 1), (2, 28, 23, 59, 59), (3, 1, 0, 0, 0), (6, 15, 12, 30, 30), (12, 31, 23, 59, 59), (12, 31, 0, 0, 0)]
    if tsfmt.is_leap(y):
        pts.append((2, 29, 12, 0, 0))
    for (mo, d, h, mi, s) in pts:
        for us in uss:
            try:
                value = dt.datetime(y, mo, d, h, mi, s, us, tzinfo=tz)
            except Exception:
                continue
            inst = tsfmt.instant(y, mo, d, h, mi, s, us, off)
            for p in PRECS:
                for c in CONS:
                    sub = {"kind": "grid1", "year": y, "tz": case["tz"], "point": [mo, d, h, mi, s], "us": us, "precision": p, "constraint": c}
                    for entry in ("parse+format", "direct", "components", "astimezone", "json-encoder"):
                        if entry == "astimezone" and (tz is None or not (tsfmt.MIN_INSTANT + 86400 * 10 ** 6 <= inst <= tsfmt.MAX_INSTANT - 86400 * 10 ** 6)):
                            continue        # naive values have no instant to move; the calendar's first/last day cannot be shifted
                        sub["entry"] = entry
                        r = check_one(part, value, inst, p, c, entry, sub, tsfmt.split(inst)[0] if tsfmt.MIN_INSTANT <= inst <= tsfmt.MAX_INSTANT else y)
                        if r is None:
                            continue
                        part.state(("grid", p, c, r))
                        if entry == "parse+format" and tsfmt.parse_ts(r) is not None:
                            k2, r2 = lib_call(lambda: U.format_datetime(U.parse_into_datetime(r, precision=p, precision_constraint=c)))
                            part.evaluations += 1
                            if k2 != "ok" or r2 != r:
                                part.violation("C15/fixpoint/%s-%s" % (p, c), "format(parse(format(x))) != format(x)", sub, r, [k2, r2], repro_for(sub))
        # plain date objects (midnight UTC)
        if tz is None:
            try:
                value = dt.date(y, mo, d)
            except Exception:
                continue
            inst = tsfmt.instant(y, mo, d)
            for p in PRECS:
                for c in CONS:
                    sub = {"kind": "grid1", "year": y, "tz": "date", "point": [mo, d, 0, 0, 0], "us": 0, "precision": p, "constraint": c, "entry": "parse+format"}
                    check_one(part, value, inst, p, c, "parse+format", sub, y)


def run_special(case, part):
    """zone rules with repeated wall-clock times (fold), and plain date objects through every writer"""
    import json
    import stix2
    import stix2.utils as U
    from stix2.serialization import STIXJSONEncoder
    try:
        import zoneinfo
        zones = [zoneinfo.ZoneInfo(z) for z in ("Europe/Berlin", "America/New_York", "Australia/Lord_Howe")]
    except Exception:
        zones = []
        part.notes["zoneinfo-unavailable"] += 1
    # every hour and half hour of the days on which these zones repeat an hour, both folds
    days = {"Europe/Berlin": (2020, 10, 25), "America/New_York": (2021, 11, 7), "Australia/Lord_Howe": (2021, 4, 4)}
    for z in zones:
        y, mo, d = days[z.key]
        for h in range(0, 5):
            for mi in (0, 30, 59):
                for fold in (0, 1):
                    value = dt.datetime(y, mo, d, h, mi, 7, 123456, tzinfo=z, fold=fold)
                    off = int(value.utcoffset().total_seconds() // 60)         # the zone rule itself is the standard library's
                    inst = tsfmt.instant(y, mo, d, h, mi, 7, 123456, off)
                    for p in PRECS:
                        for c in CONS:
                            sub = {"kind": "special", "zone": z.key, "time": [h, mi], "fold": fold, "precision": p, "constraint": c}
                            for entry in ("parse+format", "direct", "deepcopy", "copy", "pickle"):
                                sub["entry"] = entry
                                r = check_one(part, value, inst, p, c, entry, sub, y)
                                if r is not None:
                                    part.state(("special", z.key, h, mi, fold, p, c, r))
                    # as a property of a real object
                    part.evaluations += 1
                    try:
                        o = stix2.v21.Campaign(name="c", first_seen=value)
                        got = json.loads(o.serialize())["first_seen"]
                    except Exception as e:
                        got = "%s: %s" % (type(e).__name__, str(e)[:80])
                    exp = tsfmt.fmt(inst, "any", "exact")
                    if got != exp:
                        part.violation("C15/object/wrong-text/repeated-wall-clock-time", "an object property given a zone-aware datetime inside a repeated hour is written as another instant",
                                       {"kind": "special", "zone": z.key, "time": [h, mi], "fold": fold, "entry": "v21.Campaign.first_seen"}, exp, got)
                        continue
                    # ... and a SECOND operation on that object writes the same instant again
                    import copy
                    for oname, op in (("deepcopy", lambda: copy.deepcopy(o)), ("copy", lambda: copy.copy(o)), ("new_version", lambda: o.new_version(name="d")),
                                      ("reparse", lambda: stix2.parse(o.serialize())), ("add_markings", lambda: o.add_markings("marking-definition--613f2e26-407d-48c7-9eca-b8e91df99dc9")),
                                      ("in-bundle", lambda: stix2.v21.Bundle(o).objects[0]), ("dict(o)->constructor", lambda: stix2.v21.Campaign(**dict(o)))):
                        part.evaluations += 1
                        part.transitions += 1
                        try:
                            got2 = json.loads(op().serialize())["first_seen"]
                        except Exception as e:
                            got2 = "%s: %s" % (type(e).__name__, str(e)[:80])
                        if got2 != exp:
                            part.outcome("second-op:DIFFERS")
                            part.violation("C15/object/second-operation-writes-another-instant/%s" % oname, "an operation on an object writes one of its untouched timestamps as another instant",
                                           {"kind": "special", "zone": z.key, "time": [h, mi], "fold": fold, "entry": "v21.Campaign.first_seen", "then": oname}, exp, got2)
                        else:
                            part.outcome("second-op:same")
    # plain date objects: midnight UTC, through every writer that accepts them
    for (y, mo, d) in ((2020, 2, 29), (1, 1, 1), (9999, 12, 31), (999, 6, 15)):
        value = dt.date(y, mo, d)
        inst = tsfmt.instant(y, mo, d)
        exp = tsfmt.fmt(inst, "any", "exact")
        for name, fn in (("format_datetime(date)", lambda: U.format_datetime(value)), ("json-encoder(date)", lambda: json.loads(json.dumps({"x": value}, cls=STIXJSONEncoder))["x"]),
                         ("custom-property(date)", lambda: json.loads(stix2.v21.Identity(name="n", x_day=value, allow_custom=True).serialize())["x_day"]),
                         ("property(date)", lambda: json.loads(stix2.v21.Campaign(name="c", first_seen=value).serialize())["first_seen"])):
            part.evaluations += 1
            part.transitions += 1
            k, r = lib_call(fn)
            if k != "ok" or r != exp:
                part.violation("C15/date-object/%s" % name.split("(")[0], "a plain date object is not written as midnight UTC of that day", {"kind": "special", "date": [y, mo, d], "entry": name}, exp, [k, r])
            else:
                part.outcome("date:match")


def replay_grid1(case, part):
    y = case["year"]
    mo, d, h, mi, s = case["point"]
    if case["tz"] == "date":
        value, inst = dt.date(y, mo, d), tsfmt.instant(y, mo, d)
    else:
        tzs = {n: (tz, off) for n, tz, off in tzinfos()}
        tz, off = tzs[case["tz"]]
        value = dt.datetime(y, mo, d, h, mi, s, case["us"], tzinfo=tz)
        inst = tsfmt.instant(y, mo, d, h, mi, s, case["us"], off)
    yy = tsfmt.split(inst)[0] if tsfmt.MIN_INSTANT <= inst <= tsfmt.MAX_INSTANT else y
    r = check_one(part, value, inst, case["precision"], case["constraint"], case["entry"], case, yy)
    if r is not None and case["entry"] == "parse+format" and tsfmt.parse_ts(r) is not None:
        import stix2.utils as U
        p, c = case["precision"], case["constraint"]
        k2, r2 = lib_call(lambda: U.format_datetime(U.parse_into_datetime(r, precision=p, precision_constraint=c)))
        if k2 != "ok" or r2 != r:
            part.violation("C15/fixpoint/%s-%s" % (p, c), "format(parse(format(x))) != format(x)", case, r, [k2, r2], repro_for(case))


STRING_FRACS = ["", "0", "5", "50", "05", "000", "500", "123", "1230", "1234", "12345", "123456", "123450", "000001", "999999",
                "1234567", "12345678", "123456789", "0000000", "1000000"]


def run_strings(case, part):
    """Accepted string spellings: the library may refuse a spelling (refusal of valid input is C03's business), but what it
    accepts must be written as the canonical form of the same instant."""
    import stix2.utils as U
    for year in (case["years"]):
        for frac in STRING_FRACS:
            for variant in ("Z", "z", "t"):
                text = "%04d-02-03T04:05:06%s%sZ" % (year, "." if frac else "", frac)
                if variant == "z":
                    text = text[:-1] + "z"
                if variant == "t":
                    text = text.replace("T", "t")
                ps = tsfmt.instant_of(text.upper())
                inst_us = ps // tsfmt.PS_PER_US
                for p in PRECS:
                    for c in CONS:
                        part.evaluations += 1
                        part.transitions += 1
                        sub = {"kind": "string1", "text": text, "precision": p, "constraint": c}
                        k, r = lib_call(lambda: U.format_datetime(U.parse_into_datetime(text, precision=p, precision_constraint=c)))
                        if k != "ok":
                            part.outcome("string-refused:%s" % ("<=6 digits" if len(frac) <= 6 and variant == "Z" else ">6 digits or case variant"))
                            continue
                        part.state(("string", p, c, r))
                        if len(frac) > 6:
                            # sub-microsecond input: must be truncated toward the past, never later than the input
                            gi = tsfmt.instant_of(r)
                            if gi is None or gi > ps or gi < (inst_us - inst_us % (1000000 if p == "second" and c == "exact" else 1000 if p == "millisecond" and c == "exact" else 1)) * tsfmt.PS_PER_US:
                                part.violation("C15/string/sub-microsecond", "sub-microsecond string accepted but not truncated", sub, "<= input, truncated", r, repro_for(sub))
                            part.outcome("string-accepted:>6 digits")
                            continue
                        exp = tsfmt.fmt(inst_us, p, c)
                        if r != exp:
                            cls = classify(r, exp, year)
                            key = "C15/year-not-four-digits" if cls == "year-not-four-digits" else "C15/string/wrong-text/%s/%s-%s" % (cls, p, c)
                            part.violation(key, "accepted timestamp string is not re-written canonically", sub, exp, r, repro_for(sub))
                            part.outcome("string-mismatch:" + cls)
                        else:
                            part.outcome("string-match")


V_TS = ["2016-02-29T23:59:59Z", "2017-01-01T00:00:00.000Z", "2017-01-01T00:00:00.5Z", "2017-01-01T00:00:00.120Z", "2017-01-01T00:00:00.123456Z",
        "2017-01-01T00:00:00.999999Z", "2017-01-01T00:00:00.1230Z", "0999-01-01T00:00:00.000Z", "9999-12-31T23:59:59.999Z", "2017-01-01T00:00:00.000100Z"]

# (version, class, fixed kwargs, {property: (precision, constraint)})  -- precisions frozen from the specifications
OBJECTS = [
    ("2.0", "Indicator", {"labels": ["malicious-activity"], "pattern": "[a:b = 1]"}, {"created": ("millisecond", "exact"), "modified": ("millisecond", "exact"), "valid_from": ("any", "exact")}),
    ("2.1", "Indicator", {"pattern": "[a:b = 1]", "pattern_type": "stix"}, {"created": ("millisecond", "min"), "modified": ("millisecond", "min"), "valid_from": ("any", "exact")}),
    ("2.0", "Campaign", {"name": "c"}, {"created": ("millisecond", "exact"), "modified": ("millisecond", "exact"), "first_seen": ("any", "exact")}),
    ("2.1", "Campaign", {"name": "c"}, {"created": ("millisecond", "min"), "modified": ("millisecond", "min"), "first_seen": ("any", "exact")}),
    ("2.1", "File", {"name": "f"}, {"ctime": ("any", "exact"), "mtime": ("any", "exact")}),
    ("2.0", "File", {"name": "f"}, {"created": ("any", "exact"), "modified": ("any", "exact")}),
    ("2.1", "Relationship", {"relationship_type": "uses", "source_ref": "malware--3f7f0c5f-5d54-4292-94ea-ec1e1952be11", "target_ref": "tool--3f7f0c5f-5d54-4292-94ea-ec1e1952be11"},
     {"created": ("millisecond", "min"), "modified": ("millisecond", "min"), "start_time": ("any", "exact")}),
    # 2.0 marking-definition.created carries no millisecond MUST; the library keeps "the precision as given" (documented choice):
    # either canonical form of the instant is accepted (alternatives), see DESIGN section 10 (false alarm corrected)
    ("2.0", "MarkingDefinition", {"definition_type": "statement", "definition": {"statement": "s"}}, {"created": [("any", "exact"), ("millisecond", "exact")]}),
    ("2.1", "MarkingDefinition", {"definition_type": "statement", "definition": {"statement": "s"}}, {"created": ("millisecond", "min")}),
]


def run_objects(case, part):
    import json
    import stix2
    for (ver, cls, kw, props) in OBJECTS:
        mod = stix2.v20 if ver == "2.0" else stix2.v21
        C = getattr(mod, cls)
        for text in V_TS:
            ps = tsfmt.instant_of(text)
            inst = ps // tsfmt.PS_PER_US
            y, mo, d, h, mi, s, us = tsfmt.split(inst)
            forms = ["string", "datetime"] + ["stixdatetime:%s-%s" % (pp, cc) for pp in PRECS for cc in CONS]
            for form in forms:
                inst = ps // tsfmt.PS_PER_US
                if form == "string":
                    value = text
                elif form == "datetime":
                    value = dt.datetime(y, mo, d, h, mi, s, us, tzinfo=pytz.utc)
                else:
                    # a value that already went through the library once under another precision setting (e.g. taken from another
                    # object's property): the receiving property's own precision must still be applied
                    pp, cc = form.split(":")[1].split("-")
                    import stix2.utils as SU
                    value = SU.parse_into_datetime(text, precision=pp, precision_constraint=cc)
                    inst = tsfmt.truncate(inst, pp, cc)
                for route in ("constructor",) + (("factory(created=)", "factory.set_default_created", "environment.create") if "created" in props and cls != "MarkingDefinition" else ()):
                    kwargs = dict(kw)
                    for pn in props:
                        kwargs[pn] = value
                    part.evaluations += 1
                    part.transitions += 1
                    sub = {"kind": "object1", "version": ver, "class": cls, "value": text, "form": form, "route": route}
                    if route == "constructor":
                        k, r = lib_call(lambda: json.loads(C(**kwargs).serialize()))
                    else:
                        # the wrappers: 'created' arrives as a factory DEFAULT instead of an argument; what is written must be the same
                        kw2 = {a: b for a, b in kwargs.items() if a != "created"}

                        def via():
                            if route == "factory(created=)":
                                return stix2.ObjectFactory(created=value).create(C, **kw2)
                            f = stix2.ObjectFactory()
                            f.set_default_created(value)
                            if route == "factory.set_default_created":
                                return f.create(C, **kw2)
                            return stix2.Environment(factory=f).create(C, **kw2)
                        k, r = lib_call(lambda: json.loads(via().serialize()))
                    if k != "ok":
                        part.outcome("object-refused")
                        if y >= 1000:
                            part.violation("C15/object-refused/%s" % k, "valid timestamp refused by an object", sub, "accepted", [k, r], repro_for(sub))
                        continue
                    # writing, reading back and writing again is a fixed point (whatever form the first writing chose where the table allows alternatives)
                    k2, r2 = lib_call(lambda: json.loads(stix2.parse(json.dumps(r), version=ver, allow_custom=False).serialize()))
                    if k2 != "ok" or any(r2.get(pn) != r.get(pn) for pn in props):
                        part.outcome("object-not-fixpoint")
                        part.violation("C15/object/not-a-fixed-point/%s" % cls, "reading back what was written and writing it again gives another text", sub,
                                       {pn: r.get(pn) for pn in props}, {pn: r2.get(pn) for pn in props} if k2 == "ok" else [k2, r2], repro_for(sub))
                    for pn, alts in props.items():
                        alts = alts if isinstance(alts, list) else [alts]
                        (p, c) = alts[0]
                        exp = tsfmt.fmt(inst, p, c)
                        got = r.get(pn)
                        part.state(("object", ver, cls, pn, got))
                        if got not in [tsfmt.fmt(inst, pp, cc) for (pp, cc) in alts]:
                            clsf = classify(got, exp, y) if isinstance(got, str) else "missing"
                            key = "C15/year-not-four-digits" if clsf == "year-not-four-digits" else "C15/object/wrong-text/%s/%s-%s" % (clsf, p, c)
                            part.violation(key, "timestamp property serialized in a non-canonical form", dict(sub, property=pn), exp, got, repro_for(sub))
                            part.outcome("object-mismatch:" + clsf)
                        else:
                            part.outcome("object-match")


FRACTION_RULE = {"any": ("any", "exact"), "exact3": ("millisecond", "exact"), "min3": ("millisecond", "min"), "second-exact": ("second", "exact")}


def run_all_slots(case, part):
    """EVERY timestamp slot of EVERY type of the frozen model (top level, embedded objects, extensions, container members): the maximal instance with all its
    timestamps given the same sub-second part, as text and as datetime objects; each slot is written at the precision the frozen per-property table states"""
    import json
    import stix2
    from mc.spec import gen, harness, model
    version, key = case["version"], case["key"]
    wrapped = loc = None
    for k2, l2, i2, w2, loc2 in harness.all_cases(version, keys=[key]):
        if l2 == "max":
            wrapped, loc = w2, loc2
            break
    if wrapped is None:
        return
    tkey = model.spec(version).key_for_type(wrapped["type"])
    slots = [(path, v, p) for path, v, p, ckey, pname in harness.typed_slots(wrapped, version, tkey) if p["kind"] == "timestamp" and isinstance(v, str)]
    if not slots:
        part.outcome("slots:no-timestamps")
        return
    for frac in ("", ".5", ".75", ".120", ".1234", ".123456", ".999999", ".000001"):
        for form in ("text", "datetime"):
            j = wrapped
            insts = {}
            for path, v, p in slots:
                whole = tsfmt.instant_of(v[:19] + "Z") // tsfmt.PS_PER_US
                inst = whole + (int((frac[1:] + "000000")[:6]) if frac else 0)
                insts[path] = inst
                if form == "text":
                    nv = v[:19] + frac + "Z"
                else:
                    y, mo, d, h, mi, sec, us = tsfmt.split(inst)
                    nv = dt.datetime(y, mo, d, h, mi, sec, us, tzinfo=pytz.utc)
                j = gen.set_path(j, path, nv)
            part.evaluations += 1
            part.transitions += 1
            sub = {"kind": "all-slots", "version": version, "key": key, "fraction": frac, "form": form}
            try:
                res = stix2.parse(j, allow_custom=False)
            except Exception as e:
                part.outcome("slots:refused(%s)" % ("C03's business" if form == "text" else "object form"))
                continue
            out = harness.view(res)
            for path, v, p in slots:
                try:
                    got = harness.locate(out, path)
                except (KeyError, IndexError, TypeError):
                    continue
                rule = FRACTION_RULE.get(p.get("fraction", "any")) or tuple(p["fraction"].split("-"))
                alts = [rule]
                if version == "2.0" and wrapped["type"] == "marking-definition" and path[-1:] == ("created",):
                    alts = [("any", "exact"), ("millisecond", "exact")]       # documented choice of the library ("precision as given"), see OBJECTS above
                exps = [tsfmt.fmt(insts[path], pp, cc) for pp, cc in alts]
                part.state(("slot", version, key, ".".join(map(str, path)), got))
                if got not in exps:
                    part.outcome("slots:MISMATCH")
                    part.violation("C15/slot/wrong-text/%s/%s-%s" % (classify(got, exps[0], 2016) if isinstance(got, str) else "missing", rule[0], rule[1]),
                                   "a timestamp slot is not written at the precision its property requires", dict(sub, slot=".".join(map(str, path))), exps[0], got)
                else:
                    part.outcome("slots:match")


def run_case(case, part):
    k = case["kind"]
    if k == "all-slots":
        return run_all_slots(case, part)
    if k == "sweep":
        run_sweep(case, part)
    elif k == "grid":
        run_grid(case, part)
    elif k == "grid1":
        replay_grid1(case, part)
    elif k == "strings":
        run_strings(case, part)
    elif k == "string1":
        run_strings_one(case, part)
    elif k in ("objects", "object1"):
        run_objects(case, part)
    elif k == "special":
        run_special({"kind": "special"}, part)


def run_strings_one(case, part):
    # replay of one string case: re-run the whole (cheap) string family for the year of the text
    run_strings({"kind": "strings", "years": [int(case["text"][:4])]}, part)


def replay(case, part):
    if case.get("kind") == "all-slots":
        return run_case({"kind": "all-slots", "version": case["version"], "key": case["key"]}, part)
    run_case(case, part)


def run(run):
    th = run.thorough
    cases = []
    for p in PRECS:
        for c in CONS:
            for lo in range(0, 1000000, CHUNK):
                cases.append({"kind": "sweep", "precision": p, "constraint": c, "lo": lo, "hi": lo + CHUNK, "fixpoint": True})
    for y in YEARS:
        for n, tz, off in tzinfos():
            cases.append({"kind": "grid", "year": y, "tz": n, "thorough": th})
    cases.append({"kind": "strings", "years": [1, 999, 1000, 2017, 9999]})
    cases.append({"kind": "objects"})
    run.mode = "DEV"
    run.rule = ("complete microsecond sweep (10^6 values x 6 precision/constraint settings) on one base date + structured product of years x calendar "
                "points x tzinfo kinds x microsecond patterns x 6 settings x 2 entry forms + string spellings + object properties; a case is distinct/non-trivial "
                "per distinct written text per setting (states)")
    run.bound = {"microseconds": "0..999999 (all)", "years": YEARS, "tzinfos": [t[0] for t in tzinfos()], "structured_us": len(structured_us(th)),
                 "string_fraction_spellings": len(STRING_FRACS), "object_classes": len(OBJECTS)}
    run.assumptions.append("oracle: integer-arithmetic formatter mc/ref/tsfmt.py (self-tested against datetime on mid-range values)")
    run.assumptions.append("zone rules (utcoffset of a zoneinfo datetime incl. fold) are the standard library's; three zones on their repeated-hour days")
    cases.append({"kind": "special"})
    from mc.spec import gen as _gen
    for v in ("2.0", "2.1"):
        for k in _gen.Gen(v).top_keys():
            cases.append({"kind": "all-slots", "version": v, "key": k})
    run.pmap(run_case, cases, order_independent=True)
    run.part.sample({"kind": "sweep", "us": 129999, "precision": "millisecond", "constraint": "exact", "expected": "2017-03-04T05:06:07.129Z"})
    run.part.sample({"kind": "grid1", "year": 9999, "tz": "-12:00", "point": [12, 31, 23, 59, 59], "us": 999999, "note": "leaves 0001-9999: either outcome"})
    run.part.sample({"kind": "string1", "text": "2017-02-03T04:05:06.1230Z", "precision": "millisecond", "constraint": "min", "expected": "2017-02-03T04:05:06.123Z"})
    o = run.part.outcomes
    run.require(sum(v for k, v in o.items() if k.startswith("match:")) >= 6000000, "the complete microsecond sweep was executed")
    run.require(o.get("refused-out-of-range", 0) > 0, "out-of-range conversions were reached")
    run.require(o.get("object-match", 0) > 0, "object properties were reached")
