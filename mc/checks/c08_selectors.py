"""C08 - A granular-marking selector is valid exactly when it addresses something.

DEV-mode enumeration: for every type of both spec versions the maximal instance plus every generated instance that stores a falsy value
(false, 0, 0.0, "") or a list with equal elements; for each instance EVERY path an independent walker finds in its JSON form (property,
list index, nested key, embedded-object / extension / container-member property) and a menu of near-miss paths derived from it; each
through every entry point: construction, parse, and add/remove/set/clear/get/is_marked on the object and on its plain-dict form.
Oracle: accepted <=> the walker resolves the selector, whatever value is stored there.
"""
import copy
import json

from mc import env
from mc.spec import gen, harness, model

ID = "C08"
MREF = "marking-definition--3f7f0c5f-5d54-4292-94ea-ec1e1952be99"
FALSY = (False, 0, 0.0, "")


def interesting(label, inst):
    if label in ("min", "max"):
        return True

    def has(v):
        if isinstance(v, list):
            return len(v) > 10 or any(v[i] == v[j] for i in range(len(v)) for j in range(i)) or any(has(x) for x in v)
        if isinstance(v, dict):
            return any("-" in k for k in v) or any(has(x) for x in v.values())
        return (v in FALSY) and not isinstance(v, (list, dict))
    name = label[4:].split("#")[0].split("+")[0] if label.startswith("min+") else None
    return name in inst and has(inst[name])


def near_misses(v, sel, val):
    """selectors derived from a valid one that address nothing"""
    out = []
    steps = sel.split(".")
    cand = []
    cand.append((".".join(steps[:-1] + ["zzz-absent"]), "absent-sibling"))
    if isinstance(val, list):
        cand.append((sel + ".[%d]" % len(val), "index-past-end"))
        cand.append((sel + ".zzz", "key-on-list"))
    elif isinstance(val, dict):
        cand.append((sel + ".[0]", "index-on-object"))
        cand.append((sel + ".zzz-absent", "absent-nested-key"))
    else:
        cand.append((sel + ".zzz", "step-below-scalar"))
        cand.append((sel + ".[0]", "index-on-scalar"))
    if len(steps) >= 3:
        cand.append((".".join(steps[:1] + steps[2:]), "middle-step-removed"))
    if not steps[-1].startswith("[") and len(steps[-1]) > 3:
        cand.append((sel[:-1], "last-step-truncated"))          # a proper string prefix of the valid selector
    if not steps[-1].startswith("["):
        cand.append((sel + "x", "last-step-extended"))
    for s, kind in cand:
        if s and not harness.resolves(v, s) and len(s.split(".")[0]) >= 3:
            out.append((s, kind))
    return out


class Raw(object):
    """a selectors ARGUMENT handed over exactly as it is (not wrapped into a list)"""
    def __init__(self, v):
        self.v = v


EMPTY_FORMS = [("empty-string", ""), ("empty-list", []), ("empty-tuple", ()), ("list-of-empty-string", [""])]


def syntax_ok(sel):
    import re
    return bool(re.match(r"^([a-z0-9_-]{3,250}(\.(\[\d+\]|[a-z0-9_-]{1,250}))*|id)\Z", sel))


def verdict(fn, part=None, case=None, eclass=None):
    """'accepted' | 'refused' | 'no-verdict' (an unrelated documented refusal) | 'escaped' (an exception that is no refusal at all: reported, exploration continues)"""
    try:
        return _verdict(fn)
    except Exception as e:
        if part is None:
            raise
        part.outcome("entry-raised:" + type(e).__name__)
        part.violation("C08/entry-raises/%s/%s" % (type(e).__name__, eclass), "an entry point answers a selectors argument with an exception that is neither acceptance nor an invalid-selector refusal",
                       case, "accepted or InvalidSelectorError", "%s: %s" % (type(e).__name__, str(e)[:200]))
        return "escaped", e


def _verdict(fn):
    from stix2 import exceptions as X
    try:
        fn()
        return "accepted", None
    except X.InvalidSelectorError as e:
        return "refused", e
    except X.MarkingNotFoundError:
        return "accepted", None          # the selector passed validation; there is simply nothing to remove
    except (X.TypeNotVersionableError, X.ObjectNotVersionableError, X.RevokeError):
        return "no-verdict", None
    except X.InvalidValueError as e:
        if "selector" in str(e).lower() or "granular_markings" in str(e):
            return "refused", e
        raise


def entries(version, obj, dform, has_gm_prop, versionable):
    """(entry class, entry name, callable(selector))"""
    from stix2 import markings as MK
    import stix2
    out = []
    if has_gm_prop:
        def construct(sel):
            d = copy.deepcopy(dform)
            d["granular_markings"] = [{"marking_ref": MREF, "selectors": sel.v if isinstance(sel, Raw) else list(sel) if isinstance(sel, (list, tuple)) else [sel]}]
            return stix2.parse(d, allow_custom=False)
        out.append(("construction", "parse(dict)", construct))

        def construct2(sel):
            d = copy.deepcopy(dform)
            d["granular_markings"] = [{"marking_ref": MREF, "selectors": sel.v if isinstance(sel, Raw) else list(sel) if isinstance(sel, (list, tuple)) else [sel]}]
            return type(obj)(**d)
        out.append(("construction", "constructor", construct2))
    L = lambda sel: sel.v if isinstance(sel, Raw) else list(sel) if isinstance(sel, (list, tuple)) else [sel]
    omarks = dform.get("object_marking_refs") or []
    for form, target in (("function-on-object", obj), ("function-on-dict", dform)):
        out.append((form, "get_markings", lambda sel, t=target: MK.get_markings(t, L(sel))))
        out.append((form, "is_marked", lambda sel, t=target: MK.is_marked(t, MREF, L(sel))))
        out.append((form, "get_markings(inherited,descendants)", lambda sel, t=target: MK.get_markings(t, L(sel), inherited=True, descendants=True)))
        # option combinations in which the object-level markings alone could already settle the answer
        out.append((form, "is_marked(no marking,inherited)", lambda sel, t=target: MK.is_marked(t, None, L(sel), inherited=True)))
        out.append((form, "is_marked(no marking,inherited,descendants)", lambda sel, t=target: MK.is_marked(t, None, L(sel), inherited=True, descendants=True)))
        if omarks:
            out.append((form, "is_marked(object-level marking,inherited)", lambda sel, t=target: MK.is_marked(t, omarks[0], L(sel), inherited=True)))
            out.append((form, "is_marked(object-level markings,inherited)", lambda sel, t=target: MK.is_marked(t, list(omarks), L(sel), inherited=True)))
        if omarks and has_gm_prop and (versionable or form == "function-on-dict"):
            out.append((form, "remove_markings(object-level marking)", lambda sel, t=target: MK.remove_markings(t, omarks[0], L(sel))))
            out.append((form, "set_markings(object-level marking)", lambda sel, t=target: MK.set_markings(t, omarks[0], L(sel))))
        if form == "function-on-object" and hasattr(obj, "is_marked"):
            out.append((form, "obj.is_marked(no marking,inherited)", lambda sel: obj.is_marked(None, L(sel), inherited=True)))
        if has_gm_prop and (versionable or form == "function-on-dict"):
            out.append((form, "add_markings", lambda sel, t=target: MK.add_markings(t, MREF, L(sel))))
            out.append((form, "set_markings", lambda sel, t=target: MK.set_markings(t, MREF, L(sel))))
            out.append((form, "remove_markings", lambda sel, t=target: MK.remove_markings(t, MREF, L(sel))))
            out.append((form, "clear_markings", lambda sel, t=target: MK.clear_markings(t, L(sel))))
    return out


EXT_OBJ = "extension-definition--3f7f0c5f-5d54-4292-94ea-ec1e1952be1c"
EXT_SCO = "extension-definition--3f7f0c5f-5d54-4292-94ea-ec1e1952be1d"


def implicit_extension_object(which):
    """a registered 2.1 custom type declared with extension_name: the library itself adds the 'extensions' property to every instance, AFTER the constructor
    (and its selector validation) has run. Built programmatically, with one granular marking, without passing 'extensions'."""
    import stix2
    from stix2 import properties as P
    R = stix2.registry.STIX2_OBJ_MAPS["2.1"]
    if "x-verif-en" not in R["objects"]:
        @stix2.v21.CustomObject("x-verif-en", [("prop", P.StringProperty()), ("items", P.ListProperty(P.StringProperty))], extension_name=EXT_OBJ)
        class A(object):
            pass
    if "x-verif-eno" not in R["observables"]:
        @stix2.v21.CustomObservable("x-verif-eno", [("prop", P.StringProperty()), ("items", P.ListProperty(P.StringProperty))], extension_name=EXT_SCO)
        class B(object):
            pass
    cls = R["objects"]["x-verif-en"] if which == "object" else R["observables"]["x-verif-eno"]
    kw = dict(prop="v", items=["a", "b"], granular_markings=[{"marking_ref": MREF, "selectors": ["prop"]}])
    if which == "object":
        kw.update(id="x-verif-en--3f7f0c5f-5d54-4292-94ea-ec1e1952be1e", created="2020-01-01T00:00:00.000Z", modified="2020-01-01T00:00:00.000Z")
    return cls(**kw)


def run_instance(case, part):
    import stix2
    env.reset()
    if case.get("kind") == "implicit-extension":
        obj = implicit_extension_object(case["which"])
        dform = harness.view(obj, defaults=False)
        if "extensions" not in dform:
            raise RuntimeError("the implicit extension is not part of the serialization any more")
        return explore(case, part, "2.1", obj, dform, True, case["which"] == "object")
    if case.get("kind") == "aliased":
        # the same Python dict / embedded-object INSTANCE at two positions of one object (a shared constant, data loaded with anchors): positions, not instances, are addressed
        from mc.spec import gen as _gen
        base = _gen.Gen("2.1").minimal("objects:identity")
        ext = {"source_name": "s", "url": "u", "hashes": {"MD5": "d41d8cd98f00b204e9800998ecf8427e"}}
        if case["which"] == "dict":
            d = dict(base, external_references=[ext, ext], labels=["l1", "l2"])
            obj = stix2.parse(d, allow_custom=False)
            return explore(case, part, "2.1", obj, d, True, True)
        eo = stix2.v21.ExternalReference(**copy.deepcopy(ext))
        obj = stix2.v21.Identity(**dict({k: v for k, v in base.items() if k != "type"}, external_references=[eo, eo, copy.deepcopy(ext)]))
        return explore(case, part, "2.1", obj, harness.view(obj, defaults=False), True, True)
    version, key, label = case["version"], case["key"], case["label"]
    wrapped = None
    for k2, l2, i2, w2, loc2 in harness.all_cases(version, keys=[key]):
        if l2 == label:
            wrapped = w2
            break
    if wrapped is None:
        raise RuntimeError("generator no longer produces %s %s %s" % (version, key, label))
    try:
        obj = stix2.parse(copy.deepcopy(wrapped), allow_custom=False)
    except harness.lib_errors():
        part.outcome("base-refused-by-library")      # acceptance of valid bases is C03's business (known finding there), not a selector verdict
        return
    dform = harness.view(obj, defaults=False)
    sp = model.spec(version)
    tkey = sp.key_for_type(dform["type"])
    has_gm = "granular_markings" in sp.classes[tkey]["properties"] and dform["type"] != "bundle"
    versionable = {"created", "modified", "revoked"} <= set(sp.classes[tkey]["properties"])
    return explore(case, part, version, obj, dform, has_gm, versionable)


def explore(case, part, version, obj, dform, has_gm, versionable):
    key, label = case.get("key", "custom"), case.get("label", case.get("which"))
    # a marking must already sit on the object so that remove/clear reach their selector validation
    ents = entries(version, obj, dform, has_gm, versionable)
    if case.get("kind") == "implicit-extension":
        ents = [e for e in ents if e[0] != "construction"]
    only = case.get("selector")
    if not only or case.get("selector_form"):
        empty_selectors(case, part, ents)
        if case.get("selector_form"):
            return
    paths = [(s, v, f) for (s, v, f) in harness.selector_paths(dform) if s.split(".")[0] != "granular_markings"]
    for sel, val, feats in paths:
        if only and sel != only and not only.startswith(sel):
            continue
        f2 = sorted(feats | ({"value-falsy"} if (val in FALSY and not isinstance(val, (list, dict))) else set()))
        fkey = "+".join(f2) if f2 else "plain"
        part.state((version, key, label, sel), nontrivial=bool(f2))
        for eclass, ename, call in ents:
            if eclass in ("construction", "function-on-object") and not syntax_ok(sel):
                part.outcome("out-of-scope:selector-syntax")
                continue
            part.evaluations += 1
            part.transitions += 1
            c = dict(case, selector=sel, entry=ename)
            vd, err = verdict(lambda: call(sel), part, c, eclass)
            part.outcome("valid:" + vd)
            if vd == "refused":
                part.violation("C08/valid-selector-refused/%s/%s" % (fkey, eclass), "a selector that addresses an existing property / element / key is refused", c,
                               "accepted (addresses %s)" % json.dumps(val)[:60], "%s: %s" % (type(err).__name__, str(err)[:160]))
        for nsel, nkind in near_misses(dform, sel, val):
            if only and nsel != only:
                continue
            for eclass, ename, call in ents:
                part.evaluations += 1
                part.transitions += 1
                vd, err = verdict(lambda: call(nsel), part, dict(case, selector=nsel, entry=ename, derived_from=sel), eclass)
                part.outcome("near-miss:" + vd)
                if vd == "accepted":
                    part.violation("C08/invalid-selector-accepted/%s/%s" % (nkind, eclass), "a selector that addresses nothing is accepted", dict(case, selector=nsel, entry=ename, derived_from=sel),
                                   "refused", "accepted")
                if nkind in ("last-step-truncated", "last-step-extended", "absent-sibling") and not (eclass in ("construction", "function-on-object") and not syntax_ok(sel)):
                    # the same near miss inside a LIST next to the valid selector it derives from, in both orders: one bad selector spoils the list
                    for order, lst in (("valid-first", [sel, nsel]), ("invalid-first", [nsel, sel])):
                        part.evaluations += 1
                        part.transitions += 1
                        vd2, err2 = verdict(lambda: call(lst), part, dict(case, selector=nsel, entry=ename, derived_from=sel, list=lst), eclass)
                        part.outcome("near-miss-in-list:" + vd2)
                        if vd2 == "accepted":
                            part.violation("C08/invalid-selector-accepted/%s-in-list-%s/%s" % (nkind, order, eclass), "a selector list containing a selector that addresses nothing is accepted",
                                           dict(case, selector=nsel, entry=ename, derived_from=sel, list=lst), "refused", "accepted")


def empty_selectors(case, part, ents):
    """an empty selectors argument addresses nothing: every entry refuses it ('no selectors at all' is spelled None, not '' / [] / ())"""
    for elabel, ev in EMPTY_FORMS:
        if case.get("selector_form") and elabel != case["selector_form"]:
            continue
        for eclass, ename, call in ents:
            if eclass == "construction" and elabel == "empty-tuple":
                continue
            part.evaluations += 1
            part.transitions += 1
            vd, err = verdict(lambda: call(Raw(copy.deepcopy(ev))), part, dict(case, selector_form=elabel, entry=ename), eclass)
            part.outcome("empty-selectors:" + vd)
            if vd == "accepted":
                part.violation("C08/invalid-selector-accepted/%s/%s" % (elabel, eclass), "an empty selectors argument is accepted", dict(case, selector_form=elabel, entry=ename), "refused", "accepted")


def replay(case, part):
    c = dict(case)
    if "selector_form" in c:
        c.pop("entry", None)
        return run_instance(c, part)
    if "derived_from" in c:
        c["selector"] = c["selector"]
        # near misses are derived while walking the valid selector they come from
        sel = c.pop("derived_from")
        near = c["selector"]
        c["selector"] = None
        c2 = {k: v for k, v in c.items() if k not in ("selector", "entry")}
        return run_instance(c2, part)
    c.pop("entry", None)
    run_instance(c, part)


def run(run):
    th = run.thorough
    cases = []
    for version in ("2.0", "2.1"):
        for key, label, inst, wrapped, loc in harness.all_cases(version):
            if th or interesting(label, inst):
                cases.append({"version": version, "key": key, "label": label})
    cases += [{"kind": "implicit-extension", "which": "object"}, {"kind": "implicit-extension", "which": "observable"}, {"kind": "aliased", "which": "dict"}, {"kind": "aliased", "which": "object"}]
    run.mode = "DEV"
    run.rule = ("per type: maximal + minimal + every generated instance storing a falsy value or equal list elements%s; every path of the instance's JSON form and the near-miss "
                "paths derived from it x every entry point (2 constructions, 3 queries and 4 mutators on object and dict form); states = distinct (instance, selector); "
                "non-trivial = selector with a feature (falsy value, repeated element, through list/object); plus two registered custom types whose 'extensions' property is added by the library after construction" % (" (thorough: every generated instance)" if th else ""))
    run.bound = {"instances": len(cases), "entry_points": 16, "near_miss_kinds": 8}
    run.assumptions += ["independent path walker mc/spec/harness.py:selector_paths/resolves; instances from the frozen spec model",
                        "only selectors the selector syntax can spell are asserted on object forms; remove/clear: 'accepted' = not refused as an invalid selector"]
    run.pmap(run_instance, cases, order_independent=True)
    run.part.sample({"version": "2.1", "key": "objects:malware", "label": "min+is_family#0", "selector": "is_family", "entry": "add_markings", "expected": "accepted (addresses false)"})
    run.part.sample({"version": "2.1", "key": "observables:file", "label": "max", "selector": "extensions.windows-pebinary-ext.sections.[0].entropy", "entry": "parse(dict)"})
    run.part.sample({"version": "2.0", "key": "objects:tool", "label": "max", "selector": "labels.[1]", "derived": "index-past-end", "expected": "refused"})
    o = run.part.outcomes
    run.require(o.get("valid:accepted", 0) > 10000, "valid selectors accepted")
    run.require(o.get("near-miss:refused", 0) > 10000, "near-miss selectors refused")
