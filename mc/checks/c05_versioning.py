"""C05 - New versions are strictly newer, identity-preserving and exact.

BFS over histories of new_version / revoke / marking operations on objects and dicts of both spec versions. At every operation that
reads the wall clock, the CLOCK ANSWER is part of the explored choice: 8 readings relative to the current `modified`
(-1 s, -1 us, 0, +1 us, +999 us, +1 ms, +1 ms+1 us, +1 s). Frame invariants, exact change-set application, strict ordering of the
SERIALIZED modified times as exact instants at the version's precision, and the refusal rules are evaluated on every transition.
"""
import copy
import datetime as dt
import json

import pytz

from mc import env
from mc.ref import tsfmt

ID = "C05"
U = "3f7f0c5f-5d54-4292-94ea-ec1e1952be1"
T0 = "2020-01-01T00:00:00.000Z"
T0SUB = "2020-01-01T00:00:00.000500Z"
RED = "marking-definition--5e57c739-391a-4eb3-b6be-7d15ca92d5ed"
GREEN = "marking-definition--34098fce-860f-48ae-8e50-ebd3cc5e41da"
IDENT = "identity--" + U + "7"
IDENT20 = "identity--3f7f0c5f-5d54-4292-94ea-ec1e1952be17"

CLOCKS = [("-1s", -1000000), ("-1us", -1), ("0", 0), ("+1us", 1), ("+999us", 999), ("+1ms", 1000), ("+1ms1us", 1001), ("+1s", 1000000)]
CLOCK_US = dict(CLOCKS)
MODS = [("-1s", -1000000), ("0", 0), ("+1us", 1), ("+999us", 999), ("+1ms", 1000), ("+1s", 1000000)]
MOD_US = dict(MODS)


def starts():
    camp21 = dict(type="campaign", spec_version="2.1", id="campaign--" + U + "1", created=T0, modified=T0, name="n", description="d", created_by_ref=IDENT)
    camp20 = dict(type="campaign", id="campaign--3f7f0c5f-5d54-4292-94ea-ec1e1952be11", created=T0, modified=T0, name="n", description="d", created_by_ref=IDENT20)
    rel21 = dict(type="relationship", spec_version="2.1", id="relationship--" + U + "2", created=T0, modified=T0, relationship_type="uses",
                 source_ref="malware--" + U + "3", target_ref="tool--" + U + "4", description="d", created_by_ref=IDENT)
    rel20 = dict(rel21, id="relationship--3f7f0c5f-5d54-4292-94ea-ec1e1952be12", source_ref="malware--3f7f0c5f-5d54-4292-94ea-ec1e1952be13",
                 target_ref="tool--3f7f0c5f-5d54-4292-94ea-ec1e1952be14", created_by_ref=IDENT20)
    del rel20["spec_version"]
    return {
        "v21-campaign-obj": ("2.1", "obj", camp21), "v21-campaign-dict": ("2.1", "dict", camp21),
        "v20-campaign-obj": ("2.0", "obj", camp20), "v20-campaign-dict": ("2.0", "dict", camp20),
        "v21-campaign-obj-subms": ("2.1", "obj", dict(camp21, modified=T0SUB)), "v21-campaign-dict-subms": ("2.1", "dict", dict(camp21, modified=T0SUB)),
        "v21-relationship-obj": ("2.1", "obj", rel21), "v20-relationship-obj": ("2.0", "obj", rel20),
        "v21-custom-registered-obj": ("2.1", "obj", dict(type="x-verif-obj", spec_version="2.1", id="x-verif-obj--" + U + "5", created=T0, modified=T0, prop="p", description="d",
                                                         name="n", created_by_ref=IDENT)),
        "v21-custom-unregistered-dict": ("2.1", "dict", dict(type="x-unreg", spec_version="2.1", id="x-unreg--" + U + "6", created=T0, modified=T0, name="n", description="d",
                                                             created_by_ref=IDENT)),
        "v21-sco-file-versionable": ("2.1", "sco", dict(type="file", spec_version="2.1", name="f.txt", size=1, created=T0, modified=T0, revoked=False)),
        # the same kind of SCO kept as a dict with a random (UUIDv4) identifier: its identifier does not derive from the content, so 'name' may change
        "v21-sco-file-dict-uuid4": ("2.1", "sco4", dict(type="file", spec_version="2.1", id="file--" + U + "8", name="f.txt", size=1, created=T0, modified=T0, revoked=False)),
        # objects that already carry an object marking (list-valued property shared with the original)
        "v21-campaign-obj-marked": ("2.1", "obj", dict(camp21, object_marking_refs=[GREEN], labels=["l1"])),
        "v20-campaign-dict-marked": ("2.0", "dict", dict(camp20, object_marking_refs=[GREEN], labels=["l1"])),
        # a 2.0 OBJECT whose content has a custom member called 'spec_version': its class, not that member, says which rules apply
        "v20-campaign-obj-custom-spec_version": ("2.0", "objc", dict(camp20, spec_version="2.1")),
    }


MAIN = ["v21-campaign-obj", "v21-campaign-dict", "v20-campaign-obj", "v20-campaign-dict"]
SIDE = ["v21-campaign-obj-subms", "v21-campaign-dict-subms", "v21-relationship-obj", "v20-relationship-obj", "v21-custom-registered-obj", "v21-custom-unregistered-dict",
        "v21-sco-file-versionable", "v21-sco-file-dict-uuid4", "v21-campaign-obj-marked", "v20-campaign-dict-marked", "v20-campaign-obj-custom-spec_version"]


def register_custom():
    import stix2
    from stix2 import properties as P
    if "x-verif-obj" not in stix2.registry.STIX2_OBJ_MAPS["2.1"]["objects"]:
        @stix2.v21.CustomObject("x-verif-obj", [("prop", P.StringProperty()), ("name", P.StringProperty(required=True)), ("description", P.StringProperty())])
        class XVerifObj(object):
            pass


def make(form):
    import stix2
    ver, kind, d = starts()[form]
    d = copy.deepcopy(d)
    if kind in ("dict", "sco4"):
        return d
    if kind == "sco":
        return stix2.v21.File(allow_custom=True, **{k: v for k, v in d.items() if k not in ("type", "spec_version")})
    return stix2.parse(d, version=ver, allow_custom=(kind == "objc"))


def view(obj):
    import stix2.serialization
    if isinstance(obj, dict):
        return json.loads(stix2.serialization.serialize(obj))
    return json.loads(obj.serialize())


def events_for(form, full=True):
    ver, kind, d = starts()[form]
    evs = []
    second_opt = "objective" if d["type"] == "campaign" else "size" if kind in ("sco", "sco4") else None
    chg_ops = ["chg1", "rm1"] + (["add1", "chg2"] if second_opt and full else []) + ["revoke", "mark"]
    if kind in ("sco", "sco4"):
        chg_ops = ["chg-noncontrib", "revoke"] + (["chg-name"] if kind == "sco4" else [])
    if not full:
        chg_ops = ["chg1"] if kind not in ("sco", "sco4") else ["chg-noncontrib"]
    for op in chg_ops:
        for cname, _ in CLOCKS:
            evs.append({"op": op, "clock": cname})
    for mname, _ in MODS:
        evs.append({"op": "mod", "delta": mname, "as": "str"})
    if full and kind not in ("sco", "sco4"):
        evs.append({"op": "chg-required", "clock": "+1s"})
    if full:
        evs.append({"op": "mod", "delta": "+1us", "as": "datetime"})
        evs.append({"op": "mod", "delta": "0", "as": "datetime"})
        # the caller's modified as a library timestamp object (as read from another object / get_timestamp()), every precision setting
        for mname in ("0", "+1us", "+999us", "+1ms", "-1s"):
            for prec in ("any-exact", "millisecond-min", "millisecond-exact"):
                evs.append({"op": "mod", "delta": mname, "as": "stixdatetime:" + prec})
        for p in ("created", "created_by_ref", "id", "type"):
            evs.append({"op": "unmod", "prop": p})
            evs.append({"op": "unmod-none", "prop": p})
        if kind not in ("sco", "sco4"):
            evs.append({"op": "req-none"})
        if kind == "sco":
            evs.append({"op": "sco-contrib", "prop": "name"})
            evs.append({"op": "sco-contrib-none", "prop": "name"})
            # contributing properties the original does NOT carry: setting one changes what the identifier is derived from just the same
            evs.append({"op": "sco-contrib", "prop": "hashes"})
            evs.append({"op": "sco-contrib", "prop": "parent_directory_ref"})
            evs.append({"op": "sco-contrib", "prop": "extensions"})
    else:
        evs.append({"op": "revoke", "clock": "0"})
    return evs


def trunc_ps(ps, ver):
    """instant (picoseconds) at the version's serialization precision: 2.0 -> milliseconds; 2.1 -> as written (microseconds)"""
    unit = 1000 * tsfmt.PS_PER_US if ver == "2.0" else tsfmt.PS_PER_US
    return ps - ps % unit


def to_dt(ps):
    y, mo, d, h, mi, s, us = tsfmt.split(ps // tsfmt.PS_PER_US)
    return dt.datetime(y, mo, d, h, mi, s, us, tzinfo=pytz.utc)


def changes_for(ev, form, cur_view, depth):
    ver, kind, d = starts()[form]
    op = ev["op"]
    if op == "chg1":
        return {"description": "d%d" % (depth + 2)}
    if op == "rm1":
        return {"description": None}
    if op == "add1":
        return {"objective": "o%d" % depth}
    if op == "chg2":
        return {"description": "dd%d" % depth, "objective": "oo%d" % depth}
    if op == "chg-noncontrib":
        return {"size": depth + 2}
    if op == "chg-name":
        return {"name": "renamed%d.txt" % depth}
    if op == "chg-required":
        return {"relationship_type": "related-to"} if d["type"] == "relationship" else {"name": "n%d" % (depth + 2)}
    if op == "mod":
        cur = tsfmt.instant_of(cur_view.get("modified") or cur_view.get("created"))
        t = cur + MOD_US[ev["delta"]] * tsfmt.PS_PER_US
        val = tsfmt.fmt(t // tsfmt.PS_PER_US, "any") if ev["as"] == "str" else to_dt(t)
        if ev["as"].startswith("stixdatetime:"):
            import stix2.utils
            pr, co = ev["as"].split(":")[1].split("-")
            val = stix2.utils.parse_into_datetime(to_dt(t), precision=pr, precision_constraint=co)      # library-made: consistent with its own metadata
        return {"modified": val, "description": "m%d" % depth}
    if op == "unmod":
        p = ev["prop"]
        new = {"created": "2019-01-01T00:00:00.000Z", "created_by_ref": "identity--" + ("3f7f0c5f-5d54-4292-94ea-ec1e1952be18"), "id": d["type"] + "--3f7f0c5f-5d54-4292-94ea-ec1e1952be19",
               "type": "tool"}[p]
        return {p: new}
    if op == "unmod-none":
        return {ev["prop"]: None}
    if op == "req-none":
        return {"relationship_type" if d["type"] == "relationship" else "name": None}
    if op == "sco-contrib":
        return {"name": {"name": "other.txt"}, "hashes": {"hashes": {"MD5": "d41d8cd98f00b204e9800998ecf8427e"}}, "parent_directory_ref": {"parent_directory_ref": "directory--" + U + "9"},
                "extensions": {"extensions": {"ntfs-ext": {"sid": "s"}}}}[ev["prop"]]
    if op == "sco-contrib-none":
        return {"name": None}
    return {}


def step(form, obj, ev, part, case, depth):
    """one transition on the real object; returns the successor object or None"""
    import stix2
    from stix2 import exceptions as X
    from stix2 import markings as MK
    from stix2 import versioning as V
    ver, kind, d0 = starts()[form]
    part.transitions += 1
    before = view(obj)
    revoked = bool(before.get("revoked"))
    cur = tsfmt.instant_of(before.get("modified") or before.get("created"))
    op = ev["op"]
    feat = "%s/%s" % (op if op not in ("unmod", "unmod-none", "sco-contrib", "sco-contrib-none") else op + ":" + ev["prop"], "dict" if isinstance(obj, dict) else kind)
    vfeat = "v%s" % ver
    ch = changes_for(ev, form, before, depth)
    env.CLOCK.frozen = None
    if "clock" in ev:
        env.CLOCK.frozen = to_dt(cur + CLOCK_US[ev["clock"]] * tsfmt.PS_PER_US)
    try:
        if op == "revoke":
            res = V.revoke(obj)
        elif op == "mark":
            res = MK.add_markings(obj, RED)
        else:
            res = V.new_version(obj, **copy.deepcopy(ch))
        err = None
    except Exception as e:
        res, err = None, e
    finally:
        env.CLOCK.frozen = None
    after_in = view(obj)
    if after_in != before:
        part.violation("C05/original-modified/%s" % feat, "the original object/dict changed", case, before, after_in)
    ename = type(err).__name__ if err is not None else None
    # ---- expected refusals
    if revoked:
        part.outcome("refused-revoked" if isinstance(err, X.RevokeError) else "revoked-not-refused")
        if not isinstance(err, X.RevokeError):
            # unmodifiable-property errors may legitimately win the race on a revoked object
            if not (op in ("unmod", "unmod-none", "sco-contrib", "sco-contrib-none") and isinstance(err, X.UnmodifiablePropertyError)):
                part.violation("C05/revoked-not-refused/%s" % feat, "a revoked object can be versioned or revoked again", case, "RevokeError", ename or "new version")
        return None
    if op in ("unmod", "unmod-none", "sco-contrib", "sco-contrib-none"):
        part.outcome("unmodifiable-refused" if isinstance(err, X.UnmodifiablePropertyError) else "unmodifiable-not-refused")
        if not isinstance(err, X.UnmodifiablePropertyError):
            part.violation("C05/unmodifiable-changed/%s" % feat, "an unmodifiable / identifier-contributing property can be changed", case, "UnmodifiablePropertyError", ename or "new version")
        return None
    if op == "mod":
        given = tsfmt.instant_of(ch["modified"]) if isinstance(ch["modified"], str) else cur + MOD_US[ev["delta"]] * tsfmt.PS_PER_US
        if ev["as"].startswith("stixdatetime:"):
            import stix2.utils
            given = tsfmt.instant_of(stix2.utils.format_datetime(ch["modified"]))       # the instant the caller's timestamp object denotes when written
        later = trunc_ps(given, ver) > trunc_ps(cur, ver)
        if not later:
            part.outcome("explicit-modified-refused" if err is not None else "explicit-modified-not-refused")
            if err is None:
                part.violation("C05/explicit-modified-not-later-accepted/%s/%s" % (vfeat, ev["delta"]), "a caller-supplied modified time that is not strictly later is accepted", case,
                               "refused", view(res).get("modified"))
            elif not isinstance(err, (X.STIXError, ValueError)):
                part.violation("C05/wrong-error/%s/%s" % (ename, feat), "refusal through an unexpected error class", case, "library error", ename)
            return None
    if op == "req-none" and not isinstance(obj, dict):
        part.outcome("required-removed-refused" if err is not None else "required-removed-accepted")
        if err is None:
            part.violation("C05/required-property-removed/%s" % feat, "removing a required property yields an object", case, "refused", "new version")
        elif not isinstance(err, (X.STIXError, ValueError)):
            part.violation("C05/wrong-error/%s/%s" % (ename, feat), "refusal through an unexpected error class", case, "library error", ename)
        return None
    # ---- the operation must succeed
    if err is not None:
        part.outcome("legal-op-raises:" + ename)
        part.violation("C05/legal-op-refused/%s/%s" % (ename, feat), "a legal change set is refused", case, "new version", "%s: %s" % (ename, str(err)[:200]))
        return None
    part.outcome("new-version")
    out = view(res)
    if isinstance(obj, dict) != isinstance(res, dict) or (not isinstance(obj, dict) and type(res) is not type(obj)):
        part.violation("C05/result-class/%s" % feat, "result class differs from input class", case, type(obj).__name__, type(res).__name__)
    # identity
    for p in ("type", "id", "created", "created_by_ref"):
        if out.get(p) != before.get(p):
            same = p == "created" and tsfmt.instant_of(out.get(p)) == tsfmt.instant_of(before.get(p)) and out.get(p) is not None
            if not same:
                part.violation("C05/identity-changed/%s/%s" % (p, feat), "type/id/created/creator must be kept", case, before.get(p), out.get(p))
    # exact change set
    exp = {k: v for k, v in before.items() if k != "modified"}
    if op == "revoke":
        exp["revoked"] = True
    elif op == "mark":
        exp["object_marking_refs"] = sorted(set(exp.get("object_marking_refs", [])) | {RED})
    else:
        for k, v in ch.items():
            if k == "modified":
                continue
            if v is None:
                exp.pop(k, None)
            else:
                exp[k] = v
    if "object_marking_refs" in exp:
        exp["object_marking_refs"] = sorted(exp["object_marking_refs"])
    got = {k: v for k, v in out.items() if k != "modified"}
    if "object_marking_refs" in got:
        got["object_marking_refs"] = sorted(got["object_marking_refs"])
    if got != exp:
        diff = sorted(k for k in set(got) | set(exp) if got.get(k) != exp.get(k))
        if diff == ["created"] and tsfmt.instant_of(got.get("created")) == tsfmt.instant_of(exp.get("created")):
            pass
        else:
            part.violation("C05/change-set-not-exact/%s/%s" % (feat, "+".join(diff)[:60]), "result differs from original (+) change set", case, exp, got)
    # strictly newer, as exact instants of the serialized texts, at the version's precision
    new = tsfmt.instant_of(out.get("modified"))
    if new is None:
        part.violation("C05/modified-not-canonical/%s" % feat, "the new version's modified time is not a canonical timestamp", case, "timestamp", out.get("modified"))
        return None
    if not trunc_ps(new, ver) > trunc_ps(cur, ver):
        part.violation("C05/not-strictly-newer/%s/%s/clock%s" % (vfeat, "dict" if isinstance(obj, dict) else "obj", ev.get("clock", ev.get("delta", ""))),
                       "modified is not strictly later after serialization at the version's precision", case,
                       "> %s" % before.get("modified"), out.get("modified"))
        return None
    if op == "mod":
        if trunc_ps(new, ver) != trunc_ps(given, ver):
            part.violation("C05/explicit-modified-not-applied/%s" % vfeat, "the caller-supplied modified time is not the one applied", case, ch["modified"] if isinstance(ch["modified"], str) else str(ch["modified"]),
                           out.get("modified"))
    return res


TIER = ["quick"]


def run_history(item, part):
    register_custom()
    env.reset()
    form, hist = item["form"], item["history"]
    obj = make(form)
    case0 = {"form": form, "history": [], "full": item.get("full", True)}
    if item.get("sequence"):
        case0["sequence"] = item["sequence"]
    for i, ev in enumerate(hist):
        obj = step(form, obj, ev, part, dict(case0, history=hist[:i + 1]), i)
        if obj is None:
            return []
    part.evaluations += 1
    v = view(obj)
    part.state((form, json.dumps(v, sort_keys=True)), nontrivial=len(hist) > 0)
    succ = []
    if item.get("expand", True):
        for ev in events_for(form, item.get("full", True)):
            r = step(form, obj, ev, part, dict(case0, history=hist + [ev]), len(hist))
            if r is not None:
                succ.append(((form, json.dumps(view(r), sort_keys=True)), {"form": form, "history": hist + [ev], "full": item.get("next_full", item.get("full", True))}))
    return succ


def run_sequence(item, part):
    """cross-object interference: the complete first-level menu of one form, then of another, in the same process (shared module state)"""
    for f in item["forms"]:
        run_history({"form": f, "history": [], "full": True, "sequence": item["forms"]}, part)


SWEEP_SECONDS = [("1969-12-31T23:59:59", -1), ("1970-01-01T00:00:00", 0), ("1986-01-05T18:48:32", 2 ** 29), ("2004-01-10T13:37:04", 2 ** 30), ("2038-01-19T03:14:08", 2 ** 31),
                 ("1901-12-13T20:45:52", -2 ** 31), ("2106-02-07T06:28:16", 2 ** 32), ("0999-12-31T23:59:59", None)]


def run_sweep(item, part):
    """the automatic modified time for EVERY millisecond of a base second (around the Unix epoch and the powers of two of the epoch-second count, where
    float arithmetic on timestamps loses the last digit) x clock readings less than one millisecond later: the new version must still be strictly newer"""
    import stix2
    from stix2 import versioning as V
    register_custom()
    env.reset()
    form, base = item["form"], item["base"]
    ver, kind, d0 = starts()[form]
    for ms in range(item.get("ms_lo", 0), item.get("ms_hi", 1000)):
        mod = "%s.%03dZ" % (base, ms)
        d = dict(copy.deepcopy(d0), created="0900-01-01T00:00:00.000Z", modified=mod)
        obj = d if kind == "dict" else stix2.parse(d, version=ver)
        cur = tsfmt.instant_of(mod)
        for cname, us in (("+1us", 1), ("+500us", 500), ("+999us", 999), ("0", 0), ("-1us", -1), ("+1ms", 1000)):
            part.transitions += 1
            part.evaluations += 1
            env.CLOCK.frozen = to_dt(cur + us * tsfmt.PS_PER_US)
            try:
                res = V.new_version(obj, description="x")
            except Exception as e:
                part.outcome("sweep:raises")
                part.violation("C05/legal-op-refused/%s/sweep" % type(e).__name__, "a legal change set is refused", dict(item, ms_lo=ms, ms_hi=ms + 1, clock=cname), "new version", "%s: %s" % (type(e).__name__, str(e)[:150]))
                continue
            finally:
                env.CLOCK.frozen = None
            new = tsfmt.instant_of(view(res).get("modified"))
            part.state(("sweep", form, base, ms, cname), nontrivial=True)
            if new is None or not trunc_ps(new, ver) > trunc_ps(cur, ver):
                part.outcome("sweep:NOT-NEWER")
                part.violation("C05/not-strictly-newer/v%s/%s/clock%s/base-second-sweep" % (ver, "dict" if kind == "dict" else "obj", cname),
                               "modified is not strictly later after serialization at the version's precision", dict(item, ms_lo=ms, ms_hi=ms + 1, clock=cname), "> " + mod, view(res).get("modified"))
            else:
                part.outcome("sweep:newer")


def run_type_sweep(item, part):
    """EVERY versionable type of the frozen model (object and dict form): new_version, revoke and an explicit later 'modified' under the clock answers that make the
    version rule bite - the per-type property tables must agree with the rule new_version applies (precision of 'modified', versionability)"""
    import stix2
    from mc.spec import gen, model
    from stix2 import versioning as V
    env.reset()
    ver, key = item["version"], item["key"]
    c = model.spec(ver).classes[key]
    if not {"created", "modified", "revoked"} <= set(c["properties"]) or c.get("type") in ("bundle",):
        part.outcome("type-sweep:not-versionable")
        return
    g = gen.Gen(ver)
    for mod in ("2020-01-01T00:00:00.000Z", "2020-01-01T00:00:00.123Z") + (("2020-01-01T00:00:00.123400Z",) if ver == "2.1" else ()):
        d = dict(g.minimal(key), modified=mod, created="2019-01-01T00:00:00.000Z")
        if model.validate(d, ver):
            part.outcome("type-sweep:base-not-valid")
            continue
        for kind in ("obj", "dict"):
            try:
                obj = copy.deepcopy(d) if kind == "dict" else stix2.parse(copy.deepcopy(d), version=ver)
            except Exception:
                part.outcome("type-sweep:base-refused(C03's business)")
                continue
            cur = tsfmt.instant_of(mod)
            for cname, us in (("-1s", -1000000), ("0", 0), ("+1us", 1), ("+999us", 999), ("+1ms", 1000)):
                for op in ("new_version", "revoke"):
                    part.transitions += 1
                    part.evaluations += 1
                    cs = {"kind": "type-sweep", "version": ver, "key": key, "modified": mod, "form": kind, "clock": cname, "op": op}
                    env.CLOCK.frozen = to_dt(cur + us * tsfmt.PS_PER_US)
                    try:
                        res = V.new_version(obj, external_references=[{"source_name": "s", "url": "u"}]) if op == "new_version" else V.revoke(obj)
                    except Exception as e:
                        part.outcome("type-sweep:raises")
                        part.violation("C05/legal-op-refused/%s/type-sweep" % type(e).__name__, "a legal change set is refused", cs, "new version", "%s: %s" % (type(e).__name__, str(e)[:150]))
                        continue
                    finally:
                        env.CLOCK.frozen = None
                    new = tsfmt.instant_of(view(res).get("modified"))
                    part.state(("type-sweep", ver, key, mod, kind, cname, op), nontrivial=True)
                    if new is None or not trunc_ps(new, ver) > trunc_ps(cur, ver):
                        part.outcome("type-sweep:NOT-NEWER")
                        part.violation("C05/not-strictly-newer/v%s/%s/clock%s/type-sweep" % (ver, kind, cname), "modified is not strictly later after serialization at the version's precision",
                                       cs, "> " + mod, view(res).get("modified"))
                    else:
                        part.outcome("type-sweep:newer")
            # an explicit modified one microsecond (2.1) / one millisecond (2.0) later is accepted and written as given; the same instant is refused
            step = 1 if ver == "2.1" else 1000
            for delta, legal in ((step, True), (0, False)):
                part.transitions += 1
                cs = {"kind": "type-sweep", "version": ver, "key": key, "modified": mod, "form": kind, "op": "explicit-modified", "delta_us": delta}
                want = tsfmt.fmt((cur + delta * tsfmt.PS_PER_US) // tsfmt.PS_PER_US, "millisecond", "min" if ver == "2.1" else "exact")
                try:
                    res = V.new_version(obj, modified=want)
                    got = view(res).get("modified")
                except Exception as e:
                    got = type(e).__name__
                ok = (tsfmt.instant_of(got) == tsfmt.instant_of(want)) if legal and isinstance(got, str) and got.endswith("Z") else (not legal and got == "InvalidValueError")
                if not ok:
                    part.violation("C05/explicit-modified/%s/type-sweep" % ("later-not-kept" if legal else "not-later-accepted"), "an explicit modified is not handled by the version rule of the object's spec version",
                                   cs, want if legal else "InvalidValueError", got)


def run_process_tz(item, part):
    """ENVIRONMENT: naive datetime objects (as 'modified' of the original, as the caller's explicit 'modified') mean UTC whatever the process time zone is: the version
    rule gives the same answers under every TZ"""
    import datetime as _dt
    import stix2
    from stix2 import versioning as V
    env.reset()
    zone = item["zone"]
    base_naive = _dt.datetime(2020, 1, 1, 12, 0, 0)
    cur = tsfmt.instant_of("2020-01-01T12:00:00.000Z")
    try:
        with env.process_tz(zone):
            for ver in ("2.0", "2.1"):
                d0 = dict(starts()["v21-campaign-dict" if ver == "2.1" else "v20-campaign-dict"][2])
                for form in ("dict-with-naive-datetimes", "object-from-naive-datetimes"):
                    d = dict(copy.deepcopy(d0), created=base_naive - _dt.timedelta(days=1), modified=base_naive)
                    obj = d if form.startswith("dict") else stix2.parse(copy.deepcopy(d), version=ver)
                    for cname, us in (("0", 0), ("-1s", -1000000), ("+1us", 1), ("+1s", 1000000)):
                        part.transitions += 1
                        part.evaluations += 1
                        cs = {"kind": "process-tz", "zone": zone, "version": ver, "form": form, "clock": cname}
                        env.CLOCK.frozen = to_dt(cur + us * tsfmt.PS_PER_US)
                        try:
                            res = V.new_version(obj, description="x")
                            new = tsfmt.instant_of(view(res).get("modified"))
                        except Exception as e:
                            new = None
                            part.violation("C05/legal-op-refused/%s/process-tz" % type(e).__name__, "a legal change set is refused under another process time zone", cs, "new version", "%s: %s" % (type(e).__name__, str(e)[:120]))
                            continue
                        finally:
                            env.CLOCK.frozen = None
                        want_floor = max(cur, cur + us * tsfmt.PS_PER_US)
                        part.state(("process-tz", zone, ver, form, cname), nontrivial=True)
                        if new is None or not trunc_ps(new, ver) > trunc_ps(cur, ver) or new > want_floor + 1000 * tsfmt.PS_PER_US * 1000:
                            part.violation("C05/not-strictly-newer/process-tz/%s" % ("dict" if form.startswith("dict") else "obj"), "under another process time zone the new modified is not strictly later (or jumps by the zone's offset)", cs,
                                           "just after 2020-01-01T12:00:00Z", view(res).get("modified"))
                        else:
                            part.outcome("process-tz:newer")
                    for delta_h, legal in ((1, True), (-1, False)):
                        part.transitions += 1
                        cs = {"kind": "process-tz", "zone": zone, "version": ver, "form": form, "explicit_modified_hours": delta_h}
                        try:
                            res = V.new_version(obj, modified=base_naive + _dt.timedelta(hours=delta_h))
                            got = tsfmt.instant_of(view(res).get("modified"))
                            okk = legal and got == cur + delta_h * 3600 * 10 ** 6 * tsfmt.PS_PER_US
                            obs = view(res).get("modified")
                        except Exception as e:
                            okk, obs = (not legal) and type(e).__name__ == "InvalidValueError", type(e).__name__
                        if not okk:
                            part.violation("C05/explicit-modified/process-tz/%s" % ("later-refused-or-moved" if legal else "earlier-accepted"), "a naive explicit modified is not read as UTC under another process time zone", cs,
                                           "13:00:00Z kept" if legal else "InvalidValueError", obs)
                        else:
                            part.outcome("process-tz:explicit-ok")
    finally:
        env.reset()


def run_item(item, part):
    if item.get("kind") == "process-tz":
        return run_process_tz(item, part)
    if item.get("kind") == "type-sweep":
        return run_type_sweep(item, part)
    if item.get("kind") == "sweep":
        return run_sweep(item, part)
    if "forms" in item:
        return run_sequence(item, part)
    return run_history(item, part)


def replay(case, part):
    if case.get("kind") == "process-tz":
        return run_process_tz({"kind": "process-tz", "zone": case["zone"]}, part)
    if case.get("kind") == "type-sweep":
        return run_type_sweep({"kind": "type-sweep", "version": case["version"], "key": case["key"]}, part)
    if case.get("kind") == "sweep":
        return run_sweep({k: v for k, v in case.items() if k != "clock"}, part)
    if case.get("sequence"):
        return run_sequence({"forms": case["sequence"]}, part)
    run_history({"form": case["form"], "history": case["history"], "expand": False}, part)


def run(run):
    th = run.thorough
    run.mode = "BFS"

    def lvl(l, fr, nx):
        print("  level %d: expanded %d states -> %d new states" % (l, len(fr), len(nx)), flush=True)
    # main forms: full alphabet from depth 0 and 1 states, reduced (clock x one change op, revoke, explicit modified) from deeper states
    init = [((f, "init"), {"form": f, "history": [], "full": True, "next_full": True}) for f in MAIN]
    run.bfs(init, run_history, 2 if th else 1, lvl)
    deeper = run.unexpanded
    for it in deeper:
        it["full"] = False
    more_depth = 2
    seen_level = deeper
    for d in range(more_depth):
        run.part.results = []
        run.pmap(run_history, seen_level)
        res = sorted(run.part.results, key=lambda t: t[0])
        run.part.results = []
        nxt, seen = [], set()
        for _, succs in res:
            for canon, it in succs:
                k = json.dumps(canon)
                if k not in seen:
                    seen.add(k)
                    it["full"] = False
                    nxt.append(it)
        print("  reduced level %d: expanded %d states -> %d new states" % (d + 2, len(seen_level), len(nxt)), flush=True)
        seen_level = nxt
    for it in seen_level:
        it["expand"] = False
    run.pmap(run_history, seen_level)
    # side forms: full alphabet to depth 1 (thorough: 2)
    init2 = [((f, "init"), {"form": f, "history": [], "full": True}) for f in SIDE]
    run.bfs(init2, run_history, 1 if th else 0, None)
    last = run.unexpanded
    for it in last:
        it["full"] = False
    run.pmap(run_history, last)
    allforms = MAIN + SIDE
    run.pmap(run_item, [{"forms": [a, b]} for a in allforms for b in allforms if a != b])
    sweep = []
    for form in ("v20-campaign-obj", "v20-campaign-dict", "v21-campaign-obj", "v21-campaign-dict"):
        for base, _ in SWEEP_SECONDS:
            for lo in range(0, 1000, 250):
                sweep.append({"kind": "sweep", "form": form, "base": base, "ms_lo": lo, "ms_hi": lo + 250})
    run.pmap(run_item, sweep)
    run.pmap(run_item, [{"kind": "process-tz", "zone": z} for z in env.process_tz.ZONES])
    from mc.spec import gen as _gen
    run.pmap(run_item, [{"kind": "type-sweep", "version": v, "key": k} for v in ("2.0", "2.1") for k in _gen.Gen(v).top_keys()])
    run.rule = ("BFS over new_version/revoke/marking histories; each clock-reading operation x 8 clock answers relative to the current modified; full alphabet from states "
                "at depth <= 1, reduced alphabet (one change op x 8 clocks, explicit modified x 6, revoke) from deeper states; states = distinct serialized objects; "
                "non-trivial = reached by at least one operation; plus the automatic modified time for every millisecond of %d base seconds x 6 clock readings x 4 forms" % len(SWEEP_SECONDS))
    run.bound = {"main_forms": MAIN, "side_forms": SIDE, "depth_full": 2, "depth_reduced": 2 + more_depth + 1, "clock_answers": [c[0] for c in CLOCKS], "explicit_modified": [m[0] for m in MODS],
                 "cross_object_sequences": "all ordered pairs of the 11 forms, complete first-level menus back to back in one process"}
    run.assumptions += ["clock seam: stix2.versioning.get_timestamp / stix2.base.get_timestamp replaced; the answer is frozen for the duration of one operation",
                        "ordering compared on exact instants parsed from the serialized texts (mc/ref/tsfmt.py), never on strings"]
    run.part.sample({"form": "v20-campaign-dict", "history": [{"op": "chg1", "clock": "+1ms1us"}, {"op": "chg1", "clock": "+999us"}],
                     "expect": "second version is pushed one millisecond past the first at millisecond precision"})
    run.part.sample({"form": "v21-campaign-obj", "history": [{"op": "chg1", "clock": "-1s"}, {"op": "mod", "delta": "+1us", "as": "str"}, {"op": "revoke", "clock": "0"}, {"op": "chg1", "clock": "+1s"}],
                     "expect": "RevokeError at the last step"})
    o = run.part.outcomes
    run.require(o.get("new-version", 0) > 2000, "new versions produced")
    run.require(o.get("refused-revoked", 0) > 0 and o.get("unmodifiable-refused", 0) > 0 and o.get("explicit-modified-refused", 0) > 0, "every refusal rule was reached")
