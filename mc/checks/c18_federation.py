"""C18 - Federated sources and relationship navigation equal a scan of the data.

Enumeration of every assignment of a population (3 versions of one id, related objects, creator, relationship objects in two
versions, both directions) to non-empty subsets of 2 members (and of the version triple to 3 members), x attachment orders x
member kinds x optional composite filters / nesting; every get / all_versions / query / relationships / related_to / creator_of
option combination through CompositeDataSource, Environment(source=), Environment(store=) and a single store, against the list
model of the de-duplicated union. Plus the exhaustive side-table of ObjectFactory.create default/argument combinations.
"""
import copy
import itertools
import json
import os
import shutil

from mc import env
from mc.ref import tsfmt

ID = "C18"
U = "3f7f0c5f-5d54-4292-94ea-ec1e1952be1"
T1, T2, T3 = "2020-01-01T00:00:00.000Z", "2020-01-02T00:00:00.000Z", "2020-01-03T00:00:00.000Z"
X, Y, I, R1, R2, R3, ABSENT = ("malware--" + U + "1", "tool--" + U + "2", "identity--" + U + "3", "relationship--" + U + "4", "relationship--" + U + "5",
                               "relationship--" + U + "6", "malware--" + U + "9")


def mal(n, mod):
    return dict(type="malware", spec_version="2.1", id=X, created=T1, modified=mod, name=n, is_family=False, created_by_ref=I)


ELEMS = {
    "X1": mal("x1", T1), "X2": mal("x2", T2), "X3": mal("x3", T3),
    "X3us": mal("x3us", "2020-01-03T00:00:00.000400Z"),       # the same millisecond as X3, 400 microseconds later (a distinct 2.1 version)
    "R1us": dict(type="relationship", spec_version="2.1", id=R1, created=T1, modified="2020-01-01T00:00:00.000001Z", relationship_type="uses", source_ref=X, target_ref=Y),
    "Y": dict(type="tool", spec_version="2.1", id=Y, created=T1, modified=T1, name="y"),
    "I": dict(type="identity", spec_version="2.1", id=I, created=T1, modified=T1, name="creator"),
    "I2": dict(type="identity", spec_version="2.1", id=I, created=T1, modified=T2, name="creator-v2"),
    "R1": dict(type="relationship", spec_version="2.1", id=R1, created=T1, modified=T1, relationship_type="uses", source_ref=X, target_ref=Y),
    "R1b": dict(type="relationship", spec_version="2.1", id=R1, created=T1, modified=T2, relationship_type="uses", source_ref=X, target_ref=Y, description="v2"),
    "R1rev": dict(type="relationship", spec_version="2.1", id=R1, created=T1, modified=T3, relationship_type="uses", source_ref=Y, target_ref=X, description="v3-end-points-swapped"),
    "R2": dict(type="relationship", spec_version="2.1", id=R2, created=T1, modified=T1, relationship_type="attributed-to", source_ref=I, target_ref=X),
    "R3": dict(type="relationship", spec_version="2.1", id=R3, created=T1, modified=T1, relationship_type="related-to", source_ref=Y, target_ref=Y),
}
# versions whose 'modified' is handed over as an AWARE DATETIME in another zone (the library keeps the caller's tzinfo on the value): the instant decides which is newest,
# not the wall-clock digits.  ELEMS holds the instant in UTC text (the model's view), TZFORM what the library is given.
ELEMS["X2east"] = mal("x2east", "2020-01-02T10:00:00.000Z")     # given as 12:00+02:00
ELEMS["X2utc"] = mal("x2utc", "2020-01-02T11:00:00.000Z")       # given as text: the newest of the three
ELEMS["X2west"] = mal("x2west", "2020-01-02T10:30:00.000Z")     # given as 07:30-03:00
POP8 = ["X1", "X2", "X3", "Y", "I", "R1", "R1b", "R2"]
_PARSED = {}


def obj(name):
    import stix2
    if name not in _PARSED:
        d = copy.deepcopy(ELEMS[name])
        if name in ("X2east", "X2west"):
            import datetime as _dt
            off = 2 if name == "X2east" else -3
            d["modified"] = _dt.datetime(2020, 1, 2, 12 if name == "X2east" else 7, 0 if name == "X2east" else 30, tzinfo=_dt.timezone(_dt.timedelta(hours=off)))
        _PARSED[name] = stix2.parse(d)
    return _PARSED[name]


def key(o):
    m = o.get("modified")
    if m is not None and not isinstance(m, str):
        import stix2.utils
        m = stix2.utils.format_datetime(m)
    return (o["id"], None if m is None else tsfmt.instant_of(m))


def ekey(name):
    return (ELEMS[name]["id"], tsfmt.instant_of(ELEMS[name]["modified"]))


class Fixture(object):
    """builds the member sources of one configuration"""

    def __init__(self, members, kinds):
        from stix2 import FileSystemSource, FileSystemSink, MemorySource
        self.dirs = []
        self.sources = []
        for names, kind in zip(members, kinds):
            if kind == "memory":
                self.sources.append(MemorySource([obj(n) for n in names]))
            else:
                d = env.scratch_dir("c18")
                self.dirs.append(d)
                sink = FileSystemSink(d)
                for n in names:
                    sink.add(obj(n))
                self.sources.append(FileSystemSource(d))

    def close(self):
        for d in self.dirs:
            shutil.rmtree(d, ignore_errors=True)


def relset(union, oid, rtype, source_only, target_only):
    out = set()
    for n in union:
        e = ELEMS[n]
        if e["type"] != "relationship":
            continue
        if rtype and e["relationship_type"] != rtype:
            continue
        if (not target_only and e["source_ref"] == oid) or (not source_only and e["target_ref"] == oid):
            out.add(ekey(n))
    return out


def related(union, oid, rtype, source_only, target_only, tfilter):
    ids = set()
    for n in union:
        e = ELEMS[n]
        if e["type"] != "relationship" or (rtype and e["relationship_type"] != rtype):
            continue
        if (not target_only and e["source_ref"] == oid) or (not source_only and e["target_ref"] == oid):
            ids.update((e["source_ref"], e["target_ref"]))
    ids.discard(oid)
    return {ekey(n) for n in union if ELEMS[n]["id"] in ids and (tfilter is None or ELEMS[n]["type"] == tfilter)}


QUERIES = [
    ("all", [], lambda e: True),
    ("type=malware", [("type", "=", "malware")], lambda e: e["type"] == "malware"),
    ("type=relationship", [("type", "=", "relationship")], lambda e: e["type"] == "relationship"),
    ("name=x2", [("name", "=", "x2")], lambda e: e.get("name") == "x2"),
    ("type-in", [("type", "in", ["malware", "tool"])], lambda e: e["type"] in ("malware", "tool")),
    ("id+modified", [("id", "=", X), ("modified", ">", T1)], lambda e: e["id"] == X and e["modified"] > T1),
]
CFILTERS = {
    None: (None, lambda e: True),
    "name!=x3": (("name", "!=", "x3"), lambda e: e.get("name") is not None and e.get("name") != "x3"),
    "type!=identity": (("type", "!=", "identity"), lambda e: e["type"] != "identity"),
}


def feature_members(case):
    return "members=%d" % len(case["members"])


def check_target(label, target, union, part, case, cfilter_name, navigation=True, lenient_get=()):
    """all calls on one access path (composite / environment / store) against the union model"""
    from stix2 import Filter
    cf, cpred = CFILTERS[cfilter_name]
    vis = [n for n in union if cpred(ELEMS[n])]      # what is visible through the composite filter
    c = dict(case, via=label)
    feat = "%s/%s%s" % (label, feature_members(case), "/composite-filter" if cfilter_name else "")
    for id_ in (X, Y, I, R1, ABSENT):
        part.transitions += 2
        vers = {ekey(n) for n in vis if ELEMS[n]["id"] == id_}
        try:
            av = target.all_versions(id_)
            g = target.get(id_)
        except Exception as e:
            part.violation("C18/raises/%s/%s" % (type(e).__name__, feat), "get/all_versions raises", dict(c, id=id_), sorted(vers, key=str), "%s: %s" % (type(e).__name__, str(e)[:150]))
            continue
        gav = [key(o) for o in av]
        if set(gav) != vers:
            part.violation("C18/all_versions/%s/%s" % ("missing" if vers - set(gav) else "extra", feat), "all_versions is not the de-duplicated union of the members' versions",
                           dict(c, id=id_), sorted(vers, key=str), sorted(set(gav), key=str))
        if len(gav) != len(set(gav)):
            part.violation("C18/all_versions/duplicates/%s" % feat, "a distinct (id, version) is returned more than once", dict(c, id=id_), sorted(vers, key=str), sorted(gav, key=str))
        if id_ in lenient_get:
            # a member applies its attached filter AFTER picking its newest version (established behaviour, treated the same way in C12): for an id one of whose
            # versions is hidden by a member-level filter, get may answer None or any visible version - never a hidden one
            if g is not None and key(g) not in vers:
                part.violation("C18/get-ignores-composite-filter/%s" % feat, "get returns a version excluded by a filter attached to a member composite", dict(c, id=id_), sorted(vers, key=str), key(g))
        elif cfilter_name is None:
            want = max(vers, key=lambda k: k[1]) if vers else None
            got = None if g is None else key(g)
            part.outcome("get:" + ("none" if got is None else "latest" if got == want else "not-latest"))
            if got != want:
                part.violation("C18/get-not-newest/%s" % feat, "get does not return the newest version held by any member", dict(c, id=id_), want, got)
        elif g is not None and key(g) not in vers:
            part.violation("C18/get-ignores-composite-filter/%s" % feat, "get returns a version excluded by a filter attached to the composite", dict(c, id=id_), sorted(vers, key=str), key(g))
    for qname, specs, pred in QUERIES:
        part.transitions += 1
        exp = {ekey(n) for n in vis if pred(ELEMS[n])}
        try:
            res = target.query([Filter(*s) for s in specs])
        except Exception as e:
            part.violation("C18/raises/%s/%s" % (type(e).__name__, feat), "query raises", dict(c, query=qname), sorted(exp, key=str), "%s: %s" % (type(e).__name__, str(e)[:150]))
            continue
        got = [key(o) for o in res]
        part.outcome("query:" + ("empty" if not got else "nonempty"))
        if set(got) != exp:
            part.violation("C18/query/%s/%s" % ("missing" if exp - set(got) else "extra", feat), "query is not the filtered de-duplicated union", dict(c, query=qname),
                           sorted(exp, key=str), sorted(set(got), key=str))
        if len(got) != len(set(got)):
            part.violation("C18/query/duplicates/%s" % feat, "a distinct (id, version) is returned more than once", dict(c, query=qname), sorted(exp, key=str), sorted(got, key=str))
    if not navigation or cfilter_name is not None:
        return
    for oid, forms in ((X, ("id", "dict", "object")), (Y, ("id",)), (I, ("id", "object"))):
        for form in forms:
            arg = oid if form == "id" else ({"id": oid, "type": oid.split("--")[0]} if form == "dict" else obj({X: "X1", Y: "Y", I: "I"}[oid]))
            for rtype in (None, "uses", "nope"):
                for so, to in ((False, False), (True, False), (False, True)):
                    part.transitions += 1
                    exp = relset(union, oid, rtype, so, to)
                    opt = "type=%s,source_only=%s,target_only=%s" % (rtype, so, to)
                    try:
                        rels = target.relationships(arg, relationship_type=rtype, source_only=so, target_only=to)
                    except Exception as e:
                        part.violation("C18/raises/%s/relationships/%s" % (type(e).__name__, feat), "relationships raises", dict(c, obj=oid, form=form, options=opt), sorted(exp, key=str),
                                       "%s: %s" % (type(e).__name__, str(e)[:150]))
                        continue
                    got = [key(o) for o in rels]
                    part.outcome("relationships:" + ("empty" if not got else "nonempty"))
                    if set(got) != exp:
                        part.violation("C18/relationships/%s/%s" % ("missing" if exp - set(got) else "extra", feat), "relationships differs from a scan of the stored relationship objects",
                                       dict(c, obj=oid, form=form, options=opt), sorted(exp, key=str), sorted(set(got), key=str))
                    if len(got) != len(set(got)):
                        selfrel = any(ELEMS[n]["type"] == "relationship" and ELEMS[n]["source_ref"] == ELEMS[n]["target_ref"] == oid for n in union)
                        part.violation("C18/relationships/duplicates/%s%s" % (label, "/self-relationship" if selfrel else ""), "a relationship version is returned more than once",
                                       dict(c, obj=oid, form=form, options=opt), sorted(exp, key=str), sorted(got, key=str))
                    for tf in (None, "tool"):
                        part.transitions += 1
                        exp2 = related(union, oid, rtype, so, to, tf)
                        try:
                            rel = target.related_to(arg, relationship_type=rtype, source_only=so, target_only=to, filters=None if tf is None else [Filter("type", "=", tf)])
                        except Exception as e:
                            part.violation("C18/raises/%s/related_to/%s" % (type(e).__name__, feat), "related_to raises", dict(c, obj=oid, form=form, options=opt), sorted(exp2, key=str),
                                           "%s: %s" % (type(e).__name__, str(e)[:150]))
                            continue
                        got2 = [key(o) for o in rel]
                        part.outcome("related_to:" + ("empty" if not got2 else "nonempty"))
                        if set(got2) != exp2:
                            miss = exp2 - set(got2)
                            cross = False
                            if miss and len(case["members"]) > 1:
                                # is every missing object one whose relationship and endpoint live in different members only?
                                cross = True
                            part.violation("C18/related_to/%s/%s%s" % ("missing" if miss else "extra", feat, "/cross-member" if cross else ""),
                                           "related_to differs from what the stored relationship objects imply", dict(c, obj=oid, form=form, options=opt, filter=tf),
                                           sorted(exp2, key=str), sorted(set(got2), key=str))
                        if len(got2) != len(set(got2)):
                            part.violation("C18/related_to/duplicates/%s" % feat, "a related object version is returned more than once", dict(c, obj=oid, form=form, options=opt),
                                           sorted(exp2, key=str), sorted(got2, key=str))
                    if form == "id" and rtype is None and not so and not to:
                        # "is Y related to X?": the caller's filter names one object by id - only that object may come back
                        for yid in (X, Y, I):
                            if yid == oid:
                                continue
                            part.transitions += 1
                            exp3 = {k for k in related(union, oid, None, False, False, None) if k[0] == yid}
                            try:
                                got3 = {key(o) for o in target.related_to(arg, filters=[Filter("id", "=", yid)])}
                            except Exception as e:
                                part.violation("C18/raises/%s/related_to(id-filter)/%s" % (type(e).__name__, feat), "related_to raises", dict(c, obj=oid, filter_id=yid), sorted(exp3, key=str), "%s: %s" % (type(e).__name__, str(e)[:150]))
                                continue
                            if got3 != exp3:
                                part.violation("C18/related_to/%s/caller-id-filter/%s" % ("missing" if exp3 - got3 else "extra", feat), "related_to with the caller's own id filter returns other objects than that one",
                                               dict(c, obj=oid, filter_id=yid), sorted(exp3, key=str), sorted(got3, key=str))
            part.transitions += 1
            try:
                target.relationships(arg, source_only=True, target_only=True)
                part.violation("C18/both-flags-accepted/%s" % label, "source_only and target_only together are not refused", dict(c, obj=oid), "ValueError", "returned")
            except ValueError:
                part.outcome("both-flags-refused")
            except Exception as e:
                part.violation("C18/raises/%s/both-flags/%s" % (type(e).__name__, label), "wrong error for source_only+target_only", dict(c, obj=oid), "ValueError", type(e).__name__)
    # creator_of
    for n in ("X1", "Y"):
        part.transitions += 1
        cid = ELEMS[n].get("created_by_ref")
        vers = {ekey(m) for m in union if ELEMS[m]["id"] == cid} if cid else set()
        want = max(vers, key=lambda k: k[1]) if vers else None
        try:
            cr = target.creator_of(obj(n))
        except Exception as e:
            part.violation("C18/raises/%s/creator_of/%s" % (type(e).__name__, feat), "creator_of raises", dict(c, obj=n), want, "%s: %s" % (type(e).__name__, str(e)[:150]))
            continue
        got = None if cr is None else key(cr)
        part.outcome("creator_of:" + ("none" if got is None else "found"))
        if got != want:
            part.violation("C18/creator_of/%s" % feat, "creator_of does not return the newest version of the creator (or None)", dict(c, obj=n), want, got)


def run_config(case, part):
    """case: members = list of lists of element names; kinds; order = permutation of member indices; cfilter; nested"""
    from stix2 import CompositeDataSource, Environment, Filter, MemoryStore
    env.reset()
    members = case["members"]
    kinds = case.get("kinds") or ["memory"] * len(members)
    order = case.get("order") or list(range(len(members)))
    fx = Fixture(members, kinds)
    try:
        union = sorted({n for m in members for n in m})
        part.evaluations += 1
        part.state((tuple(tuple(m) for m in members), tuple(kinds), tuple(order), case.get("cfilter"), case.get("nested")), nontrivial=len(union) > 1)
        cds = CompositeDataSource()
        for i in order:
            cds.add_data_source(fx.sources[i])
        cfn = case.get("cfilter")
        if cfn:
            cds.filters.add(Filter(*CFILTERS[cfn][0]))
        target = cds
        if case.get("nested"):
            outer = CompositeDataSource()
            outer.add_data_source(cds)
            target = outer
        check_target("composite" if not case.get("nested") else "nested-composite", target, union, part, case, cfn)
        chf = case.get("child_filter")
        if chf and len(members) == 2:
            # a nested composite that carries its OWN filter, next to an unfiltered sibling member of the same parent (both attachment orders):
            # the child's filter applies to the child's members only
            child = CompositeDataSource()
            child.add_data_source(fx.sources[0])
            child.filters.add(Filter(*CFILTERS[chf][0]))
            parent = CompositeDataSource()
            for i in order:
                parent.add_data_source(child if i == 0 else fx.sources[1])
            visible = sorted({n for n in members[0] if CFILTERS[chf][1](ELEMS[n])} | set(members[1]))
            hidden_ids = {ELEMS[n]["id"] for n in members[0] if not CFILTERS[chf][1](ELEMS[n])}
            check_target("parent-of-filtered-child-and-sibling", parent, visible, part, case, None, navigation=False, lenient_get=hidden_ids)
            # ... and the same federation when the PARENT carries a filter of its own as well: the sibling sees the parent's filter only, the child's members see both
            for pfn in ("type!=identity", "name!=x3"):
                if pfn == chf:
                    continue
                child2 = CompositeDataSource()
                child2.add_data_source(fx.sources[0])
                child2.filters.add(Filter(*CFILTERS[chf][0]))
                parent2 = CompositeDataSource()
                for i in order:
                    parent2.add_data_source(child2 if i == 0 else fx.sources[1])
                parent2.filters.add(Filter(*CFILTERS[pfn][0]))
                vis2 = sorted(n for n in ({n for n in members[0] if CFILTERS[chf][1](ELEMS[n])} | set(members[1])) if CFILTERS[pfn][1](ELEMS[n]))
                hid2 = {ELEMS[n]["id"] for n in set(members[0]) | set(members[1]) if n not in vis2}
                check_target("filtered-parent-of-filtered-child-and-sibling", parent2, vis2, part, dict(case, parent_own_filter=pfn), None, navigation=False, lenient_get=hid2)
            check_target("filtered-child-afterwards", child, sorted(set(members[0])), part, dict(case, members=[sorted(set(members[0]))]), chf, navigation=False)
            check_target("sibling-afterwards", fx.sources[1], sorted(set(members[1])), part, dict(case, members=[sorted(set(members[1]))]), None, navigation=False)
            return
        pf = case.get("parent_filter")
        if pf:
            # SEQUENCE: the composite is first used through a filtered parent (a composite, then an Environment with add_filters), afterwards directly and
            # through a second, unfiltered parent: what the parent pushed down must not stay behind in the child
            parent = CompositeDataSource()
            parent.add_data_source(cds)
            parent.filters.add(Filter(*CFILTERS[pf][0]))
            check_target("filtered-parent-composite", parent, union, part, case, pf)
            check_target("child-after-filtered-parent", cds, union, part, case, cfn, navigation=False)
            e0 = Environment(source=cds)
            e0.add_filters([Filter(*CFILTERS[pf][0])])
            check_target("filtered-environment(source=composite)", e0, union, part, case, pf, navigation=False)
            check_target("child-after-filtered-environment", cds, union, part, case, cfn, navigation=False)
            other = CompositeDataSource()
            other.add_data_source(cds)
            check_target("second-unfiltered-parent", other, union, part, case, cfn, navigation=True)
            for m_i, src in enumerate(fx.sources):
                mu = sorted(set(members[m_i]))
                check_target("member-after-filtered-parent", src, mu, part, dict(case, members=[mu]), None, navigation=False)
        if case.get("environment", True) and not case.get("nested"):
            e = Environment(source=cds)
            check_target("environment(source=composite)", e, union, part, case, cfn, navigation=case.get("env_navigation", False))
        if case.get("environment", True) and not case.get("nested") and len(members) >= 2 and cfn is None:
            # an Environment given a STORE and a SOURCE together answers from both (the first member's content as the store, the composite of the others as the source)
            st0 = MemoryStore([obj(n) for n in members[0]])
            rest = CompositeDataSource()
            for src in fx.sources[1:]:
                rest.add_data_source(src)
            check_target("environment(store=+source=)", Environment(store=st0, source=rest if len(fx.sources) > 2 else fx.sources[1]), union, part, case, None, navigation=case.get("env_navigation", False))
        if case.get("single_store"):
            st = MemoryStore([obj(n) for n in union])
            check_target("memory-store", st, union, part, dict(case, members=[union]), None)
            check_target("environment(store=)", Environment(store=st), union, part, dict(case, members=[union]), None)
            e2 = Environment(store=st)
            e2.add_filters([Filter(*CFILTERS["name!=x3"][0])])
            check_target("environment(store=)+add_filters", e2, union, part, dict(case, members=[union]), "name!=x3", navigation=False)
    finally:
        fx.close()


def run_factory(case, part):
    """exhaustive side-table: {default set/unset} x {argument given/omitted/None} x list_append for the defaultable properties"""
    import stix2
    from stix2 import ObjectFactory
    DEF = {"created_by_ref": I, "created": "2019-01-01T00:00:00.000Z", "external_references": [{"source_name": "d", "url": "u"}],
           "object_marking_refs": ["marking-definition--5e57c739-391a-4eb3-b6be-7d15ca92d5ed"]}
    ARG = {"created_by_ref": "identity--" + U + "8", "created": "2018-01-01T00:00:00.000Z", "external_references": [{"source_name": "a", "url": "v"}],
           "object_marking_refs": ["marking-definition--f88d31f6-486f-44da-b317-01333bde0b82"]}
    props = list(DEF)
    for la in (True, False):
        for dset in itertools.product((False, True), repeat=4):
            for amode in itertools.product(("omitted", "given", "none"), repeat=4):
                env.reset()
                part.evaluations += 1
                part.transitions += 1
                kw = {p: DEF[p] for p, s in zip(props, dset) if s}
                f = ObjectFactory(list_append=la, **copy.deepcopy(kw))
                args = {"name": "t"}
                for p, m in zip(props, amode):
                    if m == "given":
                        args[p] = copy.deepcopy(ARG[p])
                    elif m == "none":
                        args[p] = None
                c = {"factory": {"list_append": la, "defaults": [p for p, s in zip(props, dset) if s], "args": dict(zip(props, amode))}}
                try:
                    o = json.loads(f.create(stix2.v21.Tool, **args).serialize())
                except Exception as e:
                    part.outcome("factory-raises:" + type(e).__name__)
                    part.violation("C18/factory/raises/%s" % type(e).__name__, "ObjectFactory.create raises for a legal combination", c, "object", "%s: %s" % (type(e).__name__, str(e)[:150]))
                    continue
                part.state(("factory", la, dset, amode))
                part.outcome("factory-created")
                for p, s, m in zip(props, dset, amode):
                    if m == "given":
                        if p in ("external_references", "object_marking_refs") and la and s:
                            want = DEF[p] + ARG[p]
                        else:
                            want = ARG[p]
                    elif m == "none":
                        want = None
                    else:
                        want = DEF[p] if s else None
                    got = o.get(p)
                    if p == "created" and want is None:
                        continue          # defaults to the clock
                    if got != want:
                        part.violation("C18/factory/%s/default=%s,arg=%s,list_append=%s" % (p, s, m, la), "explicit arguments must override defaults; list properties are appended iff list_append",
                                       c, want, got)
                # a later create must not see this call's arguments (defaults not extended in place)
                o2 = json.loads(f.create(stix2.v21.Tool, name="u").serialize())
                for p, s in zip(props, dset):
                    want = DEF[p] if s else None
                    if p == "created" and not s:
                        continue
                    if o2.get(p) != want:
                        part.violation("C18/factory/defaults-changed-by-create/%s" % p, "a create() call changed the factory defaults seen by the next call", c, want, o2.get(p))


def run_growing(case, part):
    """HISTORY on long-lived navigation layers: an Environment (and a second one, and a composite) answers, then content arrives by ANOTHER route - straight into the
    store the environment was built on, or as one more member source - and the same questions are asked again: every answer equals a scan of what is held NOW"""
    from stix2 import CompositeDataSource, Environment, MemorySource, MemoryStore
    env.reset()
    route = case["route"]
    first = ["X1", "Y", "I", "R1"]
    later = ["I2", "X2", "R2", "R1b"]
    if route in ("store.add", "second-environment", "store.sink.add"):
        store = MemoryStore([obj(n) for n in first])
        e1 = Environment(store=store)
        targets = [("environment", e1), ("store", store)]
        e2 = Environment(store=store)
        if route == "second-environment":
            targets.append(("second-environment", e2))
    else:
        comp = CompositeDataSource()
        comp.add_data_source(MemorySource([obj(n) for n in first]))
        e1 = Environment(source=comp)
        targets = [("environment(source=composite)", e1), ("composite", comp)]
    c0 = dict(case, members=[first], phase="before")
    for label, t in targets:
        check_target(label + "/long-lived", t, first, part, c0, None)
    if route == "store.add":
        store.add([obj(n) for n in later])
    elif route == "store.sink.add":
        store.sink.add([obj(n) for n in later])
    elif route == "second-environment":
        e2.add([obj(n) for n in later])
    else:
        comp.add_data_source(MemorySource([obj(n) for n in later]))
    c1 = dict(case, members=[first, later], phase="after content arrived by another route")
    for label, t in targets:
        check_target(label + "/long-lived", t, first + later, part, c1, None)
    part.state(("growing-navigation", route), nontrivial=True)


def run_case(case, part):
    if case.get("kind") == "growing-navigation":
        return run_growing(case, part)
    if "factory" in case or case.get("kind") == "factory":
        run_factory(case, part)
    else:
        run_config(case, part)


def replay(case, part):
    c = {k: v for k, v in case.items() if k not in ("via", "id", "query", "obj", "form", "options", "filter")}
    if "factory" in c:
        return run_factory(c, part)
    if c.get("kind") == "growing-navigation":
        return run_growing({"kind": "growing-navigation", "route": c["route"]}, part)
    c["environment"] = True
    c["env_navigation"] = True
    c["single_store"] = True
    run_config(c, part)


def assignments(names, nmembers):
    subsets = [s for s in itertools.product((0, 1), repeat=nmembers) if any(s)]
    for combo in itertools.product(subsets, repeat=len(names)):
        members = [[] for _ in range(nmembers)]
        for n, s in zip(names, combo):
            for i, b in enumerate(s):
                if b:
                    members[i].append(n)
        yield members


def run(run):
    th = run.thorough
    cases = [{"kind": "factory"}] + [{"kind": "growing-navigation", "route": r} for r in ("store.add", "store.sink.add", "second-environment", "composite.add_data_source")]
    # (a) every assignment of the 8-element population to non-empty subsets of 2 members x both attachment orders
    n = 0
    for members in assignments(POP8, 2):
        n += 1
        for order in ([0, 1], [1, 0]):
            cases.append({"members": members, "order": order, "environment": n % 9 == 0, "env_navigation": n % 27 == 0, "single_store": False})
    # (b) the version triple (+ creator versions) over 3 members, every attachment order
    for members in assignments(["X1", "X2", "X3"], 3):
        for order in itertools.permutations(range(3)):
            cases.append({"members": [m + (["I", "R1"] if i == 0 else ["I2", "Y"] if i == 1 else []) for i, m in enumerate(members)], "order": list(order),
                          "environment": False})
    # (c) composite filters, nesting, single stores, self-relationship
    small = ["X1", "X3", "Y", "I", "R1", "R2"]
    for members in assignments(small, 2):
        for cf in ("name!=x3", "type!=identity"):
            cases.append({"members": members, "cfilter": cf, "environment": True})
        cases.append({"members": members, "nested": True})
    for k in range(1, len(POP8) + 1):
        for sub in itertools.combinations(POP8 + ["R3", "R1rev"], k):
            if k <= 3 or (th and k <= 5) or k == len(POP8):
                cases.append({"members": [list(sub)], "single_store": True, "environment": False})
    # (c2) sequences: the child composite used through a filtered parent first, directly afterwards
    for members in assignments(["X1", "X3", "Y", "I", "R1"], 2):
        for pf in ("name!=x3", "type!=identity"):
            cases.append({"members": members, "parent_filter": pf, "environment": False})
    # (c2b) a filtered nested composite next to an unfiltered sibling, both attachment orders
    for members in assignments(["X1", "X3", "Y", "I", "R1"], 2):
        for chf in ("name!=x3", "type!=identity"):
            for order in ([0, 1], [1, 0]):
                cases.append({"members": members, "child_filter": chf, "order": order, "environment": False})
    # (c2c) relationship versions whose end points differ (direction reversed by a later version), over 2 members and in one store
    for members in assignments(["X1", "Y", "R1", "R1rev", "R1b"], 2):
        cases.append({"members": members, "environment": True, "env_navigation": True, "single_store": len(members[1]) == 1})
    # (c2d) versions given as aware datetimes of other zones, over 2 (thorough: 3) members and in one store
    for k in ((2, 3) if th else (2,)):
        for members in assignments(["X2east", "X2utc", "X2west", "I"], k):
            cases.append({"members": members, "environment": True, "env_navigation": False, "single_store": k == 2 and len(members[1]) == 1})
    # (c3) versions that differ below the millisecond, over 2 and 3 members
    for members in assignments(["X1", "X3", "X3us", "R1", "R1us", "Y"], 2):
        cases.append({"members": members, "environment": len(members[0]) == 3, "env_navigation": True})
    for members in assignments(["X3", "X3us", "X2"], 3):
        for order in itertools.permutations(range(3)):
            cases.append({"members": members, "order": list(order), "environment": False})
    # (d) member kinds: filesystem members
    fsn = ["X1", "X3", "X3us", "Y", "R1"] if not th else ["X1", "X2", "X3", "X3us", "Y", "R1", "R1b"]
    for members in assignments(fsn, 2):
        for kinds in (["filesystem", "memory"], ["filesystem", "filesystem"]):
            cases.append({"members": members, "kinds": kinds, "environment": False})
    if th:
        for members in assignments(["X1", "X3", "Y", "R1", "I"], 3):
            cases.append({"members": members, "environment": False})
            cases.append({"members": members, "order": [2, 0, 1], "environment": False})
    run.mode = "DEV+BFS"
    run.rule = ("every assignment of the population to non-empty subsets of the member sources x attachment orders x member kinds x composite filter / nesting, all navigation "
                "option combinations per configuration; sequences: composite used through a filtered parent composite / filtered Environment first, then directly, through a second parent and member by member; "
                "versions differing below the millisecond; states = distinct configurations; plus the 2x16x81 ObjectFactory.create side-table")
    run.bound = {"population": POP8, "assignments_2_members": 3 ** len(POP8), "triple_over_3_members": 7 ** 3 * 6, "configurations": len(cases)}
    run.assumptions += ["list model = de-duplicated union of the members' contents (mc/checks/c18_federation.py)", "result order never compared"]
    run.pmap(run_case, cases)
    run.part.sample({"members": [["X3", "R1"], ["X1", "Y"]], "order": [1, 0], "expect": "get(X)=x3; related_to(X)={Y}; related_to(Y)={X1,X3}"})
    run.part.sample({"members": [["X3"], ["X1"], ["X2"]], "order": [0, 1, 2], "expect": "get(X) = x3 (newest first, then oldest, then middle)"})
    o = run.part.outcomes
    run.require(o.get("related_to:nonempty", 0) > 1000 and o.get("related_to:empty", 0) > 1000, "navigation results of both kinds observed")
    run.require(o.get("factory-created", 0) == 2 * 16 * 81, "complete factory side-table executed")
