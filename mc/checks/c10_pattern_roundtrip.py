"""C10 - Pattern text and pattern object model convert into each other faithfully.

DEV-mode enumeration over the 2.1 grammar (and the 2.0 grammar where the installed third-party parser accepts the text): the FULL product
of the atom menus (12 operators x NOT x every compatible constant kind x path shapes), all comparison trees and all observation trees
with <= 4 (thorough 5) leaves over every operator assignment and every shape (EVERY parenthesisation incl. redundant ones up to 3 leaves), every qualifier kind alone
and stacked, on leaves and on groups.  For every generated syntax tree:
  text -> create_pattern_object -> model -> str = text2 -> create_pattern_object -> str = text3
  tree -> public model classes (grouping through ParentheticalExpression) -> str = text4
Oracle: an independent reader (third-party ANTLR parse tree + my own listener and unescaping) turns text2 / text4 into my tree, which must
be structurally equal to the generated tree up to redundant parentheses and flattening of associative chains (operator, negation,
constant kind and denotation, every path step, qualifier and its attachment preserved); the model object itself is walked and compared
field by field; text2 is accepted by the third-party parser; text3 == text2.
"""
import re
import datetime as dt
import itertools

from mc import env
from mc.ref import pattern_ast as A
from mc.ref import tsfmt

ID = "C10"


# ---- library model -> my tree (field by field) -------------------------------------------------------------
def walk_const(c):
    import stix2.patterns as P
    if isinstance(c, P.ListConstant):
        return ("set", tuple(walk_const(x) for x in c.value))
    if isinstance(c, P.TimestampConstant):
        import stix2.utils as U
        return ("ts", tsfmt.instant_of(U.format_datetime(c.value)))
    if isinstance(c, P.BooleanConstant):
        return ("bool", bool(c.value))
    if isinstance(c, P.IntegerConstant):
        return ("int", int(c.value))
    if isinstance(c, P.FloatConstant):
        return ("float", float(c.value))
    if isinstance(c, P.HexConstant):
        return ("hex", c.value.lower())
    if isinstance(c, P.BinaryConstant):
        return ("bin", c.value)
    if isinstance(c, P.StringConstant):
        return ("str", c.value if c.needs_to_be_quoted else A.unesc(c.value))
    raise ValueError("unknown constant %r" % (c,))


def walk_path(p):
    import stix2.patterns as P
    steps = []
    for comp in p.property_path:
        if isinstance(comp, P.ListObjectPathComponent):
            name = comp.property_name
            steps.append(("key", strip_quotes(name)))
            idx = comp.index
            steps.append(("idx", "*" if str(idx) == "*" else int(idx)))
        elif isinstance(comp, (P.BasicObjectPathComponent, P.ReferenceObjectPathComponent)):
            steps.append(("key", strip_quotes(comp.property_name)))
        elif isinstance(comp, P.StringConstant):
            steps.append(("key", comp.value if comp.needs_to_be_quoted else A.unesc(comp.value)))
        else:
            raise ValueError("unknown path component %r" % (comp,))
    return ("path", p.object_type_name, tuple(steps))


QUOTED_STEP = re.compile(r"'(?:[^'\\]|\\['\\])*'\Z")


def strip_quotes(name):
    """the model's convention: a component name may be given (and is kept) as a well-formed quoted step; anything else is the name itself"""
    if isinstance(name, str) and QUOTED_STEP.match(name):
        return A.unesc(name[1:-1])
    return name


def model_name(name):
    """how a caller following that convention hands over a NAME: as it is, unless it would be taken for a quoted step - then quoted"""
    if QUOTED_STEP.match(name):
        return "'" + name.replace("\\", "\\\\").replace("'", "\\'") + "'"
    return name


def walk(m, level="obs"):
    import stix2.patterns as P
    if isinstance(m, P.ParentheticalExpression):
        inner = m.expression
        if isinstance(inner, (P.ObservationExpression, P._CompoundObservationExpression, P.QualifiedObservationExpression)) or (isinstance(inner, P.ParentheticalExpression) and level == "obs"):
            return ("oparen", walk(inner, "obs"))
        return ("cparen", walk(inner, "cmp"))
    if isinstance(m, P.QualifiedObservationExpression):
        q = m.qualifier
        if isinstance(q, P.RepeatQualifier):
            qq = ("REPEATS", int(q.times_to_repeat.value))
        elif isinstance(q, P.WithinQualifier):
            qq = ("WITHIN", q.number_of_seconds.value)
        else:
            def inst(c):
                x = walk_const(c)
                return x[1] if x[0] == "ts" else tsfmt.instant_of(x[1])
            qq = ("STARTSTOP", inst(q.start_time), inst(q.stop_time))
        return ("qual", qq, walk(m.observation_expression, "obs"))
    if isinstance(m, P._CompoundObservationExpression):
        return ("obs", m.operator, tuple(walk(x, "obs") for x in m.operands))
    if isinstance(m, P.ObservationExpression):
        op = m.operand
        if isinstance(op, (P.ObservationExpression, P._CompoundObservationExpression, P.QualifiedObservationExpression)):
            return walk(op, "obs")
        return ("leaf", walk(op, "cmp"))
    if isinstance(m, P._BooleanExpression):
        return ("bool", m.operator, tuple(walk(x, "cmp") for x in m.operands))
    if isinstance(m, P._ComparisonExpression):
        return ("cmp", m.operator, bool(m.negated), walk_path(m.lhs), walk_const(m.rhs))
    raise ValueError("unknown model node %s" % type(m).__name__)


# ---- my tree -> public model classes ---------------------------------------------------------------------
def build_const(c):
    import stix2.patterns as P
    k = c[0]
    if k == "int":
        return P.IntegerConstant(c[1])
    if k == "float":
        return P.FloatConstant(c[1])
    if k == "str":
        return P.StringConstant(c[1])
    if k == "bool":
        return P.BooleanConstant(c[1])
    if k == "hex":
        return P.HexConstant(c[1])
    if k == "bin":
        return P.BinaryConstant(c[1])
    if k == "ts":
        return P.TimestampConstant(c[2] if len(c) > 2 else tsfmt.fmt(c[1] // tsfmt.PS_PER_US))
    if k == "set":
        return P.ListConstant([build_const(x) for x in c[1]])
    raise ValueError(c)


def build_path(p):
    import stix2.patterns as P
    comps, steps, i = [], list(p[2]), 0
    while i < len(steps):
        st = steps[i]
        if st[0] != "key":
            raise NotBuildable("index step without a preceding key")
        if i + 1 < len(steps) and steps[i + 1][0] == "idx":
            if i + 2 < len(steps) and steps[i + 2][0] == "idx":
                raise NotBuildable("the model has no component for two consecutive index steps")
            comps.append(P.ListObjectPathComponent(model_name(st[1]), steps[i + 1][1]))
            i += 2
        elif st[1].endswith("_ref"):
            comps.append(P.ReferenceObjectPathComponent(st[1]))
            i += 1
        else:
            comps.append(P.BasicObjectPathComponent(model_name(st[1]), False))
            i += 1
    return P.ObjectPath(p[1], comps)


class NotBuildable(Exception):
    pass


CMP_CLASS = {"=": "EqualityComparisonExpression", ">": "GreaterThanComparisonExpression", "<": "LessThanComparisonExpression", ">=": "GreaterThanEqualComparisonExpression",
             "<=": "LessThanEqualComparisonExpression", "IN": "InComparisonExpression", "LIKE": "LikeComparisonExpression", "MATCHES": "MatchesComparisonExpression",
             "ISSUBSET": "IsSubsetComparisonExpression", "ISSUPERSET": "IsSupersetComparisonExpression"}


def build(a):
    import stix2.patterns as P
    k = a[0]
    if k == "leaf":
        return P.ObservationExpression(build(a[1]))
    if k in ("oparen", "cparen"):
        return P.ParentheticalExpression(build(a[1]))
    if k == "qual":
        q = a[1]
        if q[0] == "REPEATS":
            qq = P.RepeatQualifier(q[1])
        elif q[0] == "WITHIN":
            qq = P.WithinQualifier(q[1])
        else:
            qq = P.StartStopQualifier(P.TimestampConstant(tsfmt.fmt(q[1] // tsfmt.PS_PER_US)), P.TimestampConstant(tsfmt.fmt(q[2] // tsfmt.PS_PER_US)))
        return P.QualifiedObservationExpression(build(a[2]), qq)
    if k == "obs":
        cls = {"AND": P.AndObservationExpression, "OR": P.OrObservationExpression, "FOLLOWEDBY": P.FollowedByObservationExpression}[a[1]]
        return cls([build(x) for x in a[2]])
    if k == "bool":
        cls = P.AndBooleanExpression if a[1] == "AND" else P.OrBooleanExpression
        return cls([build(x) for x in a[2]])
    if k == "cmp":
        op, neg = a[1], a[2]
        if op == "!=":
            op, neg = "=", not neg      # the model expresses != as a negated equality
        if op not in CMP_CLASS:
            raise NotBuildable("the model has no class for operator %s" % op)
        if not neg:
            return getattr(P, CMP_CLASS[op])(build_path(a[3]), build_const(a[4]))     # as a caller writes a plain comparison: 'negated' left at its default
        return getattr(P, CMP_CLASS[op])(build_path(a[3]), build_const(a[4]), neg)
    raise ValueError(a)


# ---- the check of one tree ---------------------------------------------------------------------------------
def feature_of(ast):
    ats = A.atoms(ast)
    f = []
    if len(ats) == 1:
        a = ats[0]
        f.append("op=%s%s" % ("NOT " if a[2] else "", a[1]))
        if a[4] is not None and a[4][0] not in ("int",):
            kind = a[4][0]
            if kind == "str":
                s = a[4][1]
                kind = "str" + ("-with-quote" if "'" in s else "") + ("-with-backslash" if "\\" in s else "") + ("-non-ascii" if any(ord(ch) > 127 for ch in s) else "") + ("-empty" if s == "" else "")
            if kind == "ts" and len(a[4]) > 2:
                kind = "ts-trailing-zeros"
            f.append("const=" + kind)
        pf = A.path_feature(a[3])
        if pf != "key":
            f.append("path=" + pf)
    else:
        f.append("structure")
    def has(a, kind):
        if a[0] == kind:
            return True
        if a[0] in ("leaf", "oparen", "cparen"):
            return has(a[1], kind)
        if a[0] == "qual":
            return has(a[2], kind)
        if a[0] in ("obs", "bool"):
            return any(has(x, kind) for x in a[2])
        return False
    if has(ast, "qual"):
        f.append("qualifier")
    return "+".join(f)


def findings(ast, version, programmatic=True, outcomes=None):
    """everything that is wrong with one tree: list of (kind, sub, expected, observed, printed). kind/sub name the oracle clause."""
    import stix2.pattern_visitor as PV
    out = []
    oc = outcomes if outcomes is not None else []
    text = A.to_text(ast)
    try:
        want = A.norm(A.read(text, version))
    except Exception:
        oc.append("not-in-%s-grammar" % version)
        return None
    if version == "2.1" and want != A.norm(ast):
        raise RuntimeError("generator/reader disagree on %s" % text)
    try:
        m = PV.create_pattern_object(text, version=version)
        text2 = str(m)
    except Exception as e:
        oc.append("parse-fails")
        out.append(("parse-fails", type(e).__name__, "model", "%s: %s" % (type(e).__name__, str(e)[:120]), None))
        m = None
    if m is not None:
        try:
            got = A.norm(A.read(text2, version))
        except Exception:
            oc.append("printed-invalid")
            out.append(("printed-text-invalid", "", text, text2, text2))
            got = None
        if got is not None:
            if got != want:
                oc.append("meaning-changed")
                out.append(("parse-print", A.diff_feature(want, got), text, text2, text2))
            else:
                oc.append("parse-print-ok")
            try:
                text3 = str(PV.create_pattern_object(text2, version=version))
                if text3 != text2:
                    out.append(("not-a-fixed-point", "", text2, text3, text2))
            except Exception as e:
                out.append(("reparse-of-printed-fails", type(e).__name__, "model", "%s: %s" % (type(e).__name__, str(e)[:120]), text2))
        try:
            mw = A.norm(walk(m))
            if mw != want:
                out.append(("model", A.diff_feature(want, mw), repr(want)[:300], repr(mw)[:300], None))
        except Exception as e:
            out.append(("model-malformed", type(e).__name__, "well-formed model", "%s: %s" % (type(e).__name__, str(e)[:120]), None))
    if version == "2.1" and programmatic:
        try:
            built = build(A.explicit_parens(ast))
        except NotBuildable:
            oc.append("programmatic:not-expressible")
            return out
        except Exception as e:
            oc.append("programmatic:build-fails")
            out.append(("programmatic-build-fails", type(e).__name__, "model", "%s: %s" % (type(e).__name__, str(e)[:120]), None))
            return out
        text4 = str(built)
        try:
            got4 = A.norm(A.read(text4, version))
        except Exception:
            oc.append("programmatic:printed-invalid")
            out.append(("programmatic-print-invalid", "", text, text4, text4))
            return out
        if got4 != want:
            oc.append("programmatic:meaning-changed")
            out.append(("programmatic-print", A.diff_feature(want, got4), text, text4, text4))
        else:
            oc.append("programmatic:ok")
    return out


BASE_ATOM = ("cmp", "=", False, ("path", "x", (("key", "p"),)), ("int", 1))


def minimal_feature(ast, version, kind, sub):
    """delta-debugging of the case description: the smallest set of deviations from [x:p = 1] that still shows the same finding"""
    def bad(tree):
        try:
            f = findings(tree, version)
        except Exception:
            return False
        return bool(f) and any(k == kind and (s == sub or kind in ("parse-print", "model", "programmatic-print")) for k, s, _, _, _ in f)
    ats = A.atoms(ast)
    if len(ats) > 1:
        for a in ats:
            if bad(("leaf", a)):
                return minimal_feature(("leaf", a), version, kind, sub)
        return feature_of(ast)
    a = ats[0]
    has_qual = ast[0] == "qual"
    if has_qual and bad(("leaf", a)):
        ast = ("leaf", a)
    cur = a
    # reset the constant, then the path, to the base value if the finding survives
    for reset in ("const", "path"):
        if reset == "const" and cur[4] is not None:
            alt = ("int", 1) if cur[1] not in ("IN", "LIKE", "MATCHES", "ISSUBSET", "ISSUPERSET") else A.consts_for(cur[1])[0]
            cand = (cur[0], cur[1], cur[2], cur[3], alt)
        elif reset == "path":
            cand = (cur[0], cur[1], cur[2], BASE_ATOM[3], cur[4])
        else:
            continue
        if cand != cur and bad(("leaf", cand)):
            cur = cand
    # finally the operator / negation / constant together (a path-only defect shows with the plain [.. = 1] test as well)
    cand = ("cmp", "=", False, cur[3], ("int", 1))
    if cand != cur and bad(("leaf", cand)):
        cur = cand
    return feature_of(("leaf", cur) if ast[0] == "leaf" else ("qual", ast[1], ("leaf", cur)) if ast[0] == "qual" and ast[2][0] == "leaf" else ast)


def check_tree(ast, version, part, case):
    text = A.to_text(ast)
    part.evaluations += 1
    part.transitions += 4
    oc = []
    f = findings(ast, version, case.get("programmatic", True), oc)
    for o in oc:
        part.outcome(o)
    if f is None:
        return
    part.state((version, text), nontrivial=True)
    c = dict(case, text=text, version=version)
    for kind, sub, exp, obs, printed in f:
        if kind in ("parse-print", "model", "programmatic-print") and not sub.startswith(("structure", "atoms")):
            key = "C10/%s/%s" % (kind, sub)
        else:
            key = "C10/%s/%s" % (kind + ("/" + sub if sub else ""), minimal_feature(ast, version, kind, sub))
        what = {"parse-fails": "a valid pattern cannot be turned into the object model (or printed)", "printed-text-invalid": "printing the parsed pattern yields text the grammar does not accept",
                "parse-print": "parse-then-print changes the meaning of the pattern", "not-a-fixed-point": "print(parse(print(parse(text)))) differs from print(parse(text))",
                "reparse-of-printed-fails": "the library cannot parse what it printed", "model": "the object model built from the text does not carry the pattern's structure",
                "model-malformed": "the object model built from the text is malformed", "programmatic-build-fails": "the public model classes refuse a structure the grammar allows",
                "programmatic-print-invalid": "a programmatically assembled pattern prints to text the grammar does not accept",
                "programmatic-print": "a programmatically assembled pattern prints to text with another meaning"}[kind]
        part.violation(key, what, dict(c, printed=printed) if printed else c, exp, obs)


LEAVES = [("cmp", "=", False, ("path", "x", (("key", "p"),)), ("int", 1)), ("cmp", "=", False, ("path", "x", (("key", "q"),)), ("int", 2)),
          ("cmp", "!=", False, ("path", "x", (("key", "r"),)), ("str", "a'b")), ("cmp", ">", False, ("path", "x", (("key", "s"),)), ("int", 4))]
QUALS = [("REPEATS", 2), ("WITHIN", 5), ("STARTSTOP", A.T1, A.T3), ("WITHIN", 1.5)]


def families(thorough):
    """(family name, list of trees)"""
    fam = []
    fam.append(("atoms", [("leaf", a) for a in A.atom_menu()]))
    nmax = 4 if thorough else 3
    ct = []
    # 2 and 3 leaves with every choice of redundant parentheses; 4 (thorough: 5) leaves in every shape and operator assignment without redundant parentheses
    # (a chain such as a OR b OR c AND d needs four comparisons)
    for n in (2, 3, 4) + ((5,) if thorough else ()):
        ct += A.trees(LEAVES, ["AND", "OR"], n, lambda x: ("cparen", x), lambda op, xs: ("bool", op, xs), optional_parens=n < 4)
    fam.append(("comparison-trees", [("leaf", t) for t in ct]))
    OL = [("leaf", x) for x in LEAVES]
    ot = []
    for n in (2, 3, 4) + ((5,) if thorough else ()):
        ot += A.trees(OL, ["AND", "OR", "FOLLOWEDBY"], n, lambda x: ("oparen", x), lambda op, xs: ("obs", op, xs), optional_parens=n < 4)
    fam.append(("observation-trees", ot))
    qt = []
    bases = [OL[0], ("obs", "AND", (OL[0], OL[1])), ("obs", "OR", (OL[0], OL[1])), ("obs", "FOLLOWEDBY", (OL[0], OL[1])), ("oparen", OL[0]), ("leaf", ("bool", "OR", (LEAVES[0], LEAVES[1])))]
    for b in bases:
        for q in QUALS:
            qt.append(("qual", q, b))
            for q2 in QUALS[:3]:
                qt.append(("qual", q2, ("qual", q, b)))
            # qualifier on one operand of a compound expression vs on the whole group
            for op in ("AND", "OR", "FOLLOWEDBY"):
                qt.append(("obs", op, (("qual", q, b), OL[2])))
                qt.append(("obs", op, (OL[2], ("qual", q, b))))
                qt.append(("qual", q, ("obs", op, (b, OL[2]))))
    fam.append(("qualifiers", qt))
    # mixed: an observation tree whose leaves are comparison trees with special atoms
    special = [a for a in A.atom_menu() if a[2] or (a[4] is not None and a[4][0] in ("str", "set", "ts")) or A.path_feature(a[3]) != "key"][:60]
    mixed = []
    for i in range(0, len(special) - 1, 2):
        a, b = special[i], special[i + 1]
        mixed.append(("obs", "FOLLOWEDBY", (("leaf", ("bool", "AND", (a, ("cparen", ("bool", "OR", (b, LEAVES[0])))))), ("qual", ("REPEATS", 2), ("leaf", b)))))
    fam.append(("mixed", mixed))
    return fam


# ---- programmatic constants: constructor x value menu, and raw Python values (sequences) --------------------
MD5 = "d41d8cd98f00b204e9800998ecf8427e"


def constant_menu():
    """(class name, constructor args, expected typed constant or None when the value is not one the class can denote)"""
    nan, inf = float("nan"), float("inf")
    return [
        ("HexConstant", ("ab",), ("hex", "ab")), ("HexConstant", ("AB01",), ("hex", "AB01")), ("HexConstant", ("ab\n",), None), ("HexConstant", ("abc",), None), ("HexConstant", ("zz",), None),
        ("HexConstant", ("h'ab'",), ("hex", "ab")), ("HexConstant", ("h'ab'\n",), None), ("HexConstant", ("",), None),
        ("BinaryConstant", ("YQ==",), ("bin", "YQ==")), ("BinaryConstant", ("YQ==\n",), None), ("BinaryConstant", ("!!",), None), ("BinaryConstant", ("YQ='",), None),
        ("HashConstant", (MD5, "MD5"), ("str", MD5)), ("HashConstant", (MD5 + "\n", "MD5"), None), ("HashConstant", (MD5 + "zz", "MD5"), None), ("HashConstant", (MD5, "md5"), ("str", MD5)),
        ("HashConstant", (MD5 + "zz", "MD6"), None), ("HashConstant", ("it's", "SSDEEP"), None),
        ("IntegerConstant", (5,), ("int", 5)), ("IntegerConstant", ("5",), ("int", 5)), ("IntegerConstant", (-5,), ("int", -5)), ("IntegerConstant", ("x",), None), ("IntegerConstant", (10 ** 30,), ("int", 10 ** 30)),
        ("IntegerConstant", (True,), None), ("IntegerConstant", (nan,), None), ("IntegerConstant", (1.5,), None),
        ("FloatConstant", (1.5,), ("float", 1.5)), ("FloatConstant", ("1.5",), ("float", 1.5)), ("FloatConstant", (nan,), None), ("FloatConstant", (inf,), None), ("FloatConstant", (-inf,), None),
        ("FloatConstant", ("nan",), None), ("FloatConstant", (1e22,), ("float", 1e22)), ("FloatConstant", (1e-7,), ("float", 1e-7)), ("FloatConstant", (5,), ("float", 5.0)), ("FloatConstant", ("x",), None),
        ("BooleanConstant", (True,), ("bool", True)), ("BooleanConstant", ("true",), ("bool", True)), ("BooleanConstant", ("F",), ("bool", False)), ("BooleanConstant", ("maybe",), None),
        ("BooleanConstant", (0,), ("bool", False)), ("BooleanConstant", (2,), None), ("BooleanConstant", (1,), ("bool", True)), ("BooleanConstant", (False,), ("bool", False)),
        ("BooleanConstant", ("TRUE",), ("bool", True)), ("BooleanConstant", ("false",), ("bool", False)), ("BooleanConstant", ("t",), ("bool", True)), ("BooleanConstant", ("1",), ("bool", True)),
        ("BooleanConstant", ("0",), ("bool", False)),
        ("StringConstant", ("it's \\ \n",), ("str", "it's \\ \n")), ("StringConstant", ("",), ("str", "")),
        ("TimestampConstant", ("2017-01-01T00:00:00Z",), ("ts", A.T1)), ("TimestampConstant", ("2017-01-01T00:00:00Z\n",), None), ("TimestampConstant", ("2017-01-01",), None),
        ("TimestampConstant", ("yesterday",), None), ("TimestampConstant", ("2017-01-01T00:00:00.123456Z",), ("ts", A.T1 + 123456 * tsfmt.PS_PER_US)),
    ]


def check_constant(cname, args, want, part, case):
    """the constructor either refuses (ValueError / TypeError) or yields a constant that prints to valid text carrying exactly the value it was given"""
    import stix2.patterns as P
    part.evaluations += 1
    part.transitions += 2
    try:
        c = getattr(P, cname)(*args)
    except (ValueError, TypeError):
        part.outcome("constant:refused")
        if want is not None:
            part.violation("C10/constant-refused/%s" % cname, "a model constant class refuses a value of its own kind", case, repr(want), "refused")
        return
    except Exception as e:
        part.outcome("constant:raises")
        part.violation("C10/constant-raises/%s/%s" % (cname, type(e).__name__), "a model constant class fails on a value instead of refusing it", case, "ValueError", "%s: %s" % (type(e).__name__, str(e)[:100]))
        return
    text = str(P.ObservationExpression(P.EqualityComparisonExpression(P.ObjectPath("x", [P.BasicObjectPathComponent("p", False)]), c)))
    try:
        got = A.norm(A.read(text, "2.1"))
    except Exception:
        part.outcome("constant:printed-invalid")
        part.violation("C10/constant-print-invalid/%s" % cname, "a constant the model class accepted prints to text the grammar does not accept", dict(case, printed=text), "refused, or valid text", text)
        return
    part.state(("constant", text), nontrivial=True)
    if want is None:
        part.outcome("constant:accepted-and-valid")
        return
    exp = A.norm(("leaf", ("cmp", "=", False, ("path", "x", (("key", "p"),)), want)))
    if got != exp:
        part.outcome("constant:value-changed")
        part.violation("C10/constant-print/%s" % cname, "a constant prints to text denoting another value", dict(case, printed=text), A.to_text(("leaf", ("cmp", "=", False, ("path", "x", (("key", "p"),)), want))), text)
    else:
        part.outcome("constant:ok")


RAW = [True, False, 1, 0, 1.0, 0.0, -1, 1.5, "a", "true", "1", "", "it's", 2 ** 53 + 1, [True, 1.0, False, 0.0, 1, 0], [1, "1"], [1.0], [True]]


def raw_typed(v):
    if isinstance(v, bool):
        return ("bool", v)
    if isinstance(v, int):
        return ("int", v)
    if isinstance(v, float):
        return ("float", v)
    if isinstance(v, str):
        return ("str", v)
    return ("set", tuple(raw_typed(x) for x in v))


def check_raw_sequence(seq, part, case):
    """raw Python values handed to the comparison classes (make_constant): the constant chosen for a value must not depend on the values converted before it"""
    import stix2.patterns as P
    for i, v in enumerate(seq):
        part.transitions += 1
        cls = P.InComparisonExpression if isinstance(v, list) else P.EqualityComparisonExpression
        want = ("leaf", ("cmp", "IN" if isinstance(v, list) else "=", False, ("path", "x", (("key", "p"),)), raw_typed(v)))
        try:
            text = str(P.ObservationExpression(cls("x:p", v)))
            got = A.norm(A.read(text, "2.1"))
        except Exception as e:
            part.outcome("raw:raises")
            part.violation("C10/raw-value-raises/%s" % type(e).__name__, "a comparison built from a raw Python value fails", dict(case, step=i), A.to_text(want), "%s: %s" % (type(e).__name__, str(e)[:100]))
            return
        if got != A.norm(want):
            part.outcome("raw:DIFFERS")
            part.violation("C10/raw-value/%s%s" % (raw_typed(v)[0], "/after-earlier-values" if i else ""), "a raw Python value is turned into a constant of another type or value",
                           dict(case, step=i, printed=text), A.to_text(want), text)
            return
    part.outcome("raw:ok")
    part.evaluations += 1


def text_paths():
    """(path tree, how it is handed over as TEXT): the whole left-hand side as one string, and an ObjectPath built from step texts"""
    out = []
    for path in A.PATHS + [(("key", "p"), ("idx", 10)), (("key", "p"), ("idx", 123), ("key", "q")), (("key", "sections"), ("idx", 10), ("key", "entropy")), (("key", "p"), ("idx", 0))]:
        steps = list(path)
        if any(st[0] == "key" and (not A.IDENT.match(st[1]) or st[1] in A.RESERVED) for st in steps):
            continue        # quoted steps have no plain-text spelling inside a dotted string
        if any(steps[i][0] == "idx" and (i == 0 or steps[i - 1][0] == "idx") for i in range(len(steps))):
            continue
        out.append(path)
    return out


def check_text_path(path, part, case):
    import stix2.patterns as P
    want = A.norm(("leaf", ("cmp", "=", False, ("path", "x", path), ("int", 1))))
    dotted = A.p_path(("path", "x", path))                      # e.g. x:p[10].q
    comps, i = [], 0
    steps = list(path)
    while i < len(steps):
        if i + 1 < len(steps) and steps[i + 1][0] == "idx":
            comps.append("%s[%s]" % (steps[i][1], steps[i + 1][1]))
            i += 2
        else:
            comps.append(steps[i][1])
            i += 1
    for form, make in (("lhs-string", lambda: P.EqualityComparisonExpression(dotted, 1)), ("ObjectPath-from-step-texts", lambda: P.EqualityComparisonExpression(P.ObjectPath("x", list(comps)), 1)),
                       ("make_object_path", lambda: P.EqualityComparisonExpression(P.ObjectPath.make_object_path(dotted), 1))):
        part.evaluations += 1
        part.transitions += 1
        c = dict(case, form=form, path=dotted)
        try:
            text = str(P.ObservationExpression(make()))
            got = A.norm(A.read(text, "2.1"))
        except Exception as e:
            part.outcome("text-path:raises")
            part.violation("C10/text-path-raises/%s/%s" % (form, type(e).__name__), "a path given as text cannot be turned into a printable pattern", c, A.to_text(("leaf", ("cmp", "=", False, ("path", "x", path), ("int", 1)))),
                           "%s: %s" % (type(e).__name__, str(e)[:100]))
            continue
        if got != want:
            part.outcome("text-path:CHANGED")
            part.violation("C10/text-path-changed/%s/%s" % (form, A.path_feature(("path", "x", path)) + ("+index>=10" if any(st[0] == "idx" and isinstance(st[1], int) and st[1] >= 10 for st in path) else "")),
                           "a path given as text prints as another path", dict(c, printed=text), A.to_text(("leaf", ("cmp", "=", False, ("path", "x", path), ("int", 1)))), text)
        else:
            part.outcome("text-path:ok")


REPARSE_TEXTS = [
    "[windows-registry-key:key = 'HKEY_LOCAL_MACHINE\\\\Software\\\\Foo' AND windows-registry-key:q = 2 AND windows-registry-key:p = 1]",
    "[ipv4-addr:value ISSUBSET '198.51.100.77/24' OR ipv4-addr:value = '198.51.100.5/32']",
    "[x:p = 1 OR x:p = 1 OR (x:p = 1 AND x:q = 2)]",
    "[x:q = 2 AND x:p = 1] OR [x:q = 2 AND x:p = 1]",
    "([x:b = 2] AND [x:a = 1]) REPEATS 2 TIMES WITHIN 5 SECONDS",
    "[x:p NOT IN (3, 1, 2)] FOLLOWEDBY [x:q != 'B']",
    "[x:p = 1 AND (x:q = 2 OR (x:r = 3 AND (x:s = 4 OR x:t = 5)))]",
]
REPARSE_SHAPES = [("text", lambda f, t: f(t)), ("version-keyword", lambda f, t: f(t, version="2.1")), ("positional", lambda f, t: f(t, "", "", "2.1"))]


def reparse_uses():
    """what happens to the model of the FIRST parse before the same text is parsed again (the library's own in-place normalisation included)"""
    import stix2.patterns as P
    from stix2.equivalence import pattern as EQ

    def first_cmp(m):
        node = m
        while True:
            if hasattr(node, "observation_expression"):
                node = node.observation_expression
            elif hasattr(node, "expression"):
                node = node.expression
            elif hasattr(node, "operands"):
                node = node.operands[0]
            elif hasattr(node, "operand"):
                node = node.operand
            else:
                return node

    def negate(m, t):
        c = first_cmp(m)
        c.negated = not c.negated

    def change_rhs(m, t):
        first_cmp(m).rhs = P.StringConstant("changed")

    def grow(m, t):
        node = m
        while not hasattr(node, "operands"):
            node = getattr(node, "observation_expression", None) or getattr(node, "expression", None) or getattr(node, "operand", None)
            if node is None:
                return
        node.operands.append(node.operands[0])
        node.operands.reverse()

    return [("nothing", lambda m, t: None), ("printed", lambda m, t: str(m)),
            ("equivalent_patterns", lambda m, t: EQ.equivalent_patterns(t, t, stix_version="2.1")),
            ("find_equivalent_patterns", lambda m, t: list(EQ.find_equivalent_patterns(t, [t, "[x:zz = 1]"], stix_version="2.1"))),
            ("caller-negates-first-comparison", negate), ("caller-replaces-a-constant", change_rhs), ("caller-appends-and-reorders-operands", grow)]


def check_reparse(ti, part, case):
    """HISTORY: what was done with the model of an earlier parse of the same text (by the caller or by the library's own equivalence code, which normalises models in place)
    does not show in a later parse: every parse is a fresh model of the text."""
    from stix2.pattern_visitor import create_pattern_object
    text = REPARSE_TEXTS[ti]
    want = A.norm(A.read(text, "2.1"))
    for sname, shape in REPARSE_SHAPES:
        for uname, use in reparse_uses():
            if case.get("shape") not in (None, sname) or case.get("use") not in (None, uname):
                continue
            part.evaluations += 1
            part.transitions += 1
            c = dict(case, shape=sname, use=uname, text=text)
            m1 = shape(create_pattern_object, text)
            t1 = str(m1)
            use(m1, text)
            m2 = shape(create_pattern_object, text)
            t2 = str(m2)
            part.state(("reparse", ti, sname, uname, t2))
            got = None
            try:
                got = A.norm(A.read(t2, "2.1"))
            except Exception:
                pass
            if m2 is m1 or t2 != t1 or got != want:
                part.outcome("reparse:DIFFERS")
                part.violation("C10/parse-depends-on-earlier-use-of-the-model/%s" % uname, "a second parse of the same text does not print like the first: the model is shared with an earlier parse", c, t1,
                               t2 if t2 != t1 else "the very same model object is returned")
            else:
                part.outcome("reparse:ok")


def run_case(case, part):
    env.reset()
    if case["family"] == "reparse-after-use":
        for ti in range(len(REPARSE_TEXTS)):
            if case.get("index") is None or case["index"] == ti:
                check_reparse(ti, part, {"family": "reparse-after-use", "index": ti, "shape": case.get("shape"), "use": case.get("use")})
        return
    if case["family"] == "text-paths":
        for i, path in enumerate(text_paths()):
            if case.get("index") is None or case["index"] == i:
                check_text_path(path, part, {"family": "text-paths", "index": i})
        return
    if case["family"] == "constants":
        for i, (cname, args, want) in enumerate(constant_menu()):
            if case.get("index") is None or case["index"] == i:
                check_constant(cname, args, want, part, {"family": "constants", "index": i, "class": cname, "args": repr(args)})
        return
    if case["family"] == "raw-values":
        import itertools
        for seq in itertools.product(range(len(RAW)), repeat=case.get("depth", 2)):
            if case.get("first") is not None and seq[0] != case["first"]:
                continue
            if case.get("sequence") is not None and list(seq) != case["sequence"]:
                continue
            check_raw_sequence([RAW[j] for j in seq], part, {"family": "raw-values", "depth": len(seq), "sequence": list(seq), "values": repr([RAW[j] for j in seq])})
        return
    fams = dict(families(case.get("thorough", False)))
    trees = fams[case["family"]]
    lo, hi = case.get("lo", 0), case.get("hi", len(trees))
    for i in range(lo, min(hi, len(trees))):
        if case.get("index") is not None and i != case["index"]:
            continue
        for version in ("2.1", "2.0"):
            check_tree(trees[i], version, part, {"family": case["family"], "index": i, "thorough": case.get("thorough", False), "programmatic": True})


def replay(case, part):
    if case["family"] == "raw-values":
        return run_case({"family": "raw-values", "depth": case["depth"], "sequence": case["sequence"]}, part)
    if case["family"] == "reparse-after-use":
        return run_case({"family": "reparse-after-use", "index": case["index"], "shape": case.get("shape"), "use": case.get("use")}, part)
    run_case({"family": case["family"], "index": case["index"], "thorough": case.get("thorough", False)}, part)


def run(run):
    th = run.thorough
    cases = []
    sizes = {}
    for name, trees in families(th):
        sizes[name] = len(trees)
        step = 100
        for lo in range(0, len(trees), step):
            cases.append({"family": name, "lo": lo, "hi": lo + step, "thorough": th})
    cases.append({"family": "constants"})
    cases.append({"family": "text-paths"})
    for ti in range(len(REPARSE_TEXTS)):
        cases.append({"family": "reparse-after-use", "index": ti})
    sizes["reparse-after-use"] = len(REPARSE_TEXTS) * len(REPARSE_SHAPES) * 7
    sizes["text-paths"] = len(text_paths())
    for first in range(len(RAW)):
        cases.append({"family": "raw-values", "depth": 3 if th else 2, "first": first})
    sizes["constants"] = len(constant_menu())
    sizes["raw-values"] = len(RAW) ** (3 if th else 2)
    run.mode = "DEV"
    run.rule = ("full product of the atom menus (operator x NOT x constant x path) + all comparison / observation trees with <= %d leaves over every operator assignment (redundant parentheses in every position up to 3 leaves) and every "
                "parenthesisation + qualifier placements (alone, stacked, on operand vs on group) + mixed trees; each through text->model->text (twice), field-by-field model walk and "
                "programmatic construction; every model constant class x value menu (refused, or valid text with the same value); every sequence of %d raw Python values through the "
                "comparison classes (type chosen for a value independent of earlier values); every (text, call shape, earlier use of the first model) triple parsed a second time; under the 2.1 grammar and, where the third-party 2.0 parser accepts the text, the 2.0 grammar; states = distinct (grammar version, text)" % (5 if th else 4, 3 if th else 2))
    run.bound = {"families": sizes, "max_leaves": 5 if th else 4}
    run.assumptions += ["independent reader mc/ref/pattern_ast.py on top of the third-party stix2-patterns ANTLR parse tree (its grammar is the definition of 'valid pattern')",
                        "structural equality ignores redundant parentheses and flattens chains of one associative operator (AND / OR / FOLLOWEDBY)"]
    run.pmap(run_case, cases, order_independent=True)
    run.part.sample({"family": "atoms", "text": "[x:p NOT IN (1, 2)]", "expect": "printed text still says NOT IN"})
    run.part.sample({"family": "comparison-trees", "text": "[x:p = 1 AND (x:q = 2 OR x:r != 'a\\'b')]", "expect": "grouping preserved"})
    run.part.sample({"family": "qualifiers", "text": "([x:p = 1] AND [x:q = 2]) REPEATS 2 TIMES WITHIN 5 SECONDS"})
    o = run.part.outcomes
    run.require(o.get("parse-print-ok", 0) > 1000, "round trips executed")
    run.require(o.get("programmatic:ok", 0) > 500, "programmatic constructions executed")
    run.require(o.get("raw:ok", 0) + o.get("raw:DIFFERS", 0) + o.get("raw:raises", 0) >= len(RAW) ** 2, "raw value sequences executed")
