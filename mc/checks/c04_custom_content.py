"""C04 - Custom content is admitted only on request and is always detected.

DEV-mode enumeration: every valid base (minimal and maximal instance of every type of both spec versions, frozen spec model) x every place
custom content can be injected (top level, each embedded object, each extension, hash dictionaries, each reference, bundle and
observed-data members, `custom_properties`; the site itself optionally nested inside a bundle) x injection kind x allow_custom in
{False, True} x entry {constructor, parse(dict), parse(text), MemoryStore.add, FileSystemSink.add, strict parent given a permissively
pre-built sub-object}. Thorough: two simultaneous injections.
Oracle: strict => refused with a library error, nothing produced. Permissive => has_custom == (a strict parse of the object's own
serialization is refused); with no injection: flag false and strict re-parse accepted.
"""
import copy
import itertools
import json
import os
import shutil

from mc import env
from mc.spec import gen, harness, model

ID = "C04"
V4 = "3f7f0c5f-5d54-4292-94ea-ec1e1952be0"
# injection kinds that are custom content by the specification (strict mode must refuse them); the other kinds are judged only through
# the equivalence flag <=> strict re-parse
MUST_REFUSE = {"ref-to-registered-custom-type", "extensions-claim-inside-helper-object", "ref-to-marking-flavour-name", "ref-to-extension-name", "unregistered-type", "unregistered-type+extdef-property-extension", "unregistered-type+extdef-toplevel-extension",
               "x-property", "unknown-property", "unregistered-extension", "unknown-hash", "non-vocabulary-hash", "ref-to-unregistered-type", "unregistered-member-type",
               "custom_properties-in-json", "custom-property-in-extdef-toplevel-object", "extension-key-names-object-type", "extension-key-names-observable-type",
               "extension-key-names-marking-flavour", "unknown-hash-first", "non-vocabulary-hash-first", "ref-to-2.1-only-type", "extensions-claim-without-extension-mechanism", "x-property-next-to-unregistered-property-extension", "x-property-next-to-unregistered-new-sdo",
               "x-property-next-to-unregistered-x-toplevel-property-extension"}


def sites(base, version, tkey):
    """(site kind, path, injection label, function(json) -> injected json)"""
    sp = model.spec(version)
    out = []

    def obj_site(path, where):
        def put(name, value):
            def f(j):
                t = harness.locate(j, path)
                t[name] = value
                return j
            return f
        out.append((where, path, "x-property", put("x_foo", "bar")))
        out.append((where, path, "unknown-property", put("foo_unknown", 1)))
        out.append((where, path, "custom_properties-in-json", put("custom_properties", {"x_foo": "bar"})))
        if where in ("embedded-object", "registered-extension") and version == "2.1":
            # only STIX objects can be extended: inside a helper type (external reference, kill chain phase, extension content ...) 'extensions' is an unknown property
            # like any other and legitimises nothing
            def claim(j):
                t = harness.locate(j, path)
                t["extensions"] = {"extension-definition--" + V4 + "6": {"extension_type": "toplevel-property-extension"}}
                t["x_any"] = 1
                return j
            out.append((where, path, "extensions-claim-inside-helper-object", claim))
    obj_site((), "top-level")
    for path, v, p, ckey, pname in harness.typed_slots(base, version, tkey):
        k = p["kind"]
        if k == "embedded" and isinstance(v, dict):
            obj_site(path, "embedded-object")
        if k == "extensions" and isinstance(v, dict):
            for ek in v:
                if "extensions:" + ek in sp.classes:
                    obj_site(path + (ek,), "registered-extension")
            out.append(("extensions", path, "unregistered-extension", lambda j, path=path: _set(j, path + ("x-unreg-ext",), {"a": 1})))
            out += other_kind_keys(path, version)
        if k == "observables" and isinstance(v, dict):
            for mk in v:
                obj_site(path + (mk,), "container-member")
            out.append(("container", path, "unregistered-member-type", lambda j, path=path: _set(j, path + ("99",), dict({"type": "x-unreg-sco", "foo": 1}, **({"id": "x-unreg-sco--" + V4 + "1", "spec_version": "2.1"} if version == "2.1" else {})))))
        if k == "stixobject" and isinstance(v, dict):
            obj_site(path, "bundle-member")
        if k == "hashes" and isinstance(v, dict):
            out.append(("hashes", path, "unknown-hash", lambda j, path=path: _set(j, path + ("FOO-1",), "abcdef")))
            # the same, but as the FIRST key of the dictionary (a specification algorithm follows it)
            out.append(("hashes", path, "unknown-hash-first", lambda j, path=path: gen.set_path(j, path, dict([("FOO-1", "abcdef")] + list(harness.locate(j, path).items())))))
            out.append(("hashes", path, "non-vocabulary-hash-first", lambda j, path=path: gen.set_path(j, path, dict([("SHA-224" if version == "2.1" else "TLSH", gen.HASHES["SHA-224"] if version == "2.1" else "0a" * 35)] + list(harness.locate(j, path).items())))))
            nv = "SHA-224" if version == "2.1" else "TLSH"
            out.append(("hashes", path, "non-vocabulary-hash", lambda j, path=path, nv=nv: _set(j, path + (nv,), gen.HASHES[nv] if nv != "TLSH" else "0a" * 35)))
        if k == "ref" and isinstance(v, str):
            out.append(("reference", path, "ref-to-unregistered-type", lambda j, path=path: gen.set_path(j, path, "x-unreg--" + V4 + "2")))
            # a custom type stays custom content when a class has been registered for it (object and observable flavour)
            out.append(("reference", path, "ref-to-registered-custom-type", lambda j, path=path: gen.set_path(j, path, "x-verif-c04-obj--" + V4 + "2")))
            out.append(("reference", path, "ref-to-registered-custom-type", lambda j, path=path: gen.set_path(j, path, "x-verif-c04-sco--" + V4 + "2")))
            # names that ARE registered with the library, but not as object types
            out.append(("reference", path, "ref-to-marking-flavour-name", lambda j, path=path: gen.set_path(j, path, "statement--" + V4 + "2")))
            out.append(("reference", path, "ref-to-extension-name", lambda j, path=path: gen.set_path(j, path, "archive-ext--" + V4 + "2")))
            if version == "2.0":
                # a type that exists only in the OTHER spec version is custom here
                out.append(("reference", path, "ref-to-2.1-only-type", lambda j, path=path: gen.set_path(j, path, "location--" + V4 + "2")))
                out.append(("reference", path, "ref-to-2.1-only-type", lambda j, path=path: gen.set_path(j, path, "note--" + V4 + "2")))
    # extensions slot absent on the base but defined for the type: inject a whole extensions dict
    c = sp.classes[tkey]
    if "extensions" in c["properties"] and "extensions" not in base:
        out += other_kind_keys(("extensions",), version, absent=True)
        # (each merges into whatever an earlier injection of a pair already put there)
        def ext(j, k, v, **more):
            return dict(j, extensions=dict(j.get("extensions") or {}, **{k: v}), **more)
        out.append(("extensions", ("extensions",), "unregistered-extension", lambda j: ext(j, "x-unreg-ext", {"a": 1})))
        if version == "2.1":
            out.append(("extensions", ("extensions",), "extdef-property-extension", lambda j: ext(j, "extension-definition--" + V4 + "3", {"extension_type": "property-extension", "rank": 1})))
            out.append(("extensions", ("extensions",), "extdef-toplevel-extension", lambda j: ext(j, "extension-definition--" + V4 + "4", {"extension_type": "toplevel-property-extension"}, ext_rank=1)))
    if version == "2.0" and "extensions" not in c["properties"] and base.get("type") != "bundle":
        # no extension mechanism on this class: 'extensions' (and whatever it claims to legitimise) is custom content
        out.append(("top-level", (), "extensions-claim-without-extension-mechanism",
                    lambda j: dict(j, foo_unknown=1, extensions={"extension-definition--" + V4 + "6": {"extension_type": "toplevel-property-extension"}})))
    if version == "2.1" and "extensions" in c["properties"]:
        # a custom top-level property next to an unregistered extension that is NOT a toplevel-property-extension: still custom
        for et in ("property-extension", "new-sdo", "x-toplevel-property-extension"):
            out.append(("top-level", (), "x-property-next-to-unregistered-" + et,
                        lambda j, et=et: dict(j, x_foo="bar", extensions=dict(j.get("extensions") or {}, **{"extension-definition--" + V4 + "7": {"extension_type": et}}))))
    if c["properties"].get("objects", {}).get("kind") == "list" and isinstance(base.get("objects"), list):
        out.append(("bundle", ("objects",), "unregistered-member-type", lambda j: dict(j, objects=j["objects"] + [dict({"type": "x-unreg", "id": "x-unreg--" + V4 + "5", "created": "2016-05-12T08:17:27.000Z",
                                                                                                                          "modified": "2016-05-12T08:17:27.000Z", "foo": 1}, **({"spec_version": "2.1"} if version == "2.1" else {}))])))
    return out


def other_kind_keys(path, version, absent=False):
    """extension keys that are not registered extensions but ARE names registered with the library for another kind of thing, with content valid for that class"""
    menu = [("extension-key-names-object-type", "identity", {"name": "n", "identity_class": "individual"}), ("extension-key-names-observable-type", "url", {"value": "http://e.x/"}),
            ("extension-key-names-marking-flavour", "tlp", {"tlp": "red"}), ("extension-key-names-marking-flavour", "statement", {"statement": "s"})]
    out = []
    for inj, k, body in menu:
        if absent:
            out.append(("extensions", path, inj, lambda j, k=k, body=body: dict(j, extensions=dict(j.get("extensions") or {}, **{k: dict(body)}))))
        else:
            out.append(("extensions", path, inj, lambda j, path=path, k=k, body=body: _set(j, path + (k,), dict(body))))
    return out


def _set(j, path, value):
    return gen.set_path(j, path, value)


class Stores(object):
    inst = None

    def __init__(self):
        self.dir = env.scratch_dir("c04")
        self.pid = os.getpid()
        import atexit
        atexit.register(shutil.rmtree, self.dir, True)

    def fresh(self, allow):
        from stix2 import FileSystemSink, FileSystemSource, MemoryStore
        d = os.path.join(self.dir, "s")
        shutil.rmtree(d, ignore_errors=True)
        os.makedirs(d)
        return MemoryStore(allow_custom=allow), FileSystemSink(d, allow_custom=allow), FileSystemSource(d, allow_custom=True)

    @classmethod
    def get(cls):
        if cls.inst is None or cls.inst.pid != os.getpid():
            cls.inst = Stores()
        return cls.inst


def produced(obj):
    """has_custom of whatever came back (a plain dict is by definition unvalidated custom content)"""
    if isinstance(obj, dict):
        return True, None
    return bool(obj.has_custom), obj


def judge(part, j, version, inj, case, feat, n_injections, stores):
    import stix2
    errs = harness.lib_errors()
    top_type = j.get("type")
    forms = [("parse(dict)", lambda a: stix2.parse(copy.deepcopy(j), allow_custom=a)), ("parse(text)", lambda a: stix2.parse(json.dumps(j), allow_custom=a))]
    cls = stix2.registry.class_for_type(top_type, version) if isinstance(top_type, str) else None
    if cls is not None and "custom_properties" not in json.dumps(j):
        forms.append(("constructor", lambda a: cls(allow_custom=a, **copy.deepcopy(j))))
    for fname, fn in forms:
        for allow in (False, True):
            part.evaluations += 1
            part.transitions += 1
            c = dict(case, entry=fname, allow_custom=allow)
            try:
                obj = fn(allow)
                err = None
            except errs as e:
                obj, err = None, e
            if not allow:
                if n_injections and inj in MUST_REFUSE:
                    part.outcome("strict:refused" if err is not None else "strict:ACCEPTED")
                    if err is None:
                        part.violation("C04/strict-accepts/%s/%s" % (feat, fname if fname == "constructor" else "parse"), "custom content is accepted although customization is disallowed", c,
                                       "refused", "object" if not isinstance(obj, dict) else "dict")
                elif not n_injections:
                    part.outcome("strict:plain-accepted" if err is None else "strict:plain-refused")
                    if err is not None:
                        part.violation("C04/strict-refuses-plain/%s" % fname, "a base without custom content is refused in strict mode", c, "accepted", "%s: %s" % (type(err).__name__, str(err)[:120]))
                    elif not isinstance(obj, dict) and obj.has_custom:
                        part.violation("C04/flag-set-in-strict-mode", "has_custom is true on a strictly constructed object", c, False, True)
                else:
                    part.outcome("strict:either")
                continue
            if err is not None:
                part.outcome("permissive:refused")
                continue
            flag, o = produced(obj)
            if o is None:
                part.outcome("permissive:dict")
                continue
            try:
                text = o.serialize()
            except Exception as e:
                part.outcome("permissive:unserializable")
                continue
            try:
                stix2.parse(text, allow_custom=False)
                strict_ok = True
            except errs:
                strict_ok = False
            part.outcome("permissive:flag=%s,strict_reparse=%s" % (flag, strict_ok))
            if flag != (not strict_ok):
                part.violation("C04/flag-vs-strict-reparse/%s/%s" % ("flag-missing" if not flag else "flag-spurious", feat), "has_custom disagrees with whether a strict parse of the serialization is refused",
                               c, {"has_custom": not strict_ok}, {"has_custom": flag, "strict_reparse_accepted": strict_ok})
            if not n_injections and (flag or not strict_ok):
                part.violation("C04/plain-flagged/%s" % fname, "an object without custom content is flagged / refused", c, {"has_custom": False, "strict": True}, {"has_custom": flag, "strict": strict_ok})
    if stores and isinstance(top_type, str) and top_type != "bundle":
        st = Stores.get()
        for allow in (False, True):
            mem, sink, src = st.fresh(allow)
            from stix2 import MemorySink, MemorySource, MemoryStore
            bj = {"type": "bundle", "id": "bundle--" + V4 + "8", "objects": [copy.deepcopy(j)]}
            if version == "2.0":
                bj["spec_version"] = "2.0"
            bfile = os.path.join(st.dir, "bundle.json")
            with open(bfile, "w") as f:
                json.dump(bj, f)
            for sname, add in (("MemoryStore.add", lambda: mem.add(copy.deepcopy(j))), ("FileSystemSink.add(dict)", lambda: sink.add(copy.deepcopy(j))),
                               ("FileSystemSink.add(text)", lambda: sink.add(json.dumps(j))),
                               # the same content arriving in other documented forms
                               ("MemoryStore.add(list)", lambda: mem.add([copy.deepcopy(j)])), ("MemoryStore.add(bundle-dict)", lambda: mem.add(copy.deepcopy(bj))),
                               ("MemoryStore.add([bundle-dict])", lambda: mem.add([copy.deepcopy(bj)])), ("MemoryStore(stix_data=dict)", lambda: MemoryStore(copy.deepcopy(j), allow_custom=allow)),
                               ("MemoryStore(stix_data=bundle-dict)", lambda: MemoryStore(copy.deepcopy(bj), allow_custom=allow)),
                               ("MemorySource(stix_data=bundle-dict)", lambda: MemorySource(copy.deepcopy(bj), allow_custom=allow)),
                               ("MemorySink(stix_data=[dict])", lambda: MemorySink([copy.deepcopy(j)], allow_custom=allow)),
                               ("MemoryStore.load_from_file(bundle)", lambda: MemoryStore(allow_custom=allow).load_from_file(bfile)),
                               ("MemorySource.load_from_file(bundle)", lambda: MemorySource(allow_custom=allow).load_from_file(bfile)),
                               ("FileSystemSink.add(bundle-dict)", lambda: sink.add(copy.deepcopy(bj))), ("FileSystemSink.add(bundle-text)", lambda: sink.add(json.dumps(bj))),
                               ("FileSystemSink.add(list)", lambda: sink.add([copy.deepcopy(j)]))):
                part.evaluations += 1
                part.transitions += 1
                c = dict(case, entry=sname, allow_custom=allow)
                try:
                    add()
                    err = None
                except Exception as e:
                    err = e
                if not allow and n_injections and inj in MUST_REFUSE:
                    part.outcome("strict-store:refused" if err is not None else "strict-store:ACCEPTED")
                    if err is None:
                        part.violation("C04/strict-store-accepts/%s/%s" % (feat, sname), "a strict store admits custom content given as dict/text/bundle/file", c, "refused", "stored")
                else:
                    part.outcome("store:" + ("ok" if err is None else "refused"))
                if err is None and sname.startswith("FileSystemSink"):
                    shutil.rmtree(os.path.join(st.dir, "s"), ignore_errors=True)
                    os.makedirs(os.path.join(st.dir, "s"))


def prebuilt(part, base, version, tkey, case):
    """a sub-object built permissively WITH custom content, then handed as an instance to a strict / permissive parent"""
    import stix2
    mod = stix2.v20 if version == "2.0" else stix2.v21
    pcls = stix2.registry.class_for_type(base.get("type"), version)
    if pcls is None:
        return
    errs = harness.lib_errors()
    for path, v, p, ckey, pname in harness.typed_slots(base, version, tkey):
        targets = []
        if p["kind"] == "embedded" and isinstance(v, dict):
            targets.append((path, getattr(mod, p["class"].split(":")[1], None), v, "embedded-object"))
        if p["kind"] == "extensions" and isinstance(v, dict):
            for ek, ev in v.items():
                targets.append((path + (ek,), stix2.registry.class_for_type(ek, version, "extensions"), ev, "registered-extension"))
        for tpath, cls, val, where in targets:
            if cls is None or len(tpath) > 3:
                continue
            try:
                sub = cls(allow_custom=True, **dict(copy.deepcopy(val), x_foo="bar"))
            except Exception:
                continue
            j = gen.set_path(base, tpath, sub)
            for allow in (False, True):
                part.evaluations += 1
                part.transitions += 1
                c = dict(case, site=list(tpath), injection="prebuilt-instance-with-x-property", entry="constructor(prebuilt sub-object)", allow_custom=allow)
                try:
                    obj = pcls(allow_custom=allow, **j)
                    err = None
                except errs as e:
                    obj, err = None, e
                if not allow:
                    part.outcome("strict:refused" if err is not None else "strict:ACCEPTED")
                    if err is None:
                        part.violation("C04/strict-accepts/prebuilt-instance/%s" % where, "a strict constructor accepts a sub-object instance that carries custom content", c, "refused", "object")
                elif err is None:
                    try:
                        stix2.parse(obj.serialize(), allow_custom=False)
                        strict_ok = True
                    except errs:
                        strict_ok = False
                    part.outcome("permissive:flag=%s,strict_reparse=%s" % (obj.has_custom, strict_ok))
                    if bool(obj.has_custom) != (not strict_ok):
                        part.violation("C04/flag-vs-strict-reparse/%s/prebuilt-instance/%s" % ("flag-missing" if not obj.has_custom else "flag-spurious", where),
                                       "has_custom disagrees with whether a strict parse of the serialization is refused", c, {"has_custom": not strict_ok},
                                       {"has_custom": bool(obj.has_custom), "strict_reparse_accepted": strict_ok})
                    # copying must not lose the flag
                    cp = copy.deepcopy(obj)
                    if bool(cp.has_custom) != bool(obj.has_custom):
                        part.violation("C04/deepcopy-loses-flag/%s" % where, "a deep copy of a flagged object is not flagged", c, bool(obj.has_custom), bool(cp.has_custom))


def unregistered_bases(version):
    TS = "2016-05-12T08:17:27.000Z"
    b = {"type": "x-unreg", "id": "x-unreg--" + V4 + "6", "created": TS, "modified": TS, "name": "n"}
    if version == "2.1":
        b["spec_version"] = "2.1"
    out = [("unregistered-type", b)]
    if version == "2.1":
        e = "extension-definition--" + V4 + "7"
        out.append(("unregistered-type+extdef-property-extension", dict(b, extensions={e: {"extension_type": "property-extension", "rank": 1}})))
        out.append(("unregistered-type+extdef-toplevel-extension", dict(b, extensions={e: {"extension_type": "toplevel-property-extension"}})))
        out.append(("unregistered-type+extdef-new-sdo", dict(b, extensions={e: {"extension_type": "new-sdo"}})))
    return out


EXT_A, EXT_B = "extension-definition--" + V4[:-2] + "ca1", "extension-definition--" + V4[:-2] + "ca2"


def registered_toplevel_bases():
    """objects that carry REGISTERED toplevel-property extensions: their properties are specification content of the object, anything beyond them is custom.
    (injection label or None, json)"""
    import stix2
    from stix2 import properties as P
    R = stix2.registry.STIX2_OBJ_MAPS["2.1"]["extensions"]
    if EXT_A not in R:
        @stix2.v21.CustomExtension(EXT_A, [("tl_rank", P.IntegerProperty(required=True))])
        class ExtA(object):
            extension_type = "toplevel-property-extension"
    if EXT_B not in R:
        @stix2.v21.CustomExtension(EXT_B, [("tl_note", P.StringProperty()), ("tl_flag", P.BooleanProperty())])
        class ExtB(object):
            extension_type = "toplevel-property-extension"
    EXT_C = "extension-definition--" + V4[:-2] + "ca4"
    if EXT_C not in R:
        # a registered toplevel extension whose OWN properties are of kinds that can carry custom content (hashes, references, embedded objects)
        from stix2.v21.vocab import HASHING_ALGORITHM
        @stix2.v21.CustomExtension(EXT_C, [("tl_hashes", P.HashesProperty(HASHING_ALGORITHM, spec_version="2.1")), ("tl_ref", P.ReferenceProperty(invalid_types=[], spec_version="2.1")),
                                           ("tl_erefs", P.ListProperty(stix2.v21.ExternalReference))])
        class ExtC(object):
            extension_type = "toplevel-property-extension"
    g = gen.Gen("2.1")
    tl = {"extension_type": "toplevel-property-extension"}
    out = []
    bi = g.minimal("objects:identity")
    MD5 = "d41d8cd98f00b204e9800998ecf8427e"
    out.append((None, "own-kinds/plain", dict(bi, tl_hashes={"MD5": MD5}, tl_ref="identity--" + V4 + "a", tl_erefs=[{"source_name": "s", "url": "http://u"}], extensions={EXT_C: dict(tl)})))
    out.append(("unknown-hash", "own-kinds/unknown-hash-in-own-property", dict(bi, tl_hashes={"FOO-HASH": "aa"}, extensions={EXT_C: dict(tl)})))
    out.append(("unknown-hash-first", "own-kinds/unknown-hash-then-spec-hash", dict(bi, tl_hashes={"FOO-HASH": "aa", "MD5": MD5}, extensions={EXT_C: dict(tl)})))
    out.append(("ref-to-unregistered-type", "own-kinds/ref-to-unregistered-type-in-own-property", dict(bi, tl_ref="x-nowhere--" + V4 + "a", extensions={EXT_C: dict(tl)})))
    out.append(("x-property", "own-kinds/x-property-in-embedded-object-of-own-property", dict(bi, tl_erefs=[{"source_name": "s", "url": "http://u", "x_foo": 1}], extensions={EXT_C: dict(tl)})))
    out.append(("x-property", "own-kinds/custom-own-property-next-to-plain-one", dict(bi, tl_hashes={"MD5": MD5}, tl_erefs=[{"source_name": "s", "x_foo": 1, "url": "http://u"}], tl_ref="identity--" + V4 + "a",
                                                                                      extensions={EXT_C: dict(tl)})))
    for key in ("objects:identity", "observables:file", "objects:relationship"):
        b = g.minimal(key)
        if key.startswith("observables"):
            b = dict(b, spec_version="2.1", id="file--" + V4 + "d")
        A = dict(b, tl_rank=3, extensions={EXT_A: dict(tl)})
        out.append((None, "one", A))
        out.append((None, "two/a-first", dict(b, tl_rank=3, tl_note="n", tl_flag=False, extensions={EXT_A: dict(tl), EXT_B: dict(tl)})))
        out.append((None, "two/b-first", dict(b, tl_rank=3, tl_note="n", extensions={EXT_B: dict(tl), EXT_A: dict(tl)})))
        out.append((None, "two/next-to-predefined-extension", dict(g.minimal("observables:file"), spec_version="2.1", id="file--" + V4 + "d", tl_rank=3, tl_note="n",
                                                                   extensions={EXT_A: dict(tl), "archive-ext": {"contains_refs": ["file--" + V4 + "e"]}, EXT_B: dict(tl)})))
        out.append(("x-property", "two+x-property", dict(b, tl_rank=3, tl_note="n", x_foo="bar", extensions={EXT_A: dict(tl), EXT_B: dict(tl)})))
        out.append(("unknown-property", "two+unknown-property/b-first", dict(b, tl_rank=3, tl_note="n", foo_unknown=1, extensions={EXT_B: dict(tl), EXT_A: dict(tl)})))
        out.append(("unknown-property", "one+property-of-the-absent-other", dict(b, tl_rank=3, tl_note="n", extensions={EXT_A: dict(tl)})))
        out.append(("unknown-property", "property-without-its-extension", dict(b, tl_note="n")))
    return out


def register_custom_types():
    import stix2
    from stix2 import properties as P
    for ver, mod in (("2.0", stix2.v20), ("2.1", stix2.v21)):
        R = stix2.registry.STIX2_OBJ_MAPS[ver]
        if "x-verif-c04-obj" not in R["objects"]:
            @mod.CustomObject("x-verif-c04-obj", [("name", P.StringProperty())])
            class XObj(object):
                pass
        if "x-verif-c04-sco" not in R["observables"]:
            @mod.CustomObservable("x-verif-c04-sco", [("value", P.StringProperty())])
            class XSco(object):
                pass


EXT_LATE = "extension-definition--" + V4[:-2] + "ca3"


def late_registration(part):
    """HISTORY: an extension is used while it is still unregistered (every extra property is then assumed to be its own), registered afterwards, and used again:
    from the registration on, only the properties it defines are its own"""
    import stix2
    from stix2 import properties as P
    g = gen.Gen("2.1")
    tl = {"extension_type": "toplevel-property-extension"}
    b = g.minimal("objects:identity")
    if EXT_LATE not in stix2.registry.STIX2_OBJ_MAPS["2.1"]["extensions"]:
        for fn in (lambda: stix2.parse(dict(b, tl_late=1, anything_else=2, extensions={EXT_LATE: dict(tl)}), allow_custom=False),
                   lambda: stix2.v21.Identity(allow_custom=True, **dict(b, tl_late=1, extensions={EXT_LATE: dict(tl)}))):
            try:
                fn()
                part.outcome("late-registration:used-before")
            except Exception:
                part.outcome("late-registration:refused-before")

        @stix2.v21.CustomExtension(EXT_LATE, [("tl_late", P.IntegerProperty())])
        class ExtLate(object):
            extension_type = "toplevel-property-extension"
    for inj, label, j in ((None, "late/own-property", dict(b, tl_late=3, extensions={EXT_LATE: dict(tl)})),
                          ("x-property", "late/own-property+x-property", dict(b, tl_late=3, x_bogus=1, extensions={EXT_LATE: dict(tl)})),
                          ("unknown-property", "late/unknown-property", dict(b, anything_else=2, extensions={EXT_LATE: dict(tl)}))):
        part.state(("registered-toplevel", "identity", label), nontrivial=True)
        c = {"kind": "registered-toplevel", "label": label, "type": "identity", "injection": inj}
        judge(part, j, "2.1", inj, c, "registered-toplevel-extensions/" + label, 1 if inj else 0, stores=True)


def run_legacy_layout(case, part):
    """a STRICT file-system source over a directory that also holds files in the older flat layout (<type>/<id>.json, as written by earlier releases and other tools):
    custom content in such a file is treated exactly like the same content in the current layout - never returned by a strict source"""
    from stix2 import FileSystemSource, Filter
    TS = "2016-05-12T08:17:27.000Z"
    mk = lambda i, **kw: dict({"type": "identity", "spec_version": "2.1", "id": "identity--" + V4 + "%x" % i, "created": TS, "modified": TS, "name": "n%d" % i}, **kw)
    plain_cur, custom_cur, custom_flat, plain_flat = mk(1), mk(2, x_foo="bar"), mk(3, x_foo="bar"), mk(4)
    d = env.scratch_dir("c04l")
    try:
        def write(obj, flat, tdir="identity"):
            base = os.path.join(d, tdir)
            if flat:
                os.makedirs(base, exist_ok=True)
                path = os.path.join(base, obj["id"] + ".json")
            else:
                os.makedirs(os.path.join(base, obj["id"]), exist_ok=True)
                path = os.path.join(base, obj["id"], "20160512081727000.json")
            with open(path, "w") as f:
                json.dump(obj, f)
        write(plain_cur, False)
        write(custom_cur, False)
        write(custom_flat, True)
        write(plain_flat, True)
        # a type directory that holds flat files only
        tool = {"type": "tool", "spec_version": "2.1", "id": "tool--" + V4 + "1", "created": TS, "modified": TS, "name": "t", "x_foo": "bar"}
        write(tool, True, "tool")
        from stix2 import FileSystemStore
        # every documented way to obtain a reading end over the directory x the allow_custom answer it was given; a store built with an explicit answer applies it to BOTH ends,
        # a store built without one reads permissively and writes strictly (class docstring)
        readers = [("FileSystemSource", False, lambda: FileSystemSource(d, allow_custom=False)), ("FileSystemSource", True, lambda: FileSystemSource(d, allow_custom=True)),
                   ("FileSystemSource(default)", True, lambda: FileSystemSource(d)),
                   ("FileSystemStore(allow_custom=False)", False, lambda: FileSystemStore(d, allow_custom=False)), ("FileSystemStore(allow_custom=True)", True, lambda: FileSystemStore(d, allow_custom=True)),
                   ("FileSystemStore(d, False)", False, lambda: FileSystemStore(d, False)), ("FileSystemStore(d, True)", True, lambda: FileSystemStore(d, True)),
                   ("FileSystemStore(default)", True, lambda: FileSystemStore(d)), ("FileSystemStore(allow_custom=None)", True, lambda: FileSystemStore(d, allow_custom=None)),
                   ("FileSystemStore(allow_custom=False, bundlify=True)", False, lambda: FileSystemStore(d, allow_custom=False, bundlify=True)),
                   ("FileSystemStore(allow_custom=False).source", False, lambda: FileSystemStore(d, allow_custom=False).source)]
        for rname, allow, mkreader in readers:
            src = mkreader()
            verdict = {}
            for oname, o in (("custom/current-layout", custom_cur), ("custom/flat-file-next-to-id-directories", custom_flat), ("custom/flat-file-only-directory", tool), ("plain/flat-file", plain_flat)):
                for mname, fn in (("get", lambda o=o: src.get(o["id"])), ("all_versions", lambda o=o: src.all_versions(o["id"])),
                                  ("query(id)", lambda o=o: src.query([Filter("id", "=", o["id"])])), ("query(type)", lambda o=o: [x for x in src.query([Filter("type", "=", o["type"])]) if x["id"] == o["id"]]),
                                  ("query()", lambda o=o: [x for x in src.query([]) if x["id"] == o["id"]])):
                    part.evaluations += 1
                    part.transitions += 1
                    try:
                        r = fn()
                        verdict[(oname, mname)] = "returned" if r else "nothing"
                    except Exception as e:
                        verdict[(oname, mname)] = "refused"
            part.state(("legacy-layout", rname, allow, tuple(sorted(verdict.items()))), nontrivial=True)
            for (oname, mname), v in sorted(verdict.items()):
                c = {"kind": "legacy-layout", "allow_custom": allow, "object": oname, "entry": rname + "." + mname}
                if oname.startswith("custom/") and not allow and v == "returned":
                    part.outcome("legacy:strict-RETURNED-custom")
                    part.violation("C04/strict-store-returns/%s%s" % (oname, "" if rname == "FileSystemSource" else "/via-" + rname.split("(")[0]), "a strict file-system source returns custom content", c, verdict[("custom/current-layout", mname)] + " (as for the current layout)", v)
                elif oname.startswith("custom/") and allow and v != "returned":
                    part.violation("C04/permissive-store-hides/%s" % oname, "a permissive file-system source does not return stored custom content", c, "returned", v)
                elif oname.startswith("plain/") and v != "returned" and mname not in ("query(type)", "query()") :
                    part.violation("C04/strict-store-hides-plain/%s" % oname, "a file-system source does not return plain content", c, "returned", v)
                else:
                    part.outcome("legacy:%s" % v)
        # the writing end of every construction form: custom content is refused exactly when the form is strict
        from stix2 import FileSystemSink
        d2 = os.path.join(d, "w")
        os.makedirs(d2)
        writers = [("FileSystemSink", False, lambda: FileSystemSink(d2, allow_custom=False)), ("FileSystemSink", True, lambda: FileSystemSink(d2, allow_custom=True)),
                   ("FileSystemSink(default)", False, lambda: FileSystemSink(d2)),
                   ("FileSystemStore(allow_custom=False)", False, lambda: FileSystemStore(d2, allow_custom=False)), ("FileSystemStore(allow_custom=True)", True, lambda: FileSystemStore(d2, allow_custom=True)),
                   ("FileSystemStore(default)", False, lambda: FileSystemStore(d2)), ("FileSystemStore(allow_custom=None)", False, lambda: FileSystemStore(d2, allow_custom=None)),
                   ("FileSystemStore(allow_custom=True).sink", True, lambda: FileSystemStore(d2, allow_custom=True).sink), ("FileSystemStore(allow_custom=False).sink", False, lambda: FileSystemStore(d2, allow_custom=False).sink)]
        n = 16
        for wname, allow, mk_w in writers:
            for form in ("dict", "text", "list", "bundle-dict"):
                for oname, content in (("custom", {"x_foo": "bar"}), ("plain", {})):
                    n += 1
                    o = dict(mk(0, **content), id="identity--" + V4[:-2] + "%03x" % n, name="w%d" % n)
                    arg = {"dict": o, "text": json.dumps(o), "list": [o], "bundle-dict": {"type": "bundle", "id": "bundle--" + V4[:-2] + "%03x" % n, "objects": [o]}}[form]
                    part.evaluations += 1
                    part.transitions += 1
                    try:
                        mk_w().add(arg)
                        v = "stored"
                    except Exception as e:
                        v = "refused"
                    on_disk = os.path.isdir(os.path.join(d2, "identity", o["id"]))
                    part.state(("legacy-writer", wname, allow, form, oname, v, on_disk), nontrivial=True)
                    c = {"kind": "legacy-layout", "allow_custom": allow, "object": oname, "entry": wname + ".add(" + form + ")"}
                    if oname == "custom" and not allow and (v == "stored" or on_disk):
                        part.violation("C04/strict-store-accepts/%s" % wname.split("(")[0], "a strict file-system writing end stores custom content", c, "refused, nothing written", v + (", written" if on_disk else ""))
                    elif (oname == "plain" or allow) and not (v == "stored" and on_disk):
                        part.violation("C04/store-refuses-admissible/%s/%s" % (wname.split("(")[0], oname), "a file-system writing end refuses content it must admit", c, "stored", v)
                    else:
                        part.outcome("legacy-writer:%s" % v)
    finally:
        shutil.rmtree(d, ignore_errors=True)


def run_case(case, part):
    env.reset()
    register_custom_types()
    if case.get("kind") == "legacy-layout":
        return run_legacy_layout(case, part)
    if case.get("kind") == "registered-toplevel":
        if case.get("label") is None or str(case.get("label")).startswith("late/"):
            late_registration(part)
            if case.get("label") is not None:
                return
        for inj, label, j in registered_toplevel_bases():
            if case.get("label") not in (None, label) or case.get("type") not in (None, j["type"]):
                continue
            part.state(("registered-toplevel", j["type"], label), nontrivial=True)
            c = {"kind": "registered-toplevel", "label": label, "type": j["type"], "injection": inj}
            judge(part, j, "2.1", inj, c, "registered-toplevel-extensions/" + label, 1 if inj else 0, stores=True)
            b = {"type": "bundle", "id": "bundle--" + V4 + "9", "objects": [j]}
            judge(part, b, "2.1", inj, dict(c, nested_in="bundle"), "registered-toplevel-extensions/" + label + "/in-bundle", 1 if inj else 0, stores=False)
        return
    if case.get("kind") == "unregistered":
        for inj, j in unregistered_bases(case["version"]):
            part.state((case["version"], inj), nontrivial=True)
            judge(part, j, case["version"], inj, dict(case, injection=inj), inj, 1, stores=True)
            b = {"type": "bundle", "id": "bundle--" + V4 + "9", "objects": [j]}
            if case["version"] == "2.0":
                b["spec_version"] = "2.0"
            judge(part, b, case["version"], inj, dict(case, injection=inj, nested_in="bundle"), inj + "/in-bundle", 1, stores=False)
        return
    version, key, label = case["version"], case["key"], case["label"]
    wrapped = None
    for k2, l2, i2, w2, loc2 in harness.all_cases(version, keys=[key]):
        if l2 == label:
            wrapped = w2
            break
    if wrapped is None:
        raise RuntimeError("generator no longer produces %s %s %s" % (version, key, label))
    tkey = model.spec(version).key_for_type(wrapped["type"])
    part.state((version, key, label), nontrivial=True)
    judge(part, wrapped, version, None, dict(case, injection=None), "none", 0, stores=label == "min")
    ss = sites(wrapped, version, tkey)
    for where, path, inj, f in ss:
        if case.get("injection") and (inj != case["injection"] or list(path) != case.get("site")):
            continue
        j = f(copy.deepcopy(wrapped))
        feat = "%s/%s" % (inj, where)
        c = dict(case, site=list(path), injection=inj)
        judge(part, j, version, inj, c, feat, 1, stores=label == "min" and where == "top-level")
        if wrapped["type"] != "bundle" and (where in ("top-level", "hashes", "extensions") or label == "min"):
            # the same site one level further down: inside a bundle (and, thorough, a bundle inside ... is not valid STIX; depth = 2)
            b = {"type": "bundle", "id": "bundle--" + V4 + "9", "objects": [j]}
            if version == "2.0":
                b["spec_version"] = "2.0"
            judge(part, b, version, inj, dict(c, nested_in="bundle"), feat + "/in-bundle", 1, stores=False)
    if not case.get("injection"):
        prebuilt(part, wrapped, version, tkey, case)
    if case.get("pairs"):
        for (w1, p1, i1, f1), (w2_, p2, i2_, f2) in itertools.combinations(ss, 2):
            if p1 == p2 and i1.split("-")[0] == i2_.split("-")[0]:
                continue
            try:
                j = f2(f1(copy.deepcopy(wrapped)))
            except (KeyError, IndexError, TypeError):
                continue
            inj = i1 if i1 in MUST_REFUSE else i2_
            toplevel_extras = {"x-property", "unknown-property", "custom_properties-in-json", "x-property-next-to-unregistered-property-extension", "x-property-next-to-unregistered-new-sdo",
                               "x-property-next-to-unregistered-x-toplevel-property-extension"}
            if "extdef-toplevel-extension" in (i1, i2_) and {i1, i2_} & toplevel_extras and () in (p1, p2):
                # an unregistered toplevel-property-extension on the same object: the library must assume every extra top-level property belongs to it
                # (base.py, "Must assume all extras are extension properties, not custom"), so the pair is judged by the equivalence clause only
                inj = None
            judge(part, j, version, inj, dict(case, site=[list(p1), list(p2)], injection=[i1, i2_]), "pair:%s+%s" % (i1, i2_), 2, stores=False)


def replay(case, part):
    c = {k: v for k, v in case.items() if k not in ("entry", "allow_custom", "nested_in")}
    if c.get("kind") == "unregistered":
        return run_case({"kind": "unregistered", "version": c["version"]}, part)
    if c.get("kind") == "registered-toplevel":
        return run_case({"kind": "registered-toplevel", "label": c.get("label"), "type": c.get("type")}, part)
    if c.get("kind") == "legacy-layout":
        return run_case({"kind": "legacy-layout"}, part)
    if isinstance(c.get("injection"), list):
        c = {k: v for k, v in c.items() if k not in ("site", "injection")}
        c["pairs"] = True
    if str(c.get("injection")).startswith("prebuilt") or c.get("injection") is None:
        c.pop("site", None)
        c.pop("injection", None)
    run_case(c, part)


def run(run):
    th = run.thorough
    cases = []
    for version in ("2.0", "2.1"):
        g = gen.Gen(version)
        for key in g.top_keys():
            cases.append({"version": version, "key": key, "label": "min", "pairs": th})
            cases.append({"version": version, "key": key, "label": "max"})
    cases += [{"kind": "unregistered", "version": "2.0"}, {"kind": "unregistered", "version": "2.1"}, {"kind": "registered-toplevel"}, {"kind": "legacy-layout"}]
    run.mode = "DEV"
    run.rule = ("every (type, minimal|maximal base) x every injection site x injection kind x allow_custom x entry form, each also nested in a bundle%s; plus permissively pre-built sub-object "
                "instances handed to strict and permissive parents; states = distinct bases; non-trivial = every injected case" % ("; all pairs of injections on minimal bases" if th else ""))
    run.bound = {"injections": 2 if th else 1, "bases": len(cases), "injection_kinds": 11, "entries": 7}
    run.assumptions += ["bases and site enumeration from the frozen spec model",
                        "kinds the specification makes custom must be refused in strict mode; extension-definition flavours are judged only through flag <=> strict re-parse"]
    run.pmap(run_case, cases, order_independent=True)
    run.part.sample({"version": "2.1", "key": "observables:file", "label": "max", "site": ["extensions", "windows-pebinary-ext", "sections", 0, "hashes"], "injection": "non-vocabulary-hash", "allow_custom": True,
                     "expect": "has_custom true and strict re-parse refused"})
    run.part.sample({"version": "2.0", "key": "observables:email-message", "label": "max", "site": ["objects", "0", "body_multipart", 0], "injection": "x-property", "allow_custom": False, "expect": "refused"})
    o = run.part.outcomes
    run.require(o.get("strict:refused", 0) > 5000, "strict refusals observed")
    run.require(o.get("permissive:flag=True,strict_reparse=False", 0) > 5000 and o.get("permissive:flag=False,strict_reparse=True", 0) > 100, "both sides of the equivalence observed")
