"""C06 - STIX 2.1 observable identifiers are deterministic and specification-exact.

DEV-mode enumeration over all 18 SCO types of STIX 2.1 (+ harness-registered custom observables): every generated valid instance
(frozen spec model: every property x value alphabet, extensions with floats / nested lists / embedded objects), all subsets of the
contributing properties, hash dictionaries in every subset x insertion order x alias spelling, timestamps in all spellings; each built
through class constructor (several keyword orders), parse(dict), parse(text), as a member of an observed-data container and by re-parsing
the own serialization with the id removed.
Oracle: id == type + '--' + uuid5(STIX namespace, independent RFC 8785 of exactly the contributing properties of the SERIALIZED object,
one hash chosen MD5 > SHA-1 > SHA-256 > SHA-512 > first); UUIDv4 (fresh per construction) when none is present; equal contributing
values <=> equal ids over the whole enumerated set.
"""
import copy
import itertools
import json
import uuid

from mc import env
from mc.ref import jcs
from mc.spec import gen, harness, model

ID = "C06"
NS = uuid.UUID("00abedb4-aa42-466c-9c01-fed23315a9b7")
PRECEDENCE = ["MD5", "SHA-1", "SHA-256", "SHA-512"]
ALIASES = {"MD5": ["md5", "Md5"], "SHA-1": ["sha1", "SHA1", "sha-1"], "SHA-256": ["sha256", "SHA256", "sha-256"], "SHA-512": ["sha512", "sha-512"], "SHA3-256": ["sha3-256", "SHA3256"],
           "SSDEEP": ["ssdeep"]}


def register_custom():
    import stix2
    from stix2 import properties as P
    R = stix2.registry.STIX2_OBJ_MAPS
    if "x-verif-idsco" not in R["2.1"]["observables"]:
        @stix2.v21.CustomObservable("x-verif-idsco", [("alpha", P.StringProperty()), ("num", P.FloatProperty()), ("count", P.IntegerProperty()), ("when", P.TimestampProperty()),
                                                       ("flags", P.ListProperty(P.StringProperty)), ("meta", P.DictionaryProperty(spec_version="2.1")), ("other", P.StringProperty()), ("flag", P.BooleanProperty())],
                                    ["alpha", "num", "count", "when", "flags", "meta", "flag"])
        class A(object):
            pass
    if "x-verif-idext" not in R["2.1"]["observables"]:
        @stix2.v21.CustomObservable("x-verif-idext", [("alpha", P.StringProperty()), ("count", P.IntegerProperty()), ("other", P.StringProperty())], ["alpha", "count"],
                                    extension_name="extension-definition--3f7f0c5f-5d54-4292-94ea-ec1e1952c0c1")
        class A2(object):
            pass
    if "x-verif-noid" not in R["2.1"]["observables"]:
        @stix2.v21.CustomObservable("x-verif-noid", [("alpha", P.StringProperty(required=True))])
        class B(object):
            pass
    sp = model.spec("2.1")
    if "observables:x-verif-idsco" not in sp.classes:
        f = sp.classes["observables:file"]["properties"]
        base = {n: f[n] for n in ("spec_version", "id", "object_marking_refs", "granular_markings", "defanged", "extensions")}
        sp.classes["observables:x-verif-idsco"] = {"name": "A", "category": "observables", "type": "x-verif-idsco", "order": [], "id_contributing": ["alpha", "num", "count", "when", "flags", "meta", "flag"],
                                                   "properties": dict(base, type={"kind": "type", "fixed": "x-verif-idsco"}, alpha={"kind": "string"}, num={"kind": "float"}, count={"kind": "integer"}, flag={"kind": "boolean"},
                                                                      when={"kind": "timestamp", "fraction": "any"}, flags={"kind": "list", "of": {"kind": "string"}}, meta={"kind": "dictionary"},
                                                                      other={"kind": "string"})}
        sp.classes["observables:x-verif-idext"] = {"name": "A2", "category": "observables", "type": "x-verif-idext", "order": [], "id_contributing": ["alpha", "count"],
                                                   "properties": dict(base, type={"kind": "type", "fixed": "x-verif-idext"}, alpha={"kind": "string"}, count={"kind": "integer"}, other={"kind": "string"})}
        sp.classes["observables:x-verif-noid"] = {"name": "B", "category": "observables", "type": "x-verif-noid", "order": [], "id_contributing": [],
                                                  "properties": dict(base, type={"kind": "type", "fixed": "x-verif-noid"}, alpha={"kind": "string", "required": True})}


def expected_id(ser, contributing):
    """independent recomputation from the SERIALIZED object"""
    contrib = {}
    for k in contributing:
        if k in ser:
            v = ser[k]
            if k == "hashes" and isinstance(v, dict) and v:
                for alg in PRECEDENCE:
                    if alg in v:
                        v = {alg: v[alg]}
                        break
                else:
                    first = next(iter(v))
                    v = {first: v[first]}
            contrib[k] = v
    if not contrib:
        return None, None
    canon = jcs.jcs(contrib)
    return "%s--%s" % (ser["type"], uuid.uuid5(NS, canon)), canon


def builds(j, version="2.1"):
    """(form, callable) - every way of building the same observable from the same content (no id)"""
    import stix2
    cls = stix2.registry.class_for_type(j["type"], "2.1", "observables")
    kw = {k: v for k, v in j.items() if k not in ("type",)}
    out = [("constructor", lambda: cls(**copy.deepcopy(kw))),
           ("constructor(reversed kwargs)", lambda: cls(**dict(reversed(list(copy.deepcopy(kw).items()))))),
           ("constructor(sorted kwargs, nested dicts reversed)", lambda: cls(**rev_nested(dict(sorted(copy.deepcopy(kw).items()))))),
           ("parse(dict)", lambda: stix2.parse(copy.deepcopy(j), allow_custom=False)),
           ("parse(text)", lambda: stix2.parse(json.dumps(j), allow_custom=False)),
           ("parse(text, sorted keys)", lambda: stix2.parse(json.dumps(j, sort_keys=not order_sensitive(j)), allow_custom=False)),
           ("parse_observable", lambda: stix2.parse_observable(copy.deepcopy(j), version="2.1")),
           # "no explicit id" spelled as an id that is null / None (how an absent property is written everywhere else in the library)
           ("constructor(id=None)", lambda: cls(id=None, **copy.deepcopy(kw))),
           ("parse(text with id null)", lambda: stix2.parse(json.dumps(dict(j, id=None)), allow_custom=False))]
    g = gen.Gen("2.1")
    od = g.minimal("objects:observed-data")
    od.pop("object_refs", None)

    def in_container():
        d = copy.deepcopy(od)
        d["objects"] = {"0": copy.deepcopy(j)}
        return stix2.parse(d, allow_custom=False).objects["0"]
    out.append(("in-observed-data", in_container))
    return out


def order_sensitive(x):
    """does the content hold a hashes dictionary without any preferred algorithm (whose 'first' entry is order-dependent by definition)?"""
    if isinstance(x, dict):
        h = x.get("hashes")
        if isinstance(h, dict) and len(h) > 1 and not any(k in PRECEDENCE for k in h):
            return True
        return any(order_sensitive(v) for v in x.values())
    if isinstance(x, list):
        return any(order_sensitive(v) for v in x)
    return False


def rev_nested(x):
    if isinstance(x, dict):
        if x and all(k.upper().replace("SHA", "SHA-").replace("--", "-") not in PRECEDENCE and k.upper() not in PRECEDENCE for k in x) and all(isinstance(v, str) for v in x.values()) \
                and any(k.upper().startswith(("SHA3", "SSDEEP", "TLSH")) for k in x):
            # a hashes dictionary without any of the four preferred algorithms: "else first" is order-dependent by definition, so the
            # order of such a dictionary is part of its value (not permuted)
            return dict(x)
        return {k: rev_nested(v) for k, v in reversed(list(x.items()))}
    if isinstance(x, list):
        return [rev_nested(v) for v in x]
    return x


def check_instance(part, j, key, case, feat, collect):
    """j: SCO content WITHOUT id"""
    import stix2
    sp = model.spec("2.1")
    contributing = sp.classes[key]["id_contributing"]
    ids = {}
    first_ser = None
    for form, build in builds(j):
        part.evaluations += 1
        part.transitions += 1
        c = dict(case, form=form)
        try:
            obj = build()
        except harness.lib_errors() as e:
            part.outcome("refused")
            if form == "constructor":
                # not constructible: C03's business - unless the same content WITH an identifier is accepted, i.e. it is the id generation that fails
                try:
                    stix2.parse(dict(j, id="%s--3f7f0c5f-5d54-4292-94ea-ec1e1952be01" % j["type"], spec_version="2.1"), allow_custom=False)
                except Exception:
                    return
                part.outcome("id-generation-refused")
                part.violation("C06/id-generation-refuses-valid-content", "content that is accepted with an explicit identifier is refused when the identifier has to be generated", c,
                               "an object with a generated id", "%s: %s" % (type(e).__name__, str(e)[:120]))
                return
            part.violation("C06/form-refused/%s" % form.split("(")[0], "content accepted by the constructor is refused by another entry form", c, "accepted", "%s: %s" % (type(e).__name__, str(e)[:120]))
            continue
        ser = json.loads(obj.serialize())
        if first_ser is None:
            first_ser = ser
        exp, canon = expected_id(ser, contributing)
        got = ser.get("id")
        ids[form] = got
        if exp is None:
            part.outcome("uuid4")
            ok = isinstance(got, str) and got.startswith(ser["type"] + "--")
            try:
                u = uuid.UUID(got.split("--", 1)[1])
                ok = ok and u.version == 4 and u.variant == uuid.RFC_4122
            except Exception:
                ok = False
            if not ok:
                part.violation("C06/not-uuid4-without-contributing-properties", "no contributing property is present, yet the id is not a UUIDv4", c, "%s--<uuid4>" % ser["type"], got)
            continue
        part.outcome("uuid5")
        if got != exp:
            part.violation("C06/id-differs-from-specification/%s" % feat, "the id is not uuid5(namespace, canonical JSON of the contributing properties)", dict(c, canonical=canon[:200]), exp, got)
        collect.append((canon, got))
        part.state((ser["type"], canon), nontrivial=True)
        # round trip: own serialization with the id removed must regenerate the same id
        if form == "constructor":
            part.evaluations += 1
            back = stix2.parse({k: v for k, v in ser.items() if k != "id"}, allow_custom=False)
            if back.id != got:
                part.violation("C06/id-not-stable-under-reparse/%s" % feat, "re-parsing the own serialization without id yields another id", c, got, back.id)
    vals = set(ids.values())
    exp0, _ = expected_id(first_ser, contributing) if first_ser else (None, None)
    if exp0 is not None and len(vals) > 1:
        part.violation("C06/id-depends-on-entry-form-or-order/%s" % feat, "the same content gives different ids depending on entry form / argument order", case, "one id", ids)
    if exp0 is None and first_ser is not None and len(vals) != len(ids):
        part.violation("C06/uuid4-not-fresh", "two constructions without contributing properties received the same random id", case, "distinct ids", ids)
    return first_ser


def hash_variants():
    algs = ["MD5", "SHA-1", "SHA-256", "SHA-512", "SHA3-256", "SSDEEP"]
    out = []
    for n in (1, 2, 3):
        for combo in itertools.permutations(algs, n):
            out.append(("hashes:%s" % "+".join(combo), {a: gen.HASHES[a] for a in combo}))
    for a, als in ALIASES.items():
        for al in als:
            out.append(("hashes:alias:%s" % al, {al: gen.HASHES[a]}))
            out.append(("hashes:alias:%s+SHA3-256" % al, {"SHA3-256": gen.HASHES["SHA3-256"], al: gen.HASHES[a]}))
    return out


def run_uncanonicalizable(case, part):
    """contributing values that cannot be canonicalised (a lone surrogate, an integer beyond the double range): the object is refused, or - if it is taken - it gets the
    same id every time; never a silently random one while contributing properties are present"""
    import stix2
    texts = {
        "lone-surrogate-in-name": '{"type": "mutex", "spec_version": "2.1", "name": "a\\ud800b"}',
        "lone-surrogate-in-nested-key": '{"type": "file", "spec_version": "2.1", "name": "f", "extensions": {"extension-definition--3f7f0c5f-5d54-4292-94ea-ec1e1952be31": {"extension_type": "property-extension", "k\\udc00": 1}}}',
        "integer-beyond-double-range": '{"type": "file", "spec_version": "2.1", "name": "f", "extensions": {"extension-definition--3f7f0c5f-5d54-4292-94ea-ec1e1952be31": {"extension_type": "property-extension", "n": 1%s}}}' % ("0" * 400),
        "huge-port": '{"type": "network-traffic", "spec_version": "2.1", "protocols": ["tcp"], "src_port": 1, "extensions": {"extension-definition--3f7f0c5f-5d54-4292-94ea-ec1e1952be31": {"extension_type": "property-extension", "v": [1e308, 1%s]}}}' % ("0" * 330),
    }
    for label, text in texts.items():
        ids = []
        for i in range(3):
            part.evaluations += 1
            part.transitions += 1
            try:
                o = stix2.parse(text, allow_custom=False)
                ids.append(o.id)
            except harness.lib_errors():
                ids.append("refused")
            except Exception as e:
                ids.append("refused:" + type(e).__name__)
        part.state(("uncanonicalizable", label, tuple(sorted(set(ids)))))
        part.outcome("uncanonicalizable:" + ("refused" if set(ids) <= {"refused"} or all(x.startswith("refused") for x in ids) else "accepted"))
        if len(set(ids)) != 1:
            part.violation("C06/equal-contributing-values-different-ids/uncanonicalizable", "content whose contributing values cannot be canonicalised gets a different (random) id each time it is parsed", dict(case, label=label),
                           "a refusal, or one id", ids)


def run_after_history(case, part, collect):
    """Operations of OTHER features (versioning, revoking, marking, copying, storing, comparing, option-rich serialization) carried out on observables of one type, object and dict
    forms; after every one of them the identifiers of freshly created observables of that type are recomputed against the specification (state on the class / module left behind)."""
    import stix2
    from stix2 import versioning
    key = case["key"]
    g = gen.Gen("2.1")
    mn = {k: v for k, v in g.minimal(key).items() if k != "id"}
    mx = {k: v for k, v in g.maximal(key).items() if k != "id"}
    TS, TS2 = "2016-05-12T08:17:27.000Z", "2017-05-12T08:17:27.000Z"
    try:
        gid = stix2.parse(copy.deepcopy(mn), allow_custom=False).id
    except harness.lib_errors():
        return
    sp = model.spec("2.1")
    contributing = [n for n in sp.classes[key]["id_contributing"] if n in mn]
    vobj = lambda: stix2.parse(dict(copy.deepcopy(mn), created=TS, modified=TS, revoked=False), allow_custom=True)   # an observable is versionable only with all three as custom properties
    vdict = lambda: dict(copy.deepcopy(mn), id=gid, created=TS, modified=TS, revoked=False)
    def store_trip():
        from stix2 import MemoryStore
        st = MemoryStore()
        st.add(stix2.parse(copy.deepcopy(mn)))
        return st.get(gid), st.query([stix2.Filter("type", "=", mn["type"])])
    ops = [("new_version(object)", lambda: versioning.new_version(vobj(), allow_custom=True, x_note="n")),
           ("new_version(dict)", lambda: versioning.new_version(vdict(), x_note="n")),
           ("new_version(dict, modified given)", lambda: versioning.new_version(vdict(), modified=TS2)),
           ("new_version(dict, contributing property changed)", lambda: versioning.new_version(vdict(), **{(contributing or ["type"])[0]: None})),
           ("new_version(object, id changed)", lambda: versioning.new_version(vobj(), allow_custom=True, id=gid)),
           ("revoke(dict)", lambda: versioning.revoke(vdict())),
           ("revoke(object)", lambda: versioning.revoke(vobj())),
           ("object.new_version", lambda: vobj().new_version(x_note="n", allow_custom=True)),
           ("add_markings(object)", lambda: stix2.markings.add_markings(vobj(), "marking-definition--613f2e26-407d-48c7-9eca-b8e91df99dc9", None)),
           ("add_markings(dict)", lambda: stix2.markings.add_markings(vdict(), "marking-definition--613f2e26-407d-48c7-9eca-b8e91df99dc9", None)),
           ("deepcopy+compare", lambda: copy.deepcopy(stix2.parse(copy.deepcopy(mx))) == stix2.parse(copy.deepcopy(mx))),
           ("serialize-options", lambda: [stix2.parse(copy.deepcopy(mx)).serialize(pretty=pr, include_optional_defaults=io) for pr in (False, True) for io in (False, True)]),
           ("store-trip", store_trip),
           ("remove_custom_stix", lambda: versioning.remove_custom_stix(vobj())),
           ("explicit-id-construction", lambda: stix2.parse(dict(copy.deepcopy(mn), id=mn["type"] + "--3f7f0c5f-5d54-4292-94ea-ec1e1952be01"))),
           ("bundle+observed-data", lambda: stix2.v21.Bundle(stix2.parse(copy.deepcopy(mn)), stix2.parse(copy.deepcopy(mx))).serialize())]
    check_instance(part, copy.deepcopy(mn), key, dict(case, after=None), "after-history/none", collect)
    for name, op in ops:
        if case.get("op") and name != case["op"]:
            continue
        part.transitions += 1
        try:
            op()
            part.outcome("history-op:done")
        except harness.lib_errors():
            part.outcome("history-op:refused")
        part.state((key, "after-history", name), nontrivial=True)
        for label, j in (("min", mn), ("max", mx)):
            check_instance(part, copy.deepcopy(j), key, dict(case, after=name, instance=label), "after-history/" + name.split("(")[0], collect)


def run_case(case, part):
    register_custom()
    env.reset()
    key = case["key"]
    g = gen.Gen("2.1")
    sp = model.spec("2.1")
    collect = []
    contributing = sp.classes[key]["id_contributing"]
    part.state((key, case["kind"], case.get("label", "")), nontrivial=True)
    if case["kind"] == "uncanonicalizable":
        return run_uncanonicalizable(case, part)
    if case["kind"] == "after-history":
        run_after_history(case, part, collect)
        return collect
    if case["kind"] == "generated":
        for k2, l2, i2, w2, loc2 in harness.all_cases("2.1", pairs=case.get("pairs", False), keys=[key]):
            if case.get("label") and l2 != case["label"]:
                continue
            j = {k: v for k, v in i2.items() if k != "id"}
            feat = "contributing" if any(n in contributing for n in l2[4:].split("#")[0].split("+")) else "non-contributing" if l2.startswith("min+") else l2
            ser = check_instance(part, j, key, dict(case, label=l2), feat, collect)
            # a change to a NON-contributing property must not change the id (differential against the minimal instance)
            if ser is not None and l2.startswith("min+") and not l2.startswith("min+ext") and feat == "non-contributing":
                mn = {k: v for k, v in g.minimal(key).items() if k != "id"}
                same_contrib = all(mn.get(n) == j.get(n) for n in contributing)
                if same_contrib:
                    import stix2
                    base_id = stix2.parse(copy.deepcopy(mn), allow_custom=False).id
                    if expected_id(ser, contributing)[0] is not None and ser["id"] != base_id:
                        part.violation("C06/non-contributing-property-changes-id", "changing a non-contributing property changed the id", dict(case, label=l2), base_id, ser["id"])
    elif case["kind"] == "subsets":
        mx = {k: v for k, v in g.maximal(key).items() if k != "id"}
        mn = {k: v for k, v in g.minimal(key).items() if k != "id"}
        present = [n for n in contributing if n in mx]
        for r in range(len(present) + 1):
            for keep in itertools.combinations(present, r):
                j = dict(mn)
                for n in present:
                    if n in keep:
                        j[n] = mx[n]
                    elif n in j and not sp.classes[key]["properties"][n].get("required"):
                        del j[n]
                if key == "observables:network-traffic" and "end" in j:
                    j["is_active"] = False
                if key == "observables:email-message" and "body" in j:
                    j["is_multipart"] = False
                    j.pop("body_multipart", None)
                if model.validate(dict(j, id=gen.uid(j["type"], 1)), "2.1"):
                    continue
                check_instance(part, j, key, dict(case, subset=list(keep)), "subset", collect)
    elif case["kind"] == "hashes":
        mn = {k: v for k, v in g.minimal(key).items() if k != "id"}
        for label, h in hash_variants():
            if case.get("label") and label != case["label"]:
                continue
            j = dict(mn, hashes=h)
            if key == "observables:file":
                j.pop("name", None)
            check_instance(part, j, key, dict(case, label=label), "hashes-alias" if "alias" in label else "hashes", collect)
    elif case["kind"] == "extension-values":
        mn = {k: v for k, v in g.minimal(key).items() if k != "id"}
        H = gen.HASHES
        menu = []
        if key == "observables:file":
            for ent in (1.0, 0.0, 1.5e-05, 1.25e-05, 1e-05, 9.999e-05, 0.00015, 7.999999, 1e21, 5e-324):
                menu.append(("pe-section-entropy=%r" % ent, {"windows-pebinary-ext": {"pe_type": "exe", "sections": [{"name": ".text", "entropy": ent}]}}))
            for hs in (("MD5", "SHA-256"), ("SHA-256", "MD5"), ("SHA-256", "SHA-512"), ("SHA-512", "SHA-1", "SHA3-256"), ("SHA3-256", "SSDEEP")):
                hd = {a: H[a] for a in hs}
                menu.append(("pe-section-hashes=" + "+".join(hs), {"windows-pebinary-ext": {"pe_type": "exe", "sections": [{"name": ".text", "hashes": hd}]}}))
                menu.append(("pe-optional-header-hashes=" + "+".join(hs), {"windows-pebinary-ext": {"pe_type": "exe", "optional_header": {"hashes": hd}}}))
                menu.append(("pe-file-header-hashes=" + "+".join(hs), {"windows-pebinary-ext": {"pe_type": "exe", "file_header_hashes": hd}}))
                menu.append(("ntfs-ads-hashes=" + "+".join(hs), {"ntfs-ext": {"alternate_data_streams": [{"name": "s", "hashes": hd}]}}))
            menu.append(("pdf-is_optimized=true", {"pdf-ext": {"is_optimized": True, "version": "1.7"}}))
            menu.append(("pdf-is_optimized=false", {"pdf-ext": {"is_optimized": False, "version": "1.7"}}))
            menu.append(("raster-heights-1", {"raster-image-ext": {"image_height": 1, "image_width": 0}}))
        else:
            for a, b in ((True, False), (False, True), (True, True)):
                menu.append(("socket-flags=%s,%s" % (a, b), {"socket-ext": {"address_family": "AF_INET", "is_blocking": a, "is_listening": b}}))
            menu.append(("socket-options", {"socket-ext": {"address_family": "AF_INET", "options": {"SO_KEEPALIVE": 1, "SO_RCVBUF": 0}}}))
            menu.append(("icmp", {"icmp-ext": {"icmp_type_hex": "08", "icmp_code_hex": "00"}}))
            menu.append(("http-request", {"http-request-ext": {"request_method": "get", "request_value": "/", "request_header": {"B": ["1"], "A": ["2", "1"]}}}))
            menu.append(("tcp-flags", {"tcp-ext": {"src_flags_hex": "00000002"}}))
        # forwards, then backwards: in one process a float 1.0 meets a boolean true (and 0 meets false) in both orders
        for label, ext in menu + menu[::-1]:
            if case.get("label") and label != case["label"]:
                continue
            j = dict(copy.deepcopy(mn), extensions=copy.deepcopy(ext))
            if model.validate(dict(j, id=gen.uid(j["type"], 1)), "2.1"):
                raise RuntimeError("extension menu entry %s is not valid for the frozen model: %r" % (label, model.validate(dict(j, id=gen.uid(j["type"], 1)), "2.1")[:1]))
            check_instance(part, j, key, dict(case, label=label), "extension-values/" + label.split("=")[0], collect)
    elif case["kind"] == "custom":
        vals = {"alpha": ["a", "", "Ünï 😀 \u0000\n\"\\", "€\U0001f600דּ"], "num": [0.5, 0.0, -0.0, 1.0, 1e22, 5e-324, 2.5e16, 1.5e17, 1e21, 1e-7, 123456789012345680000.0, 1.5e-05, 1.25e-05, 9.999e-05, 1e-05, 1.5e-06, 0.00015, 2.0 ** 68, 1e16 + 2],
                "flag": [True, False],
                "count": [0, 1, -1, 2 ** 53 + 1, 2 ** 60, 10 ** 21, 2 ** 68], "when": ["2016-05-12T08:17:27Z", "2016-05-12T08:17:27.000Z", "2016-05-12T08:17:27.120Z", "2016-05-12T08:17:27.123456Z"],
                "flags": [["a"], ["a", "a"], ["b", "a"], ["a", "b"]], "meta": [{"key": "v"}, {"b": 1, "a": {"d": [1.5, {"z": None}], "c": 2}}, {"€": 1, "\U0001f600": 2, "דּ": 3}]}
        if key == "observables:x-verif-idext":
            # declared with id_contrib_props AND extension_name (the library adds the implicit extension itself; it does not contribute)
            for i, kw in enumerate(({"alpha": "a"}, {"alpha": "a", "count": 0}, {"count": 7}, {"alpha": "", "other": "o"}, {"other": "only non-contributing"})):
                check_instance(part, dict({"type": "x-verif-idext", "spec_version": "2.1"}, **kw), key, dict(case, index=i), "custom-observable-with-extension_name", collect)
        elif key == "observables:x-verif-noid":
            check_instance(part, {"type": "x-verif-noid", "spec_version": "2.1", "alpha": "a"}, key, case, "custom-observable-without-contributing", collect)
        else:
            todo = [(n, i, v) for n, vs in vals.items() for i, v in enumerate(vs)]
            # the whole menu forwards and then backwards in ONE process: values that are equal across types (1, 1.0, True) meet in both orders
            for n, i, v in todo + todo[::-1]:
                if n == "meta" and v == vals["meta"][1]:
                    v = {"b": 1, "a": {"d": [1.5, {"z": 0}], "c": 2}}
                check_instance(part, {"type": "x-verif-idsco", "spec_version": "2.1", n: v, "other": "o"}, key, dict(case, prop=n, index=i), "custom-observable/%s" % n, collect)
            check_instance(part, {"type": "x-verif-idsco", "spec_version": "2.1", "other": "only non-contributing"}, key, case, "custom-observable-none-present", collect)
    return collect


def replay(case, part):
    c = {k: v for k, v in case.items() if k not in ("form", "canonical", "subset", "prop", "index", "instance")}
    if c.get("kind") == "after-history":
        c["op"] = c.pop("after", None)
    run_case(c, part)


def run(run):
    th = run.thorough
    register_custom()
    sp = model.spec("2.1")
    keys = [k for k in sp.classes if k.startswith("observables:")]
    cases = []
    for key in keys:
        if key.startswith("observables:x-verif"):
            cases.append({"kind": "custom", "key": key})
            cases.append({"kind": "after-history", "key": key})
            continue
        cases.append({"kind": "generated", "key": key, "pairs": th})
        cases.append({"kind": "subsets", "key": key})
        cases.append({"kind": "after-history", "key": key})
        if "hashes" in sp.classes[key]["properties"]:
            cases.append({"kind": "hashes", "key": key})
        if "extensions" in sp.classes[key]["id_contributing"]:
            cases.append({"kind": "extension-values", "key": key})
    run.mode = "DEV"
    run.part.results = []
    cases.append({"kind": "uncanonicalizable", "key": "observables:mutex"})
    run.pmap(run_case, cases)
    # equal contributing values <=> equal ids, over everything that was enumerated
    by_canon, by_id = {}, {}
    n = 0
    for _, pairs in run.part.results:
        for canon, id_ in pairs:
            n += 1
            t = id_.split("--")[0]
            if by_canon.setdefault((t, canon), id_) != id_:
                run.part.violation("C06/equal-contributing-values-different-ids", "equal contributing values gave different ids", {"canonical": canon[:200]}, by_canon[(t, canon)], id_)
            if by_id.setdefault(id_, canon) != canon:
                run.part.violation("C06/different-contributing-values-same-id", "different contributing values gave the same id", {"id": id_}, by_id[id_][:200], canon[:200])
    run.part.results = []
    run.extra["injectivity_pairs"] = n
    run.extra["distinct_contributing_values"] = len(by_canon)
    run.rule = ("all 18 SCO types (+2 custom observables): every generated instance%s, every subset of the contributing properties, %d hash dictionaries (subsets x orders x aliases), "
                "x 8 entry forms / argument orders + re-parse without id; states = distinct (type, family); id <-> contributing-value bijection checked over all %d (value, id) pairs"
                % (" incl. pairs of optional properties" if th else "", len(hash_variants()), n))
    run.bound = {"sco_types": len(keys), "entry_forms": 8, "hash_variants": len(hash_variants())}
    run.assumptions += ["contributing-property lists frozen in mc/spec/stix21.json (audited against the 2.1 specification)", "independent RFC 8785 canonicaliser mc/ref/jcs.py and uuid5 from the standard library"]
    run.part.sample({"key": "observables:file", "kind": "hashes", "label": "hashes:SHA-512+SHA-1", "expect": "SHA-1 contributes ({\"hashes\":{\"SHA-1\":...}})"})
    run.part.sample({"key": "observables:network-traffic", "kind": "subsets", "subset": ["dst_port", "protocols", "start"]})
    run.part.sample({"key": "observables:x-verif-idsco", "kind": "custom", "prop": "num", "value": 1.5e17, "canonical": "{\"num\":150000000000000000}"})
    o = run.part.outcomes
    run.require(o.get("uuid5", 0) > 10000 and o.get("uuid4", 0) > 50, "deterministic and random ids both observed")
    run.require(len(by_canon) > 250, "many distinct contributing values")
