"""C07 - Data-marking operations form a consistent algebra over (selector, marking) pairs.

BFS over histories of add/remove/set/clear on real objects (2.0 SDO, 2.1 SDO, 2.1 SRO, plain dict; 2.1 marking-definition query-only),
with the set model mc/ref/markset.py in lock-step; every get_markings / is_marked query x flag combination in every state.
A state is (object kind, frozenset of (selector, marking) pairs) - see DESIGN C07 'K' for why merged states have the same futures.
"""
import copy
import datetime as dt
import itertools
import json

from mc import env
from mc.ref import markset as MS
from mc.ref import tsfmt

ID = "C07"
U = "3f7f0c5f-5d54-4292-94ea-ec1e1952be"
STMT = "marking-definition--" + U + "20"
RED = "marking-definition--5e57c739-391a-4eb3-b6be-7d15ca92d5ed"
TS = "2020-01-01T00:00:00.000Z"
EXT = [{"source_name": "s", "description": "x"}]

BASES = {
    "v21-malware": {"type": "malware", "spec_version": "2.1", "id": "malware--" + U + "17", "created": TS, "modified": TS, "name": "n", "description": "d",
                    "is_family": False, "created_by_ref": "identity--" + U + "17", "labels": ["l%d" % i for i in range(12)], "external_references": EXT},
    "v20-malware": {"type": "malware", "id": "malware--3f7f0c5f-5d54-4292-94ea-ec1e1952be17", "created": TS, "modified": TS, "name": "n", "description": "d",
                    "created_by_ref": "identity--3f7f0c5f-5d54-4292-94ea-ec1e1952be17", "labels": ["l%d" % i for i in range(12)], "external_references": EXT},
    "v21-relationship": {"type": "relationship", "spec_version": "2.1", "id": "relationship--" + U + "17", "created": TS, "modified": TS,
                         "relationship_type": "uses", "source_ref": "malware--" + U + "17", "target_ref": "tool--" + U + "17", "description": "d",
                         "created_by_ref": "identity--" + U + "17", "labels": ["l%d" % i for i in range(12)], "external_references": EXT},
    "v21-marking-definition": {"type": "marking-definition", "spec_version": "2.1", "id": "marking-definition--" + U + "17", "created": TS,
                               "definition_type": "statement", "definition": {"statement": "s"}, "name": "n", "created_by_ref": "identity--" + U + "17",
                               "external_references": EXT},
}
BASES["v21-malware-dict"] = BASES["v21-malware"]
# an object that carries custom content (a custom property): marking operations are versioning operations and must carry it along
BASES["v21-malware-custom"] = dict(BASES["v21-malware"], x_note={"k": [1, 2]}, id="malware--" + U + "18")
VERSION = {"v21-malware": "2.1", "v20-malware": "2.0", "v21-relationship": "2.1", "v21-marking-definition": "2.1", "v21-malware-dict": "2.1", "v21-malware-custom": "2.1"}

SEL_MALWARE = ["name", "description", "created", "created_by_ref", "labels", "labels.[0]", "labels.[1]", "labels.[10]", "external_references",
               "external_references.[0]", "external_references.[0].description"]
SELECTORS = {
    "v21-malware": SEL_MALWARE, "v20-malware": SEL_MALWARE, "v21-malware-dict": SEL_MALWARE, "v21-malware-custom": SEL_MALWARE,
    "v21-relationship": ["relationship_type", "description", "created", "created_by_ref", "labels", "labels.[0]", "labels.[1]", "labels.[10]", "external_references",
                         "external_references.[0]", "external_references.[0].description"],
    "v21-marking-definition": ["name", "created", "created_by_ref", "definition", "definition.statement", "external_references.[0].description"],
}
# event alphabet (quick is a sub-alphabet chosen to keep every relation: prefix siblings, list parent/child, nested, multi-selector)
EV_SEL = {
    "quick": [None, ["name"], ["created"], ["created_by_ref"], ["labels"], ["labels.[10]"], ["external_references.[0].description"], ["name", "labels"],
              ["created_by_ref", "created"], []],
    "thorough": [None, ["name"], ["description"], ["created"], ["created_by_ref"], ["labels"], ["labels.[0]"], ["labels.[1]"], ["external_references"],
                 ["external_references.[0].description"], ["name", "labels"], ["created_by_ref", "created"], ["labels.[1]", "labels.[0]"], ["labels.[10]"], [], ""],
}
EV_MARK = {
    "quick": [["RED"], ["STMT"], ["en"], ["RED", "en"], ["RED", "RED"], ["RED-obj"]],
    "thorough": [["RED"], ["STMT"], ["en"], ["fr"], ["RED", "STMT"], ["RED", "en"], ["RED", "RED"], ["RED-obj"], ["en", "fr"]],
}
FLAGS = [(True, True), (False, True), (True, False)]


def concrete_marking(name, ver):
    if name == "RED":
        return RED
    if name == "STMT":
        return STMT
    if name == "RED-obj":
        import stix2
        return (stix2.v20 if ver == "2.0" else stix2.v21).TLP_RED
    return name


def model_marking(name):
    return RED if name in ("RED", "RED-obj") else STMT if name == "STMT" else name


def subst_selectors(kind, sels):
    """the alphabet is written for malware; the relationship has relationship_type where malware has name"""
    if sels is None:
        return None
    if sels == "":
        return ""
    if kind == "v21-relationship":
        return ["relationship_type" if s == "name" else s for s in sels]
    return sels


def events_for(kind, tier):
    ver = VERSION[kind]
    evs = []
    marks = [m for m in EV_MARK[tier] if ver != "2.0" or not any(MS.is_lang(model_marking(x)) for x in m)]
    for s in EV_SEL[tier]:
        for m in marks:
            if s is None and any(MS.is_lang(model_marking(x)) for x in m):
                continue
            for op in ("add", "remove"):
                evs.append({"op": op, "m": m, "s": s})
            evs.append({"op": "set", "m": m, "s": s, "flags": [True, True]})
        evs.append({"op": "clear", "s": s, "flags": [True, True]})
        if s is not None and ver != "2.0":
            for fl in FLAGS[1:]:
                evs.append({"op": "clear", "s": s, "flags": list(fl)})
                evs.append({"op": "set", "m": ["STMT"], "s": s, "flags": list(fl)})
                evs.append({"op": "set", "m": ["en"], "s": s, "flags": list(fl)})
    return evs


def make(kind, pairs=frozenset(), layout=None):
    """Fresh real object of `kind` carrying exactly `pairs` (built by the constructor/parser, i.e. not through marking functions)."""
    import stix2
    d = json.loads(json.dumps(BASES[kind]))
    om = sorted(m for s, m in pairs if s is None)
    gm = []
    for s, m in sorted((p for p in pairs if p[0] is not None)):
        gm.append(dict([("lang", m)] if MS.is_lang(m) else [("marking_ref", m)], selectors=[s]))
    if layout is not None:
        gm = json.loads(json.dumps(layout.get("granular_markings", [])))
        om = list(layout.get("object_marking_refs", []))
    if om:
        d["object_marking_refs"] = om
    if gm:
        d["granular_markings"] = gm
    if kind.endswith("-dict"):
        return d
    return stix2.parse(d, version=VERSION[kind], allow_custom=kind.endswith("-custom"))


def view(obj):
    """JSON view of an object or dict"""
    if isinstance(obj, dict):
        import stix2.serialization
        return json.loads(stix2.serialization.serialize(obj))     # the library's own JSON form of a plain dict (datetimes -> STIX timestamps)
    return json.loads(obj.serialize())


def content(v):
    return {k: x for k, x in v.items() if k not in ("modified", "granular_markings", "object_marking_refs")}


def resolves(v, sel):
    """independent walker: does the selector address something in JSON view v?"""
    cur = v
    for step in sel.split("."):
        if step.startswith("[") and step.endswith("]"):
            if not isinstance(cur, list):
                return False
            try:
                i = int(step[1:-1])
            except ValueError:
                return False
            if not (0 <= i < len(cur)):
                return False
            cur = cur[i]
        else:
            if not isinstance(cur, dict) or step not in cur:
                return False
            cur = cur[step]
    return True


def blocked_reason(kind, v, sels):
    """A valid selector refused by the library is C08's business; name the C08 feature so that it is attributed, not reported here."""
    if not sels:
        return None            # None = object level; [] / "" select nothing: a refusal is legitimate
    for s in sels:
        if not resolves(v, s):
            return None
    through_embedded = (not kind.endswith("-dict")) and any("external_references.[0]." in s or s.startswith("definition.") for s in sels)
    return "C08/through-embedded-object" if through_embedded else "C08/other"


def apply_event(kind, obj, ev):
    from stix2 import markings as MK
    ver = VERSION[kind]
    sels = subst_selectors(kind, ev["s"])
    sels = None if sels is None else "" if sels == "" else list(sels)
    if ev["op"] == "clear":
        mr, lg = ev["flags"]
        if sels is None:
            return MK.clear_markings(obj)
        if (mr, lg) == (True, True):
            return MK.clear_markings(obj, sels)           # as callers write it: the options default to "both kinds"
        return MK.clear_markings(obj, sels, marking_ref=mr, lang=lg)
    marks = [concrete_marking(x, ver) for x in ev["m"]]
    marks = marks[0] if len(marks) == 1 else marks
    if ev["op"] == "add":
        return MK.add_markings(obj, marks, sels)
    if ev["op"] == "remove":
        return MK.remove_markings(obj, marks, sels)
    if ev["op"] == "set":
        mr, lg = ev["flags"]
        if sels is None:
            return MK.set_markings(obj, marks)
        if (mr, lg) == (True, True):
            return MK.set_markings(obj, marks, sels)
        return MK.set_markings(obj, marks, sels, marking_ref=mr, lang=lg)
    raise ValueError(ev)


def model_event(ps, kind, ev):
    """returns (new pair set, may_refuse_not_found)"""
    sels = subst_selectors(kind, ev["s"])
    if sels == "" or sels == []:
        return ps, True        # selects nothing: the pair set must not change (a refusal is equally fine)
    if ev["op"] == "clear":
        mr, lg = ev["flags"]
        new, any_gone = MS.clear(ps, sels, mr, lg)
        # the library refuses (MarkingNotFoundError) when there is nothing on the selectors at all; documented, accepted
        nothing = not any(p[0] in ([None] if sels is None else sels) for p in ps)
        return new, nothing or not any_gone
    marks = [model_marking(x) for x in ev["m"]]
    if ev["op"] == "add":
        return MS.add(ps, marks, sels), False
    if ev["op"] == "remove":
        new, all_present, some_present = MS.remove(ps, marks, sels)
        return new, not all_present
    if ev["op"] == "set":
        mr, lg = ev["flags"]
        cleared, any_gone = MS.clear(ps, sels, mr, lg)
        nothing = not any(p[0] in ([None] if sels is None else sels) for p in ps)
        return MS.add(cleared, marks, sels), (nothing or not any_gone) and sels is not None
    raise ValueError(ev)


def ev_feature(ev):
    f = [ev["op"], "obj" if ev["s"] is None else "empty-selectors" if not ev["s"] else "gran"]
    if ev["s"] is not None and len(ev["s"]) > 1:
        f.append("multi-sel")
    if "m" in ev:
        if len(ev["m"]) > 1:
            f.append("dup-mark" if len(set(ev["m"])) == 1 else "multi-mark")
        if any(MS.is_lang(model_marking(x)) for x in ev["m"]):
            f.append("lang")
        if "RED-obj" in ev["m"]:
            f.append("marking-object")
    if ev.get("flags") not in (None, [True, True]):
        f.append("flags=%s%s" % tuple("T" if x else "F" for x in ev["flags"]))
    return ":".join(f)


def step(kind, obj, ps, ev, part, case):
    """Execute one event on the implementation and on the model. Returns (new_obj, new_ps) or None if no successor."""
    from stix2.exceptions import InvalidSelectorError, MarkingNotFoundError, TypeNotVersionableError
    part.transitions += 1
    before = view(obj)
    exp_ps, may_refuse = model_event(ps, kind, ev)
    feat = ev_feature(ev)
    try:
        res = apply_event(kind, obj, ev)
    except MarkingNotFoundError:
        part.outcome("MarkingNotFoundError")
        if not may_refuse:
            part.violation("C07/refused-not-found/%s" % feat, "marking present according to the model but the operation reports it missing", case,
                           sorted(map(str, exp_ps)), "MarkingNotFoundError")
        elif view(obj) != before:
            part.violation("C07/original-modified/%s" % feat, "refused operation modified its input", case, before, view(obj))
        return None
    except InvalidSelectorError:
        reason = blocked_reason(kind, before, subst_selectors(kind, ev["s"]))
        if reason:
            # every selector of the event addresses something: the operation must not refuse it (the defect that used to block selectors through embedded
            # objects on library objects is repaired, so this is no longer attributed to C08 but reported here)
            part.outcome("valid-selector-REFUSED")
            part.violation("C07/valid-selector-refused/%s/%s" % (ev["op"], reason.split("/")[-1]), "a marking operation refuses a selector that addresses something in the object", case,
                           "operation applied", "InvalidSelectorError")
        else:
            part.outcome("InvalidSelectorError")
        return None
    except TypeNotVersionableError:
        part.outcome("TypeNotVersionableError")
        if not kind.endswith("marking-definition"):
            part.violation("C07/not-versionable/%s" % feat, "a versionable object is refused as not versionable", case, "new version", "TypeNotVersionableError")
        return None
    after_in = view(obj)
    if after_in != before:
        part.violation("C07/original-modified/%s" % feat, "operation modified its input object/dict", case, before, after_in)
    out = view(res)
    got_ps, dups, bad = MS.pairs_of(out)
    same_object = res is obj
    part.outcome("same-object" if same_object else "new-version")
    if got_ps != exp_ps:
        miss, extra = exp_ps - got_ps, got_ps - exp_ps
        part.violation("C07/op-result/%s/%s" % (feat, "missing" if miss and not extra else "extra" if extra and not miss else "both"),
                       "resulting marking set differs from the set model", case, sorted(map(str, exp_ps)), sorted(map(str, got_ps)))
        return None
    if dups and not MS.pairs_of(before)[1]:
        part.violation("C07/duplicate-pairs/%s" % feat, "the stored markings contain the same (selector, marking) pair twice", case, "each pair once", sorted(map(str, dups)))
    if bad:
        part.violation("C07/malformed-granular-marking/%s" % feat, "a stored granular marking has no selectors / no marking", case, "well-formed", bad)
    if content(out) != content(before):
        part.violation("C07/content-changed/%s" % feat, "non-marking content changed", case, content(before), content(out))
    if not same_object and "modified" in before:
        a, b = tsfmt.instant_of(before["modified"]), tsfmt.instant_of(out.get("modified"))
        if a is None or b is None or not b > a:
            part.violation("C07/not-newer/%s" % feat, "result is not a strictly newer version", case, "> %s" % before["modified"], out.get("modified"))
    if same_object and got_ps != ps:
        part.violation("C07/same-object-but-changed/%s" % feat, "operation returned its input although the marking set had to change", case, sorted(map(str, exp_ps)), "same object")
    if type(res) is not type(obj):
        part.violation("C07/result-class/%s" % feat, "result has another class than the input", case, type(obj).__name__, type(res).__name__)
    return res, exp_ps


def qflags(b):
    return "T" if b else "F"


def queries(kind, obj, ps, part, case):
    """All get_markings / is_marked queries x flag combinations in this state, against the model and against each other."""
    from stix2 import markings as MK
    from stix2.exceptions import InvalidSelectorError
    ver = VERSION[kind]
    v = view(obj)
    marks = [RED, STMT] + ([] if ver == "2.0" else ["en", "fr"])
    sel_sets = [None] + [[s] for s in SELECTORS[kind]] + [[SELECTORS[kind][0], SELECTORS[kind][4]]]
    for sels in sel_sets:
        for inh, desc in itertools.product((False, True), repeat=2):
            if sels is None and (inh or desc):
                continue
            got_default = None
            for mr, lg in FLAGS:
                if sels is None and (mr, lg) != (True, True):
                    continue
                part.transitions += 1
                try:
                    got = MK.get_markings(obj, sels, inherited=inh, descendants=desc, marking_ref=mr, lang=lg)
                except InvalidSelectorError:
                    reason = blocked_reason(kind, v, sels)
                    part.outcome("query-blocked-by:" + reason if reason else "query-InvalidSelectorError")
                    if reason:
                        part.violation("C07/valid-selector-refused/get_markings/%s" % reason.split("/")[-1], "a query refuses a selector that addresses something in the object",
                                       dict(case, query=["get", sels]), "answer", "InvalidSelectorError")
                    else:
                        part.violation("C07/query-refused", "selector of the object refused by a query", dict(case, query=["get", sels]), "answer", "InvalidSelectorError")
                    got = None
                    break
                gl = [str(x) for x in got]
                gs = set(gl)
                if (mr, lg) == (True, True):
                    got_default = gs
                    if not inh and not desc:
                        # the same question with every option left at its default (and through the object's method): options default to the plain lookup
                        part.transitions += 1
                        try:
                            plain = set(str(x) for x in (MK.get_markings(obj, sels) if sels is not None else MK.get_markings(obj)))
                            if sels is not None:
                                from stix2.markings import granular_markings as GM      # the granular module's own function, options at their defaults
                                if set(str(x) for x in GM.get_markings(obj, sels)) != plain:
                                    plain = {"granular_markings.get_markings differs"}
                            viam = set(str(x) for x in (obj.get_markings(sels) if sels is not None else obj.get_markings())) if hasattr(obj, "get_markings") else plain
                            im_plain = {m: bool(MK.is_marked(obj, m, sels) if sels is not None else MK.is_marked(obj, m)) for m in marks}
                            im_flags = {m: bool(MK.is_marked(obj, m, sels, inherited=False, descendants=False)) for m in marks}
                        except InvalidSelectorError:
                            plain = viam = gs
                            im_plain = im_flags = {}
                        if plain != gs or viam != gs or im_plain != im_flags:
                            part.violation("C07/defaults-differ-from-plain-lookup/%s" % ("get_markings" if plain != gs or viam != gs else "is_marked"),
                                           "a query with its options left at their defaults does not answer like inherited=False, descendants=False, marking_ref=True, lang=True",
                                           dict(case, query=["get/is_marked with defaults", sels]), sorted(gs), {"function": sorted(plain), "method": sorted(viam), "is_marked": im_plain != im_flags})
                e1 = MS.get(ps, sels, inh, desc, mr, lg, object_level_filtered=False)
                e2 = MS.get(ps, sels, inh, desc, mr, lg, object_level_filtered=True)
                part.outcome("get:" + ("nonempty" if gs else "empty"))
                fl = "inh=%s,desc=%s,ref=%s,lang=%s" % (qflags(inh), qflags(desc), qflags(mr), qflags(lg))
                if gs != e1 and gs != e2:
                    extra, missing = gs - e1, e1 - gs
                    spr = {m for s, m in MS.string_prefix_related(ps, sels)}
                    if extra and not missing and extra <= spr:
                        feat = "string-prefix-sibling"
                    else:
                        feat = ("obj-level" if sels is None else "gran") + ("/extra" if extra and not missing else "/missing" if missing and not extra else "/both")
                    part.violation("C07/get-vs-model/%s/%s" % (fl if feat != "string-prefix-sibling" else "any-flags", feat),
                                   "get_markings disagrees with the path-tree set model", dict(case, query=["get", sels, fl]), sorted(e1), sorted(gs))
                if len(gl) != len(gs):
                    part.violation("C07/get-duplicates", "get_markings reports a marking twice", dict(case, query=["get", sels, fl]), sorted(gs), sorted(gl))
            if got_default is None:
                continue
            # (a list of DIFFERENT markings is not asserted: the documentation says ANY, the granular code requires ALL - the property speaks of one marking M)
            # is_marked agrees with get_markings under the same options (library vs library), and with the model
            for m in marks + [None]:
                part.transitions += 1
                try:
                    im = MK.is_marked(obj, m, sels, inherited=inh, descendants=desc)
                except InvalidSelectorError:
                    part.outcome("query-InvalidSelectorError")
                    continue
                want = (m in got_default) if m is not None else bool(got_default)
                part.outcome("is_marked:%s" % bool(im))
                fl = "inh=%s,desc=%s" % (qflags(inh), qflags(desc))
                if bool(im) != want:
                    objlvl = any(s is None for s, _ in ps)
                    feat = "%s/%s/%s%s" % ("obj-level" if sels is None else "gran", "claims-marked" if im else "claims-unmarked",
                                           "specific-marking" if m is not None else "any-marking", "/object-markings-present" if objlvl and sels is not None else "")
                    part.violation("C07/is_marked-vs-get/%s/%s" % (fl, feat), "is_marked(M) disagrees with M in get_markings under the same options",
                                   dict(case, query=["is_marked", m, sels, fl]), want, bool(im))
                # the marking named by a marking-definition OBJECT (and by a list holding one) instead of its id: same question, same answer
                if m == RED:
                    import stix2
                    for form, mv in (("marking-object", stix2.TLP_RED), ("list-with-marking-object", [stix2.TLP_RED]), ("same-marking-twice", [RED, RED]),
                                     ("id-and-object-of-one-marking", [RED, stix2.TLP_RED])) + ((("method", "$method"),) if hasattr(obj, "is_marked") else ()):
                        part.transitions += 1
                        try:
                            im2 = obj.is_marked(stix2.TLP_RED, sels, inherited=inh, descendants=desc) if mv == "$method" else MK.is_marked(obj, mv, sels, inherited=inh, descendants=desc)
                        except InvalidSelectorError:
                            continue
                        if bool(im2) != bool(im):
                            part.violation("C07/is_marked-depends-on-marking-form/%s/%s" % (form, "obj-level" if sels is None else "gran"),
                                           "is_marked answers differently when the marking is given as a marking-definition object instead of its id",
                                           dict(case, query=["is_marked", form, sels, fl]), bool(im), bool(im2))


def run_history(kind, history, part, tier, expand=True, final_queries=True, layout=None, start_pairs=None):
    """Replays `history` on a fresh real object with the model in lock-step; then evaluates all queries in the reached state and
    (if expand) every event of the alphabet from it. Returns successors [(canon, item)]."""
    env.reset()
    ps = frozenset(tuple(p) for p in (start_pairs or []))
    ps = frozenset((None if s is None else s, m) for s, m in ps)
    from stix2.exceptions import InvalidSelectorError
    try:
        obj = make(kind, ps, layout)
    except InvalidSelectorError:
        # a valid selector refused at construction is C08's business (attributed, not reported here)
        reason = blocked_reason(kind, BASES[kind], [s for s, m in ps if s is not None])
        if not reason:
            raise
        part.outcome("valid-selector-REFUSED")
        part.violation("C07/valid-selector-refused/construction/%s" % reason.split("/")[-1], "an object whose granular markings address existing content cannot be built",
                       {"kind": kind, "history": list(history), "tier": tier}, "object", "InvalidSelectorError")
        return []
    if layout is not None:
        ps = MS.pairs_of(view(obj))[0]
    case0 = {"kind": kind, "history": list(history), "tier": tier}
    if layout is not None:
        case0["layout"] = layout
    if start_pairs:
        case0["start_pairs"] = [list(p) for p in sorted(ps, key=str)]
    for i, ev in enumerate(history):
        r = step(kind, obj, ps, ev, part, dict(case0, history=list(history[:i + 1])))
        if r is None:
            return []          # the recorded history no longer leads anywhere (violation already recorded if it was one)
        obj, ps = r
    part.evaluations += 1
    part.state((kind, json.dumps(layout, sort_keys=True) if layout else None, sorted(map(str, ps))), nontrivial=bool(ps))
    if final_queries:
        queries(kind, obj, ps, part, case0)
    succ = []
    if expand:
        for ev in events_for(kind, tier):
            r = step(kind, obj, ps, ev, part, dict(case0, history=list(history) + [ev]))
            if r is not None:
                _, nps = r
                item = {"kind": kind, "history": list(history) + [ev], "layout": layout, "start_pairs": start_pairs}
                succ.append(((kind, json.dumps(layout, sort_keys=True) if layout else None, sorted(map(str, nps))), item))
    return succ


TIER = ["quick"]
EXPAND_LAST = [True]


def run_type_sweep(item, part):
    """EVERY versionable type of the frozen model: an object-level and a granular marking added (then removed again) while the clock reads the object's own 'modified'
    or earlier - each result is a strictly newer version at the precision the type writes, with the non-marking content unchanged"""
    import stix2
    from mc.spec import gen, model
    from stix2 import markings as MK
    env.reset()
    ver, key = item["version"], item["key"]
    c = model.spec(ver).classes[key]
    if not {"created", "modified", "revoked", "granular_markings"} <= set(c["properties"]) or c.get("type") == "bundle":
        part.outcome("type-sweep:not-versionable")
        return
    g = gen.Gen(ver)
    for mod in ("2020-01-01T00:00:00.000Z", "2020-01-01T00:00:00.123Z") + (("2020-01-01T00:00:00.123400Z",) if ver == "2.1" else ()):
        d = dict(g.minimal(key), modified=mod, created="2019-01-01T00:00:00.000Z")
        if model.validate(d, ver):
            continue
        try:
            obj0 = stix2.parse(copy.deepcopy(d), version=ver)
        except Exception:
            part.outcome("type-sweep:base-refused(C03's business)")
            continue
        for cname, us in (("0", 0), ("-1s", -1000000), ("+1us", 1)):
            obj = obj0
            for step, op in enumerate((lambda o: MK.add_markings(o, RED), lambda o: MK.add_markings(o, STMT, ["type"]), lambda o: MK.remove_markings(o, RED), lambda o: MK.clear_markings(o, ["type"]))):
                part.transitions += 1
                part.evaluations += 1
                before = view(obj)
                cs = {"kind": "type-sweep", "version": ver, "key": key, "modified": mod, "clock": cname, "step": step}
                env.CLOCK.frozen = obj.modified + dt.timedelta(microseconds=us)
                try:
                    res = op(obj)
                except Exception as e:
                    part.violation("C07/type-sweep/raises/%s" % type(e).__name__, "a marking operation on a versionable object raises", cs, "new version", "%s: %s" % (type(e).__name__, str(e)[:150]))
                    break
                finally:
                    env.CLOCK.frozen = None
                out = view(res)
                part.state(("type-sweep", ver, key, mod, cname, step), nontrivial=True)
                a, b = tsfmt.instant_of(before["modified"]), tsfmt.instant_of(out.get("modified"))
                if a is None or b is None or not b > a:
                    part.outcome("type-sweep:NOT-NEWER")
                    part.violation("C07/not-newer/type-sweep/clock%s" % cname, "result is not a strictly newer version", cs, "> %s" % before["modified"], out.get("modified"))
                else:
                    part.outcome("type-sweep:newer")
                if content(out) != content(before):
                    part.violation("C07/content-changed/type-sweep", "non-marking content changed", cs, content(before), content(out))
                obj = res


def expand_item(item, part):
    if item.get("kind") == "type-sweep":
        return run_type_sweep(item, part)
    return run_history(item["kind"], item["history"], part, TIER[0], expand=item.get("expand", True), layout=item.get("layout"),
                       start_pairs=item.get("start_pairs"))


def replay(case, part):
    if case.get("kind") == "type-sweep":
        return run_type_sweep({"kind": "type-sweep", "version": case["version"], "key": case["key"]}, part)
    run_history(case["kind"], case["history"], part, case.get("tier", "quick"), expand=False, layout=case.get("layout"), start_pairs=case.get("start_pairs"))


LAYOUTS = [
    {"granular_markings": [{"marking_ref": RED, "selectors": ["name", "labels"]}, {"marking_ref": RED, "selectors": ["labels"]}]},
    {"granular_markings": [{"lang": "en", "selectors": ["labels", "created"]}, {"marking_ref": STMT, "selectors": ["created", "labels"]},
                           {"marking_ref": RED, "selectors": ["created_by_ref"]}], "object_marking_refs": [STMT, RED]},
    {"granular_markings": [{"marking_ref": RED, "selectors": ["labels.[1]", "labels.[0]", "labels"]}], "object_marking_refs": [RED]},
]


def run(run):
    th = run.thorough
    tier = "thorough" if th else "quick"
    TIER[0] = tier
    depth = 2    # states up to distance `depth` are expanded => all histories of length <= depth+1 are executed
    kinds = ["v21-malware", "v20-malware", "v21-relationship", "v21-malware-dict"]
    initial = [((k, None, []), {"kind": k, "history": []}) for k in kinds]
    for k in ("v21-malware", "v21-malware-dict"):
        for lay in LAYOUTS:
            initial.append(((k, json.dumps(lay, sort_keys=True), "layout"), {"kind": k, "history": [], "layout": lay}))
    run.mode = "BFS"

    def on_level(lvl, frontier, nxt):
        print("  level %d: expanded %d states -> %d new states" % (lvl, len(frontier), len(nxt)), flush=True)

    # layout variants: depth 1 only (differential: same pair set reached by construction instead of by operations)
    lay_items = [it for it in initial if it[1].get("layout")]
    main_items = [it for it in initial if not it[1].get("layout")]
    run.bfs(main_items, expand_item, depth, on_level)
    last = run.unexpanded
    # states at distance depth+1: evaluate all queries there too (not expanded further)
    for it in last:
        it["expand"] = False
    run.pmap(expand_item, last)
    run.bfs(lay_items, expand_item, 0, None)
    # query-only exploration of the non-versionable 2.1 marking-definition and of directly constructed states (start from non-initial states)
    direct = []
    # the object with custom content: every operation from every state with <= 2 pairs out of a small pair menu (object-level pairs included, so that removing one of
    # two object markings, and the last one, are both executed)
    for n in (1, 2):
        for c in itertools.combinations([(None, RED), (None, STMT), ("name", RED), ("labels", "en")], n):
            direct.append({"kind": "v21-malware-custom", "history": [], "start_pairs": [list(p) for p in c], "expand": True})
    for k in ("v21-marking-definition", "v21-malware", "v21-malware-dict"):
        marks = [RED, STMT, "en"]
        P = [(s, m) for s in [None] + SELECTORS[k] for m in marks if not (s is None and MS.is_lang(m))]
        for n in (1, 2):
            for c in itertools.combinations(P, n):
                direct.append({"kind": k, "history": [], "start_pairs": [list(p) for p in c], "expand": k == "v21-marking-definition" and n == 1})
    run.pmap(expand_item, direct)
    from mc.spec import gen as _gen
    run.pmap(expand_item, [{"kind": "type-sweep", "version": v, "key": k} for v in ("2.0", "2.1") for k in _gen.Gen(v).top_keys()])
    run.rule = ("BFS over add/remove/set/clear events (alphabet: %d selector options x %d marking options + flag variants) from the unmarked object of each kind, "
                "all histories of length <= %d executed, queries in every reached state; plus every directly constructed state with <=2 pairs; "
                "a state is non-trivial if its marking set is non-empty; distinct by canon = (object kind, frozenset of (selector, marking))"
                % (len(EV_SEL[tier]), len(EV_MARK[tier]), depth + 1))
    run.bound = {"depth_histories": depth + 1, "kinds": kinds + ["v21-marking-definition (query-only)"], "events_per_state": {k: len(events_for(k, tier)) for k in kinds},
                 "layout_variants": len(LAYOUTS), "direct_states": len(direct)}
    run.alphabets = {"selectors": EV_SEL[tier], "markings": EV_MARK[tier], "query_selectors": SELECTORS, "flags": FLAGS}
    run.assumptions += ["reference model mc/ref/markset.py (path-tree ancestry)", "clock and uuid4 replaced by deterministic seams (mc/env.py)"]
    run.part.sample({"kind": "v21-malware", "history": [{"op": "add", "m": ["RED"], "s": ["labels.[0]"]}, {"op": "set", "m": ["en"], "s": ["labels"], "flags": [True, True]},
                                                         {"op": "clear", "s": ["labels.[0]"], "flags": [True, True]}], "final_pairs": [["labels", "en"]]})
    o = run.part.outcomes
    run.require(o.get("new-version", 0) > 1000, "operations produced new versions")
    run.require(o.get("MarkingNotFoundError", 0) > 0, "refusals were reached")
    run.require(o.get("is_marked:True", 0) > 0 and o.get("is_marked:False", 0) > 0, "both is_marked answers were observed")
