"""./check <ID> [--tier quick|thorough] | ./check <ID> --replay <file> | ./check --selftest"""
import argparse
import importlib
import json
import os
import pkgutil
import sys

VERIF = os.path.dirname(os.path.dirname(os.path.abspath(__file__)))
REPO = os.environ.get("VERIF_REPO", "/repo")
if REPO != "/repo" or True:
    # the working tree under test shadows any installed copy
    sys.path.insert(0, REPO)


def find_module(prop):
    import mc.checks
    for m in pkgutil.iter_modules(mc.checks.__path__):
        if m.name.lower().startswith(prop.lower() + "_") or m.name.lower() == prop.lower():
            return importlib.import_module("mc.checks." + m.name)
    raise SystemExit("no check module for %s" % prop)


def _scratch_root():
    """ONE scratch root per run, owned by this (parent) process: pool workers leave through os._exit and never run their own clean-up, so every scratch directory a
    worker makes lives under this root, which is removed when the run ends - however it ends"""
    import atexit
    import shutil
    import signal
    import tempfile
    base = "/dev/shm" if os.path.isdir("/dev/shm") and os.access("/dev/shm", os.W_OK) else tempfile.gettempdir()
    root = tempfile.mkdtemp(prefix="verif-run-", dir=base)
    os.environ["VERIF_SCRATCH_ROOT"] = root
    pid = os.getpid()

    def clean(*a):
        if os.getpid() == pid:
            shutil.rmtree(root, ignore_errors=True)
    atexit.register(clean)
    for sig in (signal.SIGTERM, signal.SIGHUP):
        signal.signal(sig, lambda n, f: (clean(), os._exit(143)))
    return root


def main():
    _scratch_root()
    ap = argparse.ArgumentParser()
    ap.add_argument("prop", nargs="?")
    ap.add_argument("--tier", default=os.environ.get("VERIF_TIER", "quick"), choices=["quick", "thorough"])
    ap.add_argument("--replay")
    ap.add_argument("--selftest", action="store_true")
    args = ap.parse_args()
    seed = int(os.environ.get("VERIF_SEED", "0") or 0)

    if args.selftest:
        from mc import selftest
        sys.exit(selftest.main())

    import stix2
    if not os.path.abspath(stix2.__file__).startswith(os.path.abspath(REPO) + os.sep):
        print("HARNESS ERROR: stix2 imported from %s, expected under %s" % (stix2.__file__, REPO))
        sys.exit(2)

    from mc import core, env
    env.install_seams()
    if args.prop is None and args.replay:
        with open(args.replay) as f:
            args.prop = json.load(f)["property"]       # a replay file names its own property
    if args.prop is None:
        ap.error("a property id is required")
    mod = find_module(args.prop)
    prop = mod.ID

    if args.replay:
        with open(args.replay) as f:
            doc = json.load(f)
        part = core.Part()
        mod.replay(doc["case"], part)
        hit = doc["key"] in part.violations
        for k, v in sorted(part.violations.items()):
            print("REPLAY key=%s what=%s observed=%s" % (k, v["what"], json.dumps(v["observed"])[:400]))
        if hit:
            print("VIOLATION property=%s replay=%s" % (prop, os.path.abspath(args.replay)))
            sys.exit(1)
        print("replay: recorded violation %s not reproduced on this tree" % doc["key"])
        sys.exit(0)

    run = core.Run(prop, args.tier, seed)
    mod.run(run)
    run.require(len(run.part.states) > 0, "no state recorded")
    sys.exit(run.finish())


if __name__ == "__main__":
    main()
