"""Nondeterminism seams, all installed from outside the library (no source hook needed).

clock : stix2.utils.get_timestamp is looked up as stix2.base.get_timestamp and stix2.versioning.get_timestamp;
        both module attributes are replaced by CLOCK (scripted answers first, then a monotone counter).
uuid4 : uuid.uuid4 is replaced by a counter-derived deterministic UUIDv4 stream (version/variant bits set).
"""
import datetime as dt
import uuid as _uuid

import pytz

_real_uuid4 = _uuid.uuid4


class Clock(object):
    def __init__(self):
        self.base = dt.datetime(2030, 1, 1, 0, 0, 0, tzinfo=pytz.utc)
        self.n = 0
        self.script = []     # datetimes answered first (FIFO)
        self.reads = 0
        self.frozen = None   # while set, every read answers this instant (the wall clock "reads X" during one operation)

    def reset(self, n=0):
        self.n = n
        self.script = []
        self.reads = 0
        self.frozen = None

    def __call__(self):
        from stix2.utils import STIXdatetime
        self.reads += 1
        if self.frozen is not None:
            return STIXdatetime(self.frozen)
        if self.script:
            return STIXdatetime(self.script.pop(0))
        self.n += 1
        return STIXdatetime(self.base + dt.timedelta(seconds=self.n))


class UUIDStream(object):
    def __init__(self):
        self.n = 0

    def reset(self, n=0):
        self.n = n

    def __call__(self):
        self.n += 1
        b = bytearray(_uuid.uuid5(_uuid.NAMESPACE_OID, "verif-%d" % self.n).bytes)
        b[6] = (b[6] & 0x0F) | 0x40
        b[8] = (b[8] & 0x3F) | 0x80
        return _uuid.UUID(bytes=bytes(b))


CLOCK = Clock()
UUIDS = UUIDStream()


def install_seams():
    import stix2.base
    import stix2.utils
    import stix2.versioning
    stix2.base.get_timestamp = CLOCK
    stix2.versioning.get_timestamp = CLOCK
    stix2.utils.get_timestamp = CLOCK
    _uuid.uuid4 = UUIDS


def real_uuid4():
    return _real_uuid4()


def reset():
    CLOCK.reset()
    UUIDS.reset()
    _set_tz(None)


def _set_tz(name):
    import os
    import time
    if name is None:
        if os.environ.get("TZ") == os.environ.get("VERIF_TZ_DEFAULT", "UTC"):
            return
        name = os.environ.get("VERIF_TZ_DEFAULT", "UTC")
    os.environ["TZ"] = name
    time.tzset()


class process_tz(object):
    """the PROCESS time zone as an explored environment answer: `with env.process_tz("America/New_York"): ...` (always back to UTC afterwards; env.reset() does so too)"""
    ZONES = ["UTC", "America/New_York", "Asia/Tokyo", "Australia/Lord_Howe", "CET-1CEST,M3.5.0,M10.5.0/3"]

    def __init__(self, name):
        self.name = name

    def __enter__(self):
        _set_tz(self.name)
        return self

    def __exit__(self, *a):
        _set_tz(None)
        return False


def scratch_dir(tag):
    import os
    import tempfile
    root = os.environ.get("VERIF_SCRATCH_ROOT")       # set by mc/run.py: removed by the parent process when the run ends
    if not root or not os.path.isdir(root):
        root = "/dev/shm" if os.path.isdir("/dev/shm") and os.access("/dev/shm", os.W_OK) else tempfile.gettempdir()
    return tempfile.mkdtemp(prefix="verif-%s-" % tag, dir=root)


def registry_snapshot():
    import stix2.registry as r
    return {v: {cat: dict(m) for cat, m in cats.items()} for v, cats in r.STIX2_OBJ_MAPS.items()}


def registry_restore(snap):
    import stix2.registry as r
    for v, cats in snap.items():
        for cat, m in cats.items():
            cur = r.STIX2_OBJ_MAPS[v][cat]
            cur.clear()
            cur.update(m)
    for v in list(r.STIX2_OBJ_MAPS):
        if v not in snap:
            del r.STIX2_OBJ_MAPS[v]


def registry_fingerprint():
    import stix2.registry as r
    # which class each name maps to, how many properties each class has, and - for extension classes - which top-level properties they contribute (tables that live
    # in the registry through the classes: a change to them is a change of the registry)
    return tuple(sorted((v, cat, name, id(cls), len(getattr(cls, "_properties", ())),
                         tuple(sorted(getattr(cls, "_toplevel_properties", None) or ())) if cat == "extensions" else ())
                        for v, cats in r.STIX2_OBJ_MAPS.items() for cat, m in cats.items() for name, cls in m.items()))
