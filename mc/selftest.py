"""setup_cmd: self-tests of the reference models (no dependency on the library under test)."""
import importlib
import pkgutil
import sys


def main():
    import mc.ref
    failed = 0
    n = 0
    for m in sorted(pkgutil.iter_modules(mc.ref.__path__), key=lambda m: m.name):
        mod = importlib.import_module("mc.ref." + m.name)
        st = getattr(mod, "selftest", None)
        if st is None:
            continue
        try:
            k = st()
            n += k or 0
            print("selftest %-14s ok (%s vectors)" % (m.name, k))
        except Exception as e:
            failed += 1
            print("selftest %-14s FAILED: %s: %s" % (m.name, type(e).__name__, e))
    print("selftest: %d vectors, %d modules failed" % (n, failed))
    return 1 if failed else 0


if __name__ == "__main__":
    sys.exit(main())
