"""Frozen specification model: loader + independent validator (MUST-level rules only). No import of stix2.

validate(obj_json, version) -> list of (path, rule, message); an empty list means "valid STIX of that version as far as the
model knows". The model is deliberately no stricter than the specification (DESIGN 2.4 / Appendix A): open vocabularies are not
enforced, ambiguous co-constraints are accepted in every reading.
"""
import base64
import binascii
import json
import math
import os
import re

from mc.ref import tsfmt

HERE = os.path.dirname(os.path.abspath(__file__))
_CACHE = {}

SRO_TYPES = {"relationship", "sighting"}
META_TYPES = {"bundle", "marking-definition", "language-content", "extension-definition"}
UUID_RE = re.compile(r"^[0-9a-fA-F]{8}-[0-9a-fA-F]{4}-([0-9a-fA-F])[0-9a-fA-F]{3}-([0-9a-fA-F])[0-9a-fA-F]{3}-[0-9a-fA-F]{12}\Z")
TYPE_RE = re.compile(r"^[a-z0-9-]{3,250}\Z")
DICT_KEY_RE = re.compile(r"^[a-zA-Z0-9_-]+\Z")
HEX_RE = re.compile(r"^([a-fA-F0-9]{2})+\Z")
HASH_LEN = {"MD5": 32, "SHA-1": 40, "SHA-224": 56, "SHA-256": 64, "SHA-384": 96, "SHA-512": 128, "SHA3-224": 56, "SHA3-256": 64, "SHA3-384": 96,
            "SHA3-512": 128, "RIPEMD-160": 40, "WHIRLPOOL": 128}
TLP = {
    "white": ("marking-definition--613f2e26-407d-48c7-9eca-b8e91df99dc9", "TLP:WHITE"),
    "green": ("marking-definition--34098fce-860f-48ae-8e50-ebd3cc5e41da", "TLP:GREEN"),
    "amber": ("marking-definition--f88d31f6-486f-44da-b317-01333bde0b82", "TLP:AMBER"),
    "red": ("marking-definition--5e57c739-391a-4eb3-b6be-7d15ca92d5ed", "TLP:RED"),
}
TLP_CREATED = "2017-01-20T00:00:00.000Z"
SOCKET_PREFIXES = ("SO_", "ICMP_", "ICMP6_", "IP_", "IPV6_", "MCAST_", "TCP_", "IRLMP_")
# which pre-defined extension belongs to which observable (used by the generators only; the validator accepts any known extension)
EXT_HOSTS = {"file": ["archive-ext", "ntfs-ext", "pdf-ext", "raster-image-ext", "windows-pebinary-ext"],
             "network-traffic": ["http-request-ext", "icmp-ext", "socket-ext", "tcp-ext"],
             "process": ["windows-process-ext", "windows-service-ext"], "user-account": ["unix-account-ext"]}


class Spec(object):
    def __init__(self, version):
        self.version = version
        with open(os.path.join(HERE, "stix20.json" if version == "2.0" else "stix21.json")) as f:
            doc = json.load(f)
        self.classes = doc["classes"]
        self.hash_algorithms = doc["hash_algorithms"]
        self.objects = sorted(k.split(":", 1)[1] for k in self.classes if k.startswith("objects:"))
        self.observables = sorted(k.split(":", 1)[1] for k in self.classes if k.startswith("observables:"))
        self.extensions = sorted(k.split(":", 1)[1] for k in self.classes if k.startswith("extensions:"))
        self.markings = sorted(k.split(":", 1)[1] for k in self.classes if k.startswith("markings:"))

    def key_for_type(self, t):
        if "objects:" + t in self.classes:
            return "objects:" + t
        if "observables:" + t in self.classes:
            return "observables:" + t
        return None

    def type_class(self, t):
        """'SDO' | 'SRO' | 'SCO' | 'META' | None (unknown)"""
        if t in self.observables:
            return "SCO"
        if t in self.objects:
            if t in SRO_TYPES:
                return "SRO"
            if t in META_TYPES:
                return "META"
            return "SDO"
        return None

    def sdo_types(self):
        return [t for t in self.objects if self.type_class(t) == "SDO"]


def spec(version):
    if version not in _CACHE:
        _CACHE[version] = Spec(version)
    return _CACHE[version]


# ---- identifiers ----------------------------------------------------------------------------------------
def check_id(value, version, want_type=None):
    """returns None if ok, else a message"""
    if not isinstance(value, str) or "--" not in value:
        return "not of the form <type>--<uuid>"
    t, u = value.split("--", 1)
    if want_type is not None and t != want_type:
        return "type prefix %r is not %r" % (t, want_type)
    if not TYPE_RE.match(t):
        return "malformed type prefix"
    m = UUID_RE.match(u)
    if not m:
        return "UUID part is not in RFC 4122 string form"
    ver, variant = m.group(1), m.group(2).lower()
    if variant not in "89ab":
        return "UUID variant is not RFC 4122"
    if version == "2.0" and ver != "4":
        return "STIX 2.0 identifiers must be UUIDv4"
    return None


# ---- validator ------------------------------------------------------------------------------------------
class V(object):
    def __init__(self, version, written=False):
        self.sp = spec(version)
        self.version = version
        self.written = written      # judging what the LIBRARY wrote (not input it was given): "minimum precision MUST be milliseconds" applies without doubt
        self.out = []

    def add(self, path, rule, msg):
        self.out.append((path, rule, msg))

    # -- values
    def value(self, v, p, path, ctx):
        k = p["kind"]
        if v is None:
            return self.add(path, "null", "null value")
        if k == "list":
            if not isinstance(v, list):
                return self.add(path, "kind", "not a list")
            if not v:
                return self.add(path, "empty-list", "empty list")
            for i, x in enumerate(v):
                self.value(x, p["of"], "%s[%d]" % (path, i), ctx)
            return
        if k in ("string", "openvocab", "pattern", "selector"):
            if not isinstance(v, str):
                return self.add(path, "kind", "not a string")
            if k == "selector" and not re.match(r"^([a-z0-9_-]{3,250}(\.(\[\d+\]|[a-z0-9_-]{1,250}))*|id)\Z", v):
                self.add(path, "selector-syntax", "selector does not follow the selector syntax")
            return
        if k == "enum":
            if not isinstance(v, str) or v not in p["allowed"]:
                self.add(path, "vocabulary", "%r not in the closed vocabulary" % (v,))
            return
        if k == "type":
            if v != p.get("fixed"):
                self.add(path, "type", "type is %r, expected %r" % (v, p.get("fixed")))
            return
        if k == "id":
            msg = check_id(v, self.version, ctx.get("type"))
            if msg:
                self.add(path, "identifier", msg)
            return
        if k == "integer":
            if isinstance(v, bool) or not isinstance(v, int):
                return self.add(path, "kind", "not an integer")
            if "min" in p and v < p["min"]:
                self.add(path, "range", "%r below %r" % (v, p["min"]))
            if "max" in p and v > p["max"]:
                self.add(path, "range", "%r above %r" % (v, p["max"]))
            return
        if k == "float":
            if isinstance(v, bool) or not isinstance(v, (int, float)):
                return self.add(path, "kind", "not a number")
            if isinstance(v, float) and (math.isnan(v) or math.isinf(v)):
                return self.add(path, "number-not-finite", "NaN/Infinity is not a JSON number")
            if "min" in p and v < p["min"]:
                self.add(path, "range", "%r below %r" % (v, p["min"]))
            if "max" in p and v > p["max"]:
                self.add(path, "range", "%r above %r" % (v, p["max"]))
            return
        if k == "boolean":
            if not isinstance(v, bool):
                self.add(path, "kind", "not a boolean")
            return
        if k == "timestamp":
            r = tsfmt.parse_ts(v)
            if r is None:
                return self.add(path, "timestamp-format", "%r is not YYYY-MM-DDTHH:MM:SS[.s+]Z" % (v,))
            n = r[1]
            fr = p.get("fraction", "any")
            if fr == "exact3" and n != 3:
                self.add(path, "timestamp-precision", "needs exactly three fraction digits: %r" % v)
            # "min3" (2.1 created/modified): whether fewer than three digits is invalid INPUT is not clear-cut in 2.1; not enforced on input
            # (the written form is pinned by C15's frozen per-property precision table, and here when a WRITTEN document is judged)
            if fr == "min3" and self.written and n < 3:
                self.add(path, "timestamp-precision", "written with fewer than three fraction digits: %r" % v)
            return
        if k == "binary":
            if not isinstance(v, str):
                return self.add(path, "kind", "not a string")
            try:
                base64.b64decode("".join(v.split()), validate=True)        # embedded whitespace / line wrapping: tolerated (not clear-cut)
            except (binascii.Error, ValueError):
                self.add(path, "binary", "not base64")
            return
        if k == "hex":
            if not isinstance(v, str) or not HEX_RE.match(v):
                self.add(path, "hex", "not an even number of hex digits")
            return
        if k == "dictionary":
            return self.dictionary(v, path)
        if k == "hashes":
            if self.dictionary(v, path) is False:
                return
            for hk, hv in v.items():
                if hk not in self.sp.hash_algorithms:
                    self.add("%s.%s" % (path, hk), "hash-algorithm", "not in the version's hash-algorithm vocabulary")
                if not isinstance(hv, str) or not hv:
                    self.add("%s.%s" % (path, hk), "hash-value", "hash value is not a non-empty string")
                elif hk in HASH_LEN and not re.match(r"^[0-9a-fA-F]{%d}\Z" % HASH_LEN[hk], hv):
                    self.add("%s.%s" % (path, hk), "hash-value", "not a %s value" % hk)
            return
        if k == "ref":
            msg = check_id(v, self.version)
            if msg:
                return self.add(path, "identifier", msg)
            t = v.split("--", 1)[0]
            tc = self.sp.type_class(t)
            if tc is None:
                return self.add(path, "ref-custom-type", "reference to a type that is not part of the specification: %s" % t)
            hit = (tc in p["classes"]) or (t in p["types"])
            if p["auth"] == "allow" and p["classes"] and tc == "META" and t != "bundle":
                hit = True       # "STIX Object" references: whether meta objects are included is not clear-cut; accepted
            if (p["auth"] == "allow" and not hit) or (p["auth"] == "deny" and hit):
                self.add(path, "ref-target", "reference to %s is not allowed here" % t)
            return
        if k == "objref":
            if not isinstance(v, str):
                return self.add(path, "kind", "object reference is not a string")
            members = ctx.get("container")
            if members is None:
                return            # outside a container the reference cannot be resolved; not asserted
            if v not in members:
                return self.add(path, "objref-dangling", "object reference %r is not a key of the container" % v)
            if p.get("allow_types") and isinstance(members[v], dict) and members[v].get("type") not in p["allow_types"]:
                self.add(path, "objref-target", "object reference to %r is not allowed here" % (members[v].get("type"),))
            return
        if k == "embedded":
            return self.obj(v, p["class"], path, ctx)
        if k == "extensions":
            if not isinstance(v, dict):
                return self.add(path, "kind", "extensions is not an object")
            if not v:
                return self.add(path, "empty-dict", "empty extensions")
            for ek, ev in v.items():
                if "extensions:" + ek in self.sp.classes:
                    self.obj(ev, "extensions:" + ek, "%s.%s" % (path, ek), ctx)
                elif ek.startswith("extension-definition--") and self.version == "2.1":
                    if not isinstance(ev, dict) or "extension_type" not in ev:
                        self.add("%s.%s" % (path, ek), "extension-type", "extension-definition extension without extension_type")
                else:
                    self.add("%s.%s" % (path, ek), "custom-extension", "unknown extension")
            return
        if k == "observables":
            if not isinstance(v, dict):
                return self.add(path, "kind", "observable container is not an object")
            if not v:
                return self.add(path, "empty-dict", "empty observable container")
            for ok, ov in v.items():
                if not isinstance(ov, dict) or not isinstance(ov.get("type"), str):
                    self.add("%s.%s" % (path, ok), "kind", "container member is not an object with a type")
                    continue
                key = "observables:" + ov["type"]
                if key not in self.sp.classes:
                    self.add("%s.%s" % (path, ok), "custom-observable", "unknown observable type %r" % ov["type"])
                    continue
                self.obj(ov, key, "%s.%s" % (path, ok), dict(ctx, container=v, type=ov["type"]))
            return
        if k == "stixobject":
            if not isinstance(v, dict) or not isinstance(v.get("type"), str):
                return self.add(path, "kind", "bundle member is not an object with a type")
            ver = "2.1" if v.get("spec_version") == "2.1" else (self.version if self.version == "2.0" else ("2.1" if spec("2.1").type_class(v["type"]) == "SCO" else "2.0"))
            sub = V(ver)
            sub.top(v, path)
            self.out.extend(sub.out)
            return
        if k.startswith("opaque:MarkingProperty"):
            return                  # checked by the marking-definition constraint
        self.add(path, "model", "unknown kind %s" % k)

    def dictionary(self, v, path):
        if not isinstance(v, dict):
            self.add(path, "kind", "not an object")
            return False
        if not v:
            self.add(path, "empty-dict", "empty dictionary")
            return False
        for k in v:
            if self.version == "2.0" and not (3 <= len(k) <= 256):
                self.add("%s.%s" % (path, k), "dictionary-key", "key length outside 3-256")
            if self.version == "2.1" and len(k) > 250:
                self.add("%s.%s" % (path, k), "dictionary-key", "key longer than 250")
            if not DICT_KEY_RE.match(k):
                self.add("%s.%s" % (path, k), "dictionary-key", "illegal character in key")
            if v[k] is None:
                self.add("%s.%s" % (path, k), "null", "null value")
        return True

    # -- objects
    def obj(self, o, key, path, ctx):
        c = self.sp.classes[key]
        if not isinstance(o, dict):
            return self.add(path, "kind", "not an object")
        props = c["properties"]
        # (2.1 only: STIX 2.0 has no extension mechanism; in 2.1 the library lets a toplevel-property-extension add properties - even 'extensions' itself - to any class)
        toplevel_ext = self.version == "2.1" and isinstance(o.get("extensions"), dict) and any(isinstance(e, dict) and e.get("extension_type") == "toplevel-property-extension" for e in o["extensions"].values())
        for name in o:
            if name not in props and not toplevel_ext:
                self.add("%s.%s" % (path, name) if path else name, "unknown-property", "property %r is not defined for %s" % (name, c["name"]))
        for name, p in props.items():
            if name in o:
                sub = dict(ctx)
                if c["category"] in ("objects", "observables", "bundle"):
                    sub["type"] = c["type"]
                self.value(o[name], p, "%s.%s" % (path, name) if path else name, sub)
                if "fixed" in p and p["kind"] != "type" and o[name] != p["fixed"]:
                    self.add("%s.%s" % (path, name) if path else name, "fixed-value", "must be %r" % (p["fixed"],))
            elif p.get("required"):
                self.add("%s.%s" % (path, name) if path else name, "required", "required property missing")
        fn = CONSTRAINTS.get((self.version, key)) or CONSTRAINTS.get(("*", key))
        if fn:
            fn(self, o, path)
        if "granular_markings" in props and isinstance(o.get("granular_markings"), list):
            # every selector of every granular marking addresses content of THIS object
            for gi, gm in enumerate(o["granular_markings"]):
                sels = gm.get("selectors") if isinstance(gm, dict) else None
                for si, sel in enumerate(sels if isinstance(sels, list) else []):
                    if isinstance(sel, str) and SELECTOR_RE.match(sel) and not _resolves(o, sel):
                        self.add("%sgranular_markings[%d].selectors[%d]" % (path + "." if path else "", gi, si), "selector-unresolved", "selector %r addresses nothing in the object" % sel)
        if c["category"] == "extensions" and self.version in ("2.0", "2.1"):
            if not [k for k in o if k != "extension_type"]:
                self.add(path, "at-least-one", "an extension must carry at least one property")

    def top(self, o, path=""):
        if not isinstance(o, dict) or not isinstance(o.get("type"), str):
            return self.add(path, "kind", "not an object with a type")
        key = self.sp.key_for_type(o["type"])
        if key is None:
            return self.add(path or "type", "custom-type", "type %r is not part of STIX %s" % (o["type"], self.version))
        self.obj(o, key, path, {"type": o["type"]})


SELECTOR_RE = re.compile(r"^([a-z0-9_-]{3,250}(\.(\[\d+\]|[a-z0-9_-]{1,250}))*|id)\Z")


def _resolves(v, sel):
    cur = v
    for step in sel.split("."):
        if step.startswith("[") and step.endswith("]"):
            i = int(step[1:-1])
            if not isinstance(cur, list) or not (0 <= i < len(cur)):
                return False
            cur = cur[i]
        else:
            if not isinstance(cur, dict) or step not in cur:
                return False
            cur = cur[step]
    return True


def validate(o, version, key=None, written=False):
    v = V(version, written)
    if key:
        v.obj(o, key, "", {"type": spec(version).classes[key].get("type")})
    else:
        v.top(o)
    return v.out


# ---- co-constraints (MUST level) -----------------------------------------------------------------------
def _inst(o, name):
    return tsfmt.instant_of(o.get(name)) if isinstance(o.get(name), str) else None


def _le(a, b, strict=False):
    def fn(v, o, path):
        x, y = _inst(o, a), _inst(o, b)
        if x is not None and y is not None and (y < x or (strict and y == x)):
            v.add(path + "." + b if path else b, "order", "%s must be %s %s" % (b, "later than" if strict else "not earlier than", a))
    return fn


def _at_least_one(names):
    def fn(v, o, path):
        if not any(n in o for n in names):
            v.add(path, "at-least-one", "at least one of %s is required" % ", ".join(names))
    return fn


def _seq(*fns):
    def fn(v, o, path):
        for f in fns:
            f(v, o, path)
    return fn


def c_external_reference(v, o, path):
    _at_least_one(["description", "external_id", "url"])(v, o, path)


def c_granular_marking_21(v, o, path):
    n = ("lang" in o) + ("marking_ref" in o)
    if n != 1:
        v.add(path, "exactly-one", "exactly one of lang / marking_ref")


def c_location(v, o, path):
    if ("latitude" in o) != ("longitude" in o):
        v.add(path, "dependency", "latitude and longitude must be used together")
    if "precision" in o and not ("latitude" in o and "longitude" in o):
        v.add(path, "dependency", "precision requires latitude and longitude")
    if not ("region" in o or "country" in o or ("latitude" in o and "longitude" in o)):
        v.add(path, "at-least-one", "region, country or latitude+longitude required")


def c_malware_21(v, o, path):
    _le("first_seen", "last_seen")(v, o, path)
    if o.get("is_family") is True and "name" not in o:
        v.add(path, "dependency", "name is required for malware families")


def c_observed_data(v, o, path):
    if v.version == "2.1":
        _le("first_observed", "last_observed")(v, o, path)
        n = ("objects" in o) + ("object_refs" in o)
        if n != 1:
            v.add(path, "exactly-one", "exactly one of objects / object_refs")


def c_marking_definition(v, o, path):
    dt_, d = o.get("definition_type"), o.get("definition")
    if v.version == "2.1" and not (dt_ is not None and d is not None) and "extensions" not in o:
        v.add(path, "dependency", "definition_type and definition are required without extensions")
    if dt_ is not None or d is not None:
        if dt_ == "statement":
            if not isinstance(d, dict) or set(d) != {"statement"} or not isinstance(d.get("statement"), str):
                v.add(path + ".definition" if path else "definition", "marking-definition", "statement marking must be {statement: string}")
        elif dt_ == "tlp":
            if not isinstance(d, dict) or set(d) != {"tlp"} or d.get("tlp") not in TLP:
                v.add(path + ".definition" if path else "definition", "marking-definition", "tlp marking must be {tlp: white|green|amber|red}")
            else:
                want_id, want_name = TLP[d["tlp"]]
                if o.get("id") != want_id or tsfmt.instant_of(o.get("created")) != tsfmt.instant_of(TLP_CREATED):
                    v.add(path, "tlp-instance", "TLP markings are the four fixed instances of the specification")
        elif isinstance(dt_, str):
            v.add(path + ".definition_type" if path else "definition_type", "custom-marking", "unknown marking definition type %r" % dt_)
        else:
            v.add(path + ".definition_type" if path else "definition_type", "kind", "definition_type is not a string")


def c_artifact(v, o, path):
    if "payload_bin" in o and "url" in o:
        v.add(path, "mutually-exclusive", "payload_bin and url are mutually exclusive")
    if "url" in o and "hashes" not in o:
        v.add(path, "dependency", "hashes is required when url is present")


def c_email_message(v, o, path):
    if o.get("is_multipart") is True and "body" in o:
        v.add(path, "dependency", "body must not be used when is_multipart is true")
    if o.get("is_multipart") is False and "body_multipart" in o:
        v.add(path, "dependency", "body_multipart must not be used when is_multipart is false")


def c_network_traffic(v, o, path):
    _at_least_one(["src_ref", "dst_ref"])(v, o, path)
    if v.version != "2.1":
        return
    _le("start", "end")(v, o, path)
    if "end" in o and o.get("is_active") is True:
        v.add(path, "dependency", "end must not be present when is_active is true")


def c_socket_ext(v, o, path):
    opts = o.get("options")
    if isinstance(opts, dict):
        for k, val in opts.items():
            if not k.startswith(SOCKET_PREFIXES):
                v.add(path + ".options." + k, "socket-option", "option key without a known prefix")
            if isinstance(val, bool) or not isinstance(val, int):
                v.add(path + ".options." + k, "socket-option", "option value is not an integer")


def c_indicator(v, o, path):
    if v.version == "2.1":
        _le("valid_from", "valid_until", strict=True)(v, o, path)
    if v.version == "2.0" or o.get("pattern_type") == "stix":
        pat = o.get("pattern")
        if isinstance(pat, str):
            try:
                from stix2patterns.validator import run_validator
                pv = "2.0" if v.version == "2.0" else (o.get("pattern_version") or "2.1")
                errs = run_validator(pat, pv if pv in ("2.0", "2.1") else "2.1")
            except Exception as e:
                errs = [str(e)]
            if errs:
                v.add(path + ".pattern" if path else "pattern", "pattern-syntax", "not a valid STIX pattern: %s" % (str(errs[0])[:80],))


def c_process(v, o, path):
    own = [k for k in o if k not in ("type", "id", "spec_version", "defanged", "extensions", "object_marking_refs", "granular_markings")]
    if not own and "extensions" not in o:
        v.add(path, "at-least-one", "a process needs at least one property or extension")


def c_x509(v, o, path):
    att = ["is_self_signed", "hashes", "version", "serial_number", "signature_algorithm", "issuer", "validity_not_before", "validity_not_after", "subject",
           "subject_public_key_algorithm", "subject_public_key_modulus", "subject_public_key_exponent", "x509_v3_extensions"]
    _at_least_one(att)(v, o, path)


def c_file_20(v, o, path):
    if ("encryption_algorithm" in o or "decryption_key" in o) and o.get("is_encrypted") is not True:
        v.add(path, "dependency", "encryption_algorithm / decryption_key require is_encrypted = true")


def c_pe_optional_header(v, o, path):
    if not o:
        v.add(path, "at-least-one", "at least one property required")


CONSTRAINTS = {
    ("*", "embedded:ExternalReference"): c_external_reference,
    ("2.1", "embedded:GranularMarking"): c_granular_marking_21,
    # ordering / activity / "at least one" MUSTs that I can only pin to the 2.1 text are enforced for 2.1 only (DESIGN Appendix A)
    ("2.1", "objects:campaign"): _le("first_seen", "last_seen"),
    ("2.1", "objects:infrastructure"): _le("first_seen", "last_seen"),
    ("2.1", "objects:intrusion-set"): _le("first_seen", "last_seen"),
    ("2.1", "objects:threat-actor"): _le("first_seen", "last_seen"),
    ("2.1", "objects:sighting"): _le("first_seen", "last_seen"),
    ("2.1", "objects:malware"): c_malware_21,
    ("2.1", "objects:location"): c_location,
    ("2.1", "objects:malware-analysis"): _at_least_one(["result", "analysis_sco_refs"]),
    ("*", "objects:observed-data"): c_observed_data,
    ("*", "objects:marking-definition"): c_marking_definition,
    ("*", "objects:indicator"): c_indicator,
    ("2.1", "objects:relationship"): _le("start_time", "stop_time", strict=True),
    ("*", "observables:artifact"): c_artifact,
    ("*", "observables:email-message"): c_email_message,
    ("*", "embedded:EmailMIMEComponent"): _at_least_one(["body", "body_raw_ref"]),
    ("2.1", "observables:file"): _at_least_one(["hashes", "name"]),
    ("2.0", "observables:file"): c_file_20,
    ("*", "observables:network-traffic"): c_network_traffic,
    ("2.1", "observables:process"): c_process,
    ("2.1", "observables:x509-certificate"): c_x509,
    ("2.1", "extensions:socket-ext"): c_socket_ext,
    ("*", "embedded:WindowsPEOptionalHeaderType"): c_pe_optional_header,
}
