"""ONE-TIME bootstrap of the frozen specification model (run by hand at implementation time, never by a check):

    /venv/bin/python -B -m mc.spec.bootstrap        # writes mc/spec/stix20.json and mc/spec/stix21.json

It dumps the library's property tables for orientation and then applies AUDIT, the hand-made corrections from my reading of the
STIX 2.0 / 2.1 specifications (DESIGN Appendix A). The JSON files are committed; checks read only them. Where the specification has a
MUST the library does not enforce, AUDIT records the specification's rule, so the frozen model differs from the library there.
"""
import collections
import json
import os
import sys

HERE = os.path.dirname(os.path.abspath(__file__))

# (version, class key, property) -> attribute overrides.  Each entry is a deliberate departure from the dumped library table.
AUDIT = {
    # STIX 2.1 3.2 common properties: confidence "MUST be a number in the range of 0-100"
    ("2.1", "*", "confidence"): {"min": 0, "max": 100},
    # STIX 2.x alternate-data-stream-type.size: "The value of this property MUST NOT be negative."
    ("2.1", "embedded:AlternateDataStream", "size"): {"min": 0},
    ("2.0", "embedded:AlternateDataStream", "size"): {"min": 0},
    # STIX 2.0 Part 4: network-traffic ports "MUST be in the range of 0 - 65535"; file.size "MUST NOT be negative"
    ("2.0", "observables:network-traffic", "src_port"): {"min": 0, "max": 65535},
    ("2.0", "observables:network-traffic", "dst_port"): {"min": 0, "max": 65535},
    ("2.0", "observables:file", "size"): {"min": 0},
}
# floats must be finite JSON numbers everywhere (validator rule, not a table entry)


def kind_of(p, ver):
    from stix2 import properties as P
    from stix2.base import _STIXBase
    import inspect
    d = collections.OrderedDict()
    n = type(p).__name__
    if isinstance(p, P.ListProperty):
        d["kind"] = "list"
        c = p.contained
        if isinstance(c, P.Property):
            d["of"] = kind_of(c, ver)
        elif inspect.isclass(c) and issubclass(c, _STIXBase):
            d["of"] = {"kind": "embedded", "class": "embedded:" + c.__name__}
        else:
            d["of"] = {"kind": "unknown:" + repr(c)}
    elif isinstance(p, P.TypeProperty):
        d["kind"] = "type"
    elif isinstance(p, P.IDProperty):
        d["kind"] = "id"
    elif isinstance(p, P.PatternProperty):
        d["kind"] = "pattern"
    elif isinstance(p, P.ObjectReferenceProperty):
        d["kind"] = "objref"
        if getattr(p, "valid_types", None):
            d["allow_types"] = sorted(p.valid_types)
    elif isinstance(p, P.EnumProperty):
        d["kind"] = "enum"
        d["allowed"] = list(p.allowed)
    elif isinstance(p, P.OpenVocabProperty):
        d["kind"] = "openvocab"
        d["suggested"] = list(p.allowed)
    elif isinstance(p, P.StringProperty):
        d["kind"] = "string"
    elif isinstance(p, P.IntegerProperty):
        d["kind"] = "integer"
        if p.min is not None:
            d["min"] = p.min
        if p.max is not None:
            d["max"] = p.max
    elif isinstance(p, P.FloatProperty):
        d["kind"] = "float"
        if p.min is not None:
            d["min"] = p.min
        if p.max is not None:
            d["max"] = p.max
    elif isinstance(p, P.BooleanProperty):
        d["kind"] = "boolean"
    elif isinstance(p, P.TimestampProperty):
        d["kind"] = "timestamp"
        pr = p.precision if isinstance(p.precision, str) else p.precision.name
        pc = p.precision_constraint if isinstance(p.precision_constraint, str) else p.precision_constraint.name
        pr, pc = pr.lower(), pc.lower()
        d["fraction"] = "any" if pr == "any" else ("exact3" if (pr, pc) == ("millisecond", "exact") else "min3" if (pr, pc) == ("millisecond", "min") else pr + "-" + pc)
    elif isinstance(p, P.HashesProperty):
        d["kind"] = "hashes"
    elif isinstance(p, P.ExtensionsProperty):
        d["kind"] = "extensions"
    elif isinstance(p, P.DictionaryProperty):
        d["kind"] = "dictionary"
    elif isinstance(p, P.BinaryProperty):
        d["kind"] = "binary"
    elif isinstance(p, P.HexProperty):
        d["kind"] = "hex"
    elif isinstance(p, P.ReferenceProperty):
        d["kind"] = "ref"
        d["auth"] = "allow" if p.auth_type == 0 else "deny"
        d["classes"] = sorted(x.name for x in p.generics)
        d["types"] = sorted(p.specifics)
    elif isinstance(p, P.SelectorProperty):
        d["kind"] = "selector"
    elif isinstance(p, P.EmbeddedObjectProperty):
        d["kind"] = "embedded"
        d["class"] = "embedded:" + p.type.__name__
    elif isinstance(p, P.ObservableProperty):
        d["kind"] = "observables"
    elif isinstance(p, P.STIXObjectProperty):
        d["kind"] = "stixobject"
    else:
        d["kind"] = "opaque:" + n
    if getattr(p, "required", False):
        d["required"] = True
    if hasattr(p, "_fixed_value"):
        d["fixed"] = p._fixed_value
    elif hasattr(p, "default"):
        try:
            v = p.default()
            import stix2.utils
            if v is stix2.utils.NOW:
                d["default"] = "$now"
            elif isinstance(v, (bool, int, float)):
                d["default"] = v
            elif isinstance(v, str) and "--" in v:
                d["default"] = "$generated-id"
            else:
                d["default"] = v
        except Exception:
            d["default"] = "$?"
    return d


def dump_class(cls, key, category, ver, out, queue):
    from stix2 import properties as P
    from stix2.base import _STIXBase
    import inspect
    if key in out:
        return
    c = collections.OrderedDict()
    c["name"] = cls.__name__
    c["category"] = category
    c["type"] = getattr(cls, "_type", None)
    c["order"] = list(cls._properties)
    c["properties"] = collections.OrderedDict()
    if hasattr(cls, "_id_contributing_properties"):
        c["id_contributing"] = list(cls._id_contributing_properties)
    out[key] = c
    for name, p in cls._properties.items():
        d = kind_of(p, ver)
        for k in ((ver, key, name), (ver, "*", name)):
            if k in AUDIT:
                d.update(AUDIT[k])
                d["audited"] = True
        c["properties"][name] = d
        for q in (p, getattr(p, "contained", None)):
            if isinstance(q, P.EmbeddedObjectProperty):
                queue.append((q.type, "embedded:" + q.type.__name__, "embedded"))
            if inspect.isclass(q) and issubclass(q, _STIXBase):
                queue.append((q, "embedded:" + q.__name__, "embedded"))


def main():
    sys.path.insert(0, os.environ.get("VERIF_REPO", "/repo"))
    import stix2
    from stix2 import registry
    for ver, fname in (("2.0", "stix20.json"), ("2.1", "stix21.json")):
        out = collections.OrderedDict()
        queue = []
        mod = stix2.v20 if ver == "2.0" else stix2.v21
        for cat in ("objects", "observables", "extensions", "markings"):
            for t, cls in sorted(registry.STIX2_OBJ_MAPS[ver][cat].items()):
                if t.startswith("x-") or "verif" in t:
                    continue
                queue.append((cls, "%s:%s" % (cat, t), cat))
        queue.append((mod.Bundle, "objects:bundle", "bundle"))
        while queue:
            cls, key, cat = queue.pop(0)
            dump_class(cls, key, cat, ver, out, queue)
        vocab = {}
        import stix2.v20.vocab
        import stix2.v21.vocab
        vmod = stix2.v20.vocab if ver == "2.0" else stix2.v21.vocab
        vocab["hash-algorithm"] = list(vmod.HASHING_ALGORITHM)
        doc = collections.OrderedDict([("version", ver), ("hash_algorithms", vocab["hash-algorithm"]), ("classes", out)])
        with open(os.path.join(HERE, fname), "w") as f:
            json.dump(doc, f, indent=1)
            f.write("\n")
        print(fname, len(out), "classes", sum(len(c["properties"]) for c in out.values()), "property slots")


if __name__ == "__main__":
    main()
