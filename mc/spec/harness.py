"""Shared driver pieces for the checks built on the frozen specification model (C01-C04, C06, C08, C14, C17)."""
import copy
import json
import re

from mc.ref import tsfmt
from mc.spec import gen, model

LIB_ERRORS = None


def lib_errors():
    global LIB_ERRORS
    if LIB_ERRORS is None:
        import stix2.exceptions as X
        LIB_ERRORS = (X.STIXError, ValueError, TypeError)
    return LIB_ERRORS


def all_cases(version, pairs=False, keys=None):
    """(key, label, instance, wrapped top-level JSON, locator of the instance inside the wrapped JSON) for every generated valid instance.
    2.0 observables are wrapped in their observed-data container (the only specification-valid place for them)."""
    g = gen.Gen(version)
    for key in (keys or g.top_keys()):
        cat = g.sp.classes[key]["category"]
        for label, inst in g.instances(key, pairs=pairs):
            if cat == "observables" and version == "2.0":
                cont = g.resolve_objrefs(inst)
                yield key, label, cont["0"], g.observed_data_with(cont), ("objects", "0")
            else:
                yield key, label, inst, inst, ()


def locate(obj, locator):
    for s in locator:
        obj = obj[s]
    return obj


def view(obj, defaults=True):
    import stix2.serialization
    if isinstance(obj, dict):
        return json.loads(stix2.serialization.serialize(obj))
    return json.loads(obj.serialize(include_optional_defaults=defaults))


def num_eq(a, b):
    return isinstance(a, (int, float)) and isinstance(b, (int, float)) and not isinstance(a, bool) and not isinstance(b, bool) and a == b      # (Python compares int with float exactly; going through float() would merge integers a double cannot tell apart)


def subset_diff(inp, out, version, key, path=""):
    """C03 clause: every input property is in the output with an equal value (timestamps as instants, numbers numerically); the output
    adds at most optional properties at their specification default. Returns a list of (path, kind, expected, got)."""
    sp = model.spec(version)
    c = sp.classes.get(key) if key else None
    diffs = []
    if not isinstance(inp, dict) or not isinstance(out, dict):
        if inp != out:
            diffs.append((path, "value", inp, out))
        return diffs
    props = c["properties"] if c else {}
    for name, v in inp.items():
        p = props.get(name)
        here = "%s.%s" % (path, name) if path else name
        if name not in out:
            diffs.append((here, "lost", v, None))
            continue
        diffs.extend(value_diff(v, out[name], version, p, here))
    for name, v in out.items():
        if name in inp:
            continue
        p = props.get(name)
        here = "%s.%s" % (path, name) if path else name
        ok = False
        if p is not None and "default" in p and not isinstance(p["default"], str) and v == p["default"]:
            ok = True
        if name == "spec_version" and v == "2.1":
            ok = True
        if name == "pattern_version" and inp.get("pattern_type") == "stix":
            ok = True
        if not ok:
            diffs.append((here, "added", None, v))
    return diffs


def value_diff(v, o, version, p, here):
    k = p["kind"] if p else None
    if k == "timestamp":
        a, b = tsfmt.instant_of(v) if isinstance(v, str) else None, tsfmt.instant_of(o) if isinstance(o, str) else None
        return [] if (a is not None and a == b) else [(here, "timestamp-instant", v, o)]
    if k == "list":
        if not isinstance(o, list) or len(o) != len(v):
            return [(here, "list-shape", v, o)]
        out = []
        for i, (x, y) in enumerate(zip(v, o)):
            out.extend(value_diff(x, y, version, p["of"], "%s[%d]" % (here, i)))
        return out
    if k == "embedded":
        return subset_diff(v, o, version, p["class"], here)
    if k == "extensions":
        out = []
        if not isinstance(o, dict):
            return [(here, "value", v, o)]
        for ek, ev in v.items():
            if ek not in o:
                out.append(("%s.%s" % (here, ek), "lost", ev, None))
            else:
                out.extend(subset_diff(ev, o[ek], version, "extensions:" + ek if "extensions:" + ek in model.spec(version).classes else None, "%s.%s" % (here, ek)))
        for ek in o:
            if ek not in v:
                out.append(("%s.%s" % (here, ek), "added", None, o[ek]))
        return out
    if k == "observables":
        out = []
        if not isinstance(o, dict) or set(o) != set(v):
            return [(here, "container-keys", sorted(v), sorted(o) if isinstance(o, dict) else o)]
        for mk, mv in v.items():
            out.extend(subset_diff(mv, o[mk], version, "observables:" + mv.get("type", "?") if "observables:" + mv.get("type", "?") in model.spec(version).classes else None, "%s.%s" % (here, mk)))
        return out
    if k == "stixobject":
        ver = "2.1" if isinstance(v, dict) and v.get("spec_version") == "2.1" else version
        return subset_diff(v, o, ver, model.spec(ver).key_for_type(v.get("type")) if isinstance(v, dict) else None, here)
    if k in ("integer", "float") or (isinstance(v, (int, float)) and not isinstance(v, bool)):
        return [] if num_eq(v, o) and (isinstance(v, bool) == isinstance(o, bool)) else [(here, "number", v, o)]
    if k and k.startswith("opaque"):
        return [] if v == o else [(here, "value", v, o)]
    return [] if (v == o and type(v) is type(o)) else [(here, "value", v, o)]


# ---- selector paths (shared by C03 and C08) ---------------------------------------------------------------
SELECTOR_STEP = re.compile(r"^[a-z0-9_-]{1,250}\Z")


def selector_paths(v):
    """every path into a JSON object that the selector syntax can spell: (selector text, value, features)"""
    out = []

    def walk(x, steps, feats, root=False):
        if isinstance(x, dict):
            for k, y in x.items():
                if not SELECTOR_STEP.match(k) or (not steps and len(k) < 3):
                    continue
                s = steps + [k]
                f = set(feats) if root else feats | {"through-object"}
                out.append((".".join(s), y, set(f)))
                walk(y, s, f)
        elif isinstance(x, list):
            for i, y in enumerate(x):
                s = steps + ["[%d]" % i]
                f = feats | {"through-list"}
                if any(x[j] == y for j in range(i)):
                    f = f | {"repeated-list-element"}
                out.append((".".join(s), y, set(f)))
                walk(y, s, f)
    walk(v, [], set(), root=True)
    return out


def resolves(v, sel):
    cur = v
    for step in sel.split("."):
        if step.startswith("[") and step.endswith("]"):
            try:
                i = int(step[1:-1])
            except ValueError:
                return False
            if not isinstance(cur, list) or not (0 <= i < len(cur)):
                return False
            cur = cur[i]
        else:
            if not isinstance(cur, dict) or step not in cur:
                return False
            cur = cur[step]
    return True


# ---- typed slots (shared by C02, C04 and C17) -----------------------------------------------------------------
def typed_slots(j, version, key, path=()):
    """walks a JSON instance along the frozen model: yields (path, value, property descriptor, owning class key, property name)
    for every property position, recursively through lists, embedded objects, extensions, containers and bundle members"""
    sp = model.spec(version)
    c = sp.classes.get(key)
    if c is None or not isinstance(j, dict):
        return
    for name, v in j.items():
        p = c["properties"].get(name)
        if p is None:
            continue
        here = path + (name,)
        yield here, v, p, key, name
        for r in _descend(v, p, version, here):
            yield r


def _descend(v, p, version, here):
    sp = model.spec(version)
    k = p["kind"]
    if k == "list" and isinstance(v, list):
        for i, x in enumerate(v):
            yield here + (i,), x, p["of"], None, None
            for r in _descend(x, p["of"], version, here + (i,)):
                yield r
    elif k == "embedded" and isinstance(v, dict):
        for r in typed_slots(v, version, p["class"], here):
            yield r
    elif k == "extensions" and isinstance(v, dict):
        for ek, ev in v.items():
            if "extensions:" + ek in sp.classes:
                for r in typed_slots(ev, version, "extensions:" + ek, here + (ek,)):
                    yield r
    elif k == "observables" and isinstance(v, dict):
        for mk, mv in v.items():
            if isinstance(mv, dict) and "observables:" + str(mv.get("type")) in sp.classes:
                for r in typed_slots(mv, version, "observables:" + mv["type"], here + (mk,)):
                    yield r
    elif k == "stixobject" and isinstance(v, dict):
        ver = "2.1" if v.get("spec_version") == "2.1" else version
        kk = model.spec(ver).key_for_type(v.get("type"))
        if kk:
            for r in typed_slots(v, ver, kk, here):
                yield r
    elif k.startswith("opaque") and isinstance(v, dict):
        for kk, vv in v.items():
            yield here + (kk,), vv, {"kind": "string"}, None, kk
