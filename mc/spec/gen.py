"""Generators derived from the frozen specification model: valid instances (minimal, maximal, minimal + one optional x value
alphabet, pairs), slot paths, value alphabets. No import of stix2. Only unambiguously valid content is produced (DESIGN 2.4)."""
import copy
import itertools

from mc.spec import model

U = "3f7f0c5f-5d54-4292-94ea-ec1e1952be"
TS = "2016-05-12T08:17:27.000Z"
TS_LATE = "2017-05-12T08:17:27.000Z"
LATER = {"last_seen", "stop_time", "valid_until", "end", "last_observed", "analysis_ended", "validity_not_after", "private_key_usage_period_not_after", "modified",
         "account_last_login", "mtime", "atime", "accessed"}
HASHES = {"MD5": "d41d8cd98f00b204e9800998ecf8427e", "SHA-1": "da39a3ee5e6b4b0d3255bfef95601890afd80709",
          "SHA-256": "e3b0c44298fc1c149afbf4c8996fb92427ae41e4649b934ca495991b7852b855",
          "SHA-512": "cf83e1357eefb8bdf1542850d66d8007d620e4050b5715dc83f4a921d36ce9ce47d0d13c5d85f2b0ff8318d2877eec2f63b931bd47417a81a538327af927da3e",
          "SHA3-256": "a7ffc6f8bf1ed76651c14756a061d662f580ff4de43b49fa82d80a4b80f8434a",
          "SHA3-512": "a69f73cca23a9ac5c8b567dc185a756e97c982164fe25859e0d1dcc1475c80a615b2123af1f5f94c11e3e9402c3ac558f500199d95b6d3e301758586281dcd26",
          "SSDEEP": "3:AXGBicFlgVNhBGcL6wCrFQEv:AXGHsNhxLsr2C", "ssdeep": "3:AXGBicFlgVNhBGcL6wCrFQEv:AXGHsNhxLsr2C", "TLSH": "0a" * 35,
          "SHA-224": "d14a028c2a3a2bc9476102bb288234c415a2b01f828ea62ac5b3e42f", "SHA-384": "38b060a751ac96384cd9327eb1b1e36a21fdb71114be07434c0cc7bf63f6e1da274edebfe76f65fbd51ad2f14898b95b",
          "SHA3-224": "6b4e03423667dbb73b6e15454f0eb1abd4597f9a1b078e3f5b5a6bc7", "SHA3-384": "0c63a75b845e4f7d01107d852e4c2485c51a50aaaa94fc61995e71bbee983a2ac3713831264adb47fb6bd1e058d5f004",
          "RIPEMD-160": "9c1185a5c5e9fc54612808977ee8f548b2258d31", "WHIRLPOOL": "19fa61d75522a4669b44e39c1d2e1726c530232130d407f89afee0964997f7a73e83be698b288febcf88e3e03c4f0757ea8964e59b63d93708b138cc42a66eb3",
          "MD6": "bca38b24a804aa37d821d31af00f5598230122c5bbfc4c4ad5ed40e4258f04ca"}
# strings whose value has a format of its own: exactly one conservative valid value, no alphabet expansion
SPECIAL_STR = {"lang": "en", "country": "us", "mime_type": "text/plain", "content_type": "text/plain", "cpe": "cpe:2.3:a:microsoft:word:2000:*:*:*:*:*:*:*",
               "pattern": "[ipv4-addr:value = '198.51.100.3']", "pattern_version": "2.1", "relationship_type": "uses", "schema": "https://example.com/schema.json",
               "version": "1.0.0", "content_disposition": "inline", "swid": "swid-tag", "url": "https://example.com/a", "path_enc": "windows-1252", "name_enc": "windows-1252",
               "definition_type": "statement", "spec_version": None, "tlp": "white", "region": "europe", "rir": "ARIN", "imphash": "d41d8cd98f00b204e9800998ecf8427e"}
VALUE_BY_TYPE = {"ipv4-addr": "198.51.100.3", "ipv6-addr": "2001:db8::1", "mac-addr": "d2:fb:49:24:37:18", "domain-name": "example.com", "url": "https://example.com/a",
                 "email-addr": "a@example.com"}
FREE_STRINGS = ["a", "", "Ünï 😀 \u0000\n\"\\ /", "name"]


def uid(t, n=1):
    return "%s--%s%02d" % (t, U, n)


# constraint hints: what minimal needs beyond `required`, what maximal must leave out, what a deviation drags along
MIN_EXTRA = {
    "embedded:ExternalReference": ["url"], "embedded:GranularMarking": ["marking_ref"], "objects:location": ["region"], "objects:malware-analysis": ["result"],
    ("2.1", "objects:observed-data"): ["object_refs"], "objects:marking-definition": ["definition_type", "definition"], "observables:artifact": ["payload_bin"],
    "embedded:EmailMIMEComponent": ["body"], ("2.1", "observables:file"): ["name"], ("2.0", "observables:file"): ["name"], "observables:network-traffic": ["src_ref"],
    "observables:process": ["pid"], "observables:x509-certificate": ["serial_number"], "embedded:WindowsPEOptionalHeaderType": ["magic_hex"], "extensions:ntfs-ext": ["sid"],
    "extensions:pdf-ext": ["version"], "extensions:raster-image-ext": ["image_height"], "extensions:tcp-ext": ["src_flags_hex"], "extensions:windows-process-ext": ["aslr_enabled"],
    ("2.1", "extensions:windows-service-ext"): ["service_name"], "extensions:unix-account-ext": ["gid"], ("2.1", "observables:windows-registry-key"): ["key"],
    ("2.1", "observables:user-account"): ["user_id"],
}
MAX_DROP = {
    "embedded:GranularMarking": ["lang"], ("2.1", "objects:observed-data"): ["objects"], "observables:artifact": ["url"], "observables:email-message": ["body"],
    ("2.0", "observables:network-traffic"): ["encapsulates_by_ref"], "objects:extension-definition": ["extension_properties"],
    "objects:marking-definition": ["extensions"],
}
# when `prop` is added to / set on a valid base: other properties to set ({...}) or to drop ([...])
DRAGS = {
    ("objects:location", "latitude"): ({"longitude": 2.5}, []), ("objects:location", "longitude"): ({"latitude": 2.5}, []),
    ("objects:location", "precision"): ({"latitude": 2.5, "longitude": 2.5}, []),
    ("observables:artifact", "url"): ({"hashes": {"SHA-256": HASHES["SHA-256"]}}, ["payload_bin"]),
    ("observables:email-message", "body_multipart"): ({"is_multipart": True}, ["body"]), ("observables:email-message", "body"): ({"is_multipart": False}, ["body_multipart"]),
    ("observables:network-traffic", "end"): ({"is_active": False}, []),
    ("objects:observed-data", "objects"): ({}, ["object_refs"]), ("objects:observed-data", "object_refs"): ({}, ["objects"]),
    ("embedded:GranularMarking", "lang"): ({}, ["marking_ref"]), ("embedded:GranularMarking", "marking_ref"): ({}, ["lang"]),
    ("objects:extension-definition", "extension_properties"): ({"extension_types": ["toplevel-property-extension"]}, []),
    ("observables:file", "encryption_algorithm"): ({"is_encrypted": True}, []), ("observables:file", "decryption_key"): ({"is_encrypted": True}, []),
}


class Gen(object):
    def __init__(self, version):
        self.version = version
        self.sp = model.spec(version)

    def hint(self, table, key):
        return table.get((self.version, key)) or table.get(key) or []

    # ---- single values ---------------------------------------------------------------------------------
    def ref_targets(self, p):
        sp = self.sp
        out = list(p["types"]) if p["auth"] == "allow" else []
        if p["auth"] == "allow":
            for c in p["classes"]:
                out += [t for t in (sp.objects + sp.observables) if sp.type_class(t) == c]
        else:
            out = [t for t in sp.objects + (sp.observables if self.version == "2.1" else []) if t not in p["types"] and sp.type_class(t) in ("SDO", "SCO") and sp.type_class(t) not in p["classes"]]
        seen, res = set(), []
        for t in out:
            if t not in seen:
                seen.add(t)
                res.append(t)
        return res

    def first(self, name, p, key, mode, depth=0):
        k = p["kind"]
        if "fixed" in p:
            return p["fixed"]
        if k == "list":
            return [self.first(name, p["of"], key, mode, depth)]
        if k == "type":
            return p.get("fixed")
        if k == "id":
            return uid(self.sp.classes[key]["type"], 1)
        if k in ("string", "pattern"):
            if name == "value" and key.split(":")[1] in VALUE_BY_TYPE:
                return VALUE_BY_TYPE[key.split(":")[1]]
            if name in SPECIAL_STR and SPECIAL_STR[name] is not None:
                return SPECIAL_STR[name]
            if name == "protocols":
                return "tcp"
            return "s"
        if k == "selector":
            return "type" if key != "embedded:GranularMarking" or True else "id"
        if k == "openvocab":
            return p["suggested"][0] if p["suggested"] else "other"
        if k == "enum":
            return p["allowed"][0]
        if k == "integer":
            return p["min"] if "min" in p else 0
        if k == "float":
            return float(p["min"]) if "min" in p else 0.5
        if k == "boolean":
            return False
        if k == "timestamp":
            base = TS_LATE if name in LATER else TS
            if p.get("fraction") == "second-exact":
                return base.replace(".000Z", "Z")
            return base
        if k == "dictionary":
            if name == "options":
                return {"SO_KEEPALIVE": 1}
            if name == "contents":
                return {"de": {"name": "ein Name"}}
            return {"key": "v"}
        if k == "hashes":
            alg = "MD5"
            return {alg: HASHES[alg]}
        if k == "binary":
            return "YQ=="
        if k == "hex":
            return "ab"
        if k == "ref":
            return uid(self.ref_targets(p)[0], 2)
        if k == "objref":
            return {"$objref": (p.get("allow_types") or ["file"])[0]}
        if k == "embedded":
            return self.build(p["class"], mode if depth < 2 else "min", depth + 1)
        if k == "extensions":
            return None
        if k == "observables":
            return self.container()
        if k == "stixobject":
            return self.minimal("objects:identity")
        if k.startswith("opaque:MarkingProperty"):
            return {"statement": "Copyright 2019, Example Corp"}
        raise ValueError("no sample for kind %s" % k)

    def container(self):
        """observed-data `objects`: two members with an intra-container reference"""
        if self.version == "2.0":
            return {"0": {"type": "ipv4-addr", "value": "198.51.100.3"}, "1": {"type": "domain-name", "value": "example.com", "resolves_to_refs": ["0"]}}
        return {"0": {"type": "ipv4-addr", "spec_version": "2.1", "id": uid("ipv4-addr", 3), "value": "198.51.100.3"},
                "1": {"type": "domain-name", "spec_version": "2.1", "id": uid("domain-name", 4), "value": "example.com", "resolves_to_refs": [uid("ipv4-addr", 3)]}}

    # ---- objects ---------------------------------------------------------------------------------------
    def build(self, key, mode, depth=0):
        c = self.sp.classes[key]
        extra, drop = self.hint(MIN_EXTRA, key), self.hint(MAX_DROP, key)
        d = {}
        top = c["category"] in ("objects", "bundle") or (c["category"] == "observables" and self.version == "2.1")
        for name, p in c["properties"].items():
            want = p.get("required") or "fixed" in p or name in extra or (mode == "max" and name not in drop)
            if top and name in ("id", "created", "modified") and name in c["properties"]:
                want = True
            if name == "valid_from":
                want = True
            if not want:
                continue
            if p["kind"] == "extensions":
                if mode == "max" and c["category"] == "observables":
                    exts = {}
                    for e in model.EXT_HOSTS.get(c["type"], []):
                        if "extensions:" + e in self.sp.classes:
                            exts[e] = self.build("extensions:" + e, "max", depth + 1)
                    if exts:
                        d[name] = exts
                continue
            if name == "granular_markings":
                if mode == "max":
                    d[name] = [{"marking_ref": uid("marking-definition", 9), "selectors": ["type"]}]
                continue
            v = self.first(name, p, key, mode, depth)
            if v is None:
                continue
            d[name] = v
        # class-specific adjustments that make the maximal instance satisfy the co-constraints
        if key == "observables:email-message" and mode == "max":
            d["is_multipart"] = True
        if key == "objects:malware" and mode == "max" and self.version == "2.1":
            d["is_family"] = True
        if key == "observables:network-traffic" and mode == "max":
            d["is_active"] = False
        if key == "observables:file" and mode == "max" and self.version == "2.0":
            d["is_encrypted"] = True
        if key == "objects:location" and mode == "max":
            d["latitude"], d["longitude"] = 48.85, 2.35
        if key == "objects:indicator" and self.version == "2.1":
            d.setdefault("pattern_type", "stix")
        if key == "objects:marking-definition":
            d["definition_type"], d["definition"] = "statement", {"statement": "Copyright 2019, Example Corp"}
        if key == "objects:extension-definition":
            d["created_by_ref"] = uid("identity", 2)
        if key == "objects:bundle" and mode == "max" and self.version == "2.1":
            d["objects"] = [self.minimal("objects:identity"), self.minimal("observables:ipv4-addr")]
        if key == "objects:language-content":
            d["object_ref"] = uid("campaign", 2)
        return d

    def minimal(self, key):
        return self.build(key, "min")

    def maximal(self, key):
        return self.build(key, "max")

    # ---- alphabets -------------------------------------------------------------------------------------
    def alphabet(self, name, p, key):
        """all legal value shapes of a property (simplest first)"""
        k = p["kind"]
        if "fixed" in p:
            return [p["fixed"]]
        if k == "list":
            of = p["of"]
            if of["kind"] in ("embedded",):
                a, b = self.build(of["class"], "min", 1), self.build(of["class"], "max", 1)
                return [[a], [a, b]]
            vals = self.alphabet(name, of, key)
            out = [[v] for v in vals]
            if of["kind"] in ("string", "openvocab") and len(vals) >= 1:
                out.append([vals[0], vals[0]])
            if of["kind"] == "string" and vals == list(FREE_STRINGS):
                out.append(["e%02d" % i for i in range(12)])      # a list long enough for two-digit indices
            if len(vals) >= 3:
                out.append(vals[:3])
            return out
        if k in ("string",):
            if (name == "value" and key.split(":")[1] in VALUE_BY_TYPE) or name in SPECIAL_STR or name == "protocols":
                return [self.first(name, p, key, "min")]
            return list(FREE_STRINGS)
        if k == "pattern":
            return [SPECIAL_STR["pattern"], "[file:hashes.'SHA-256' = '" + HASHES["SHA-256"] + "'] FOLLOWEDBY [domain-name:value LIKE 'a%'] WITHIN 5 SECONDS"]
        if k == "selector":
            return ["type"]
        if k == "openvocab":
            return list(p["suggested"]) + ["other-value"]
        if k == "enum":
            return list(p["allowed"])
        if k == "integer":
            lo, hi = p.get("min"), p.get("max")
            out = [lo if lo is not None else 0, 1]
            out.append(hi if hi is not None else 2 ** 53 + 1)
            if hi is None:
                out.append(2 ** 60)          # 1.15e18: between 1e16 and 1e21, where number canonicalisation has a branch of its own
            if lo is None:
                out.append(-1)
            return sorted(set(out), key=lambda x: (abs(x), x))
        if k == "float":
            lo, hi = p.get("min"), p.get("max")
            out = [0.5, 0.0, 1.5, 1]
            out += [float(lo)] if lo is not None else [-2.5]
            out += [float(hi)] if hi is not None else [1e22, 5e-324, 2.5e16]
            return [x for i, x in enumerate(out) if x not in out[:i] and (lo is None or x >= lo) and (hi is None or x <= hi)]
        if k == "boolean":
            return [False, True]
        if k == "timestamp":
            y = "2017" if name in LATER else "2016"
            fr = p.get("fraction", "any")
            if fr == "exact3":
                return [y + "-05-12T08:17:27.000Z", y + "-02-28T23:59:59.999Z"]
            if fr == "min3":
                return [y + "-05-12T08:17:27.000Z", y + "-05-12T08:17:27.123456Z", y + "-05-12T08:17:27.1234567Z", y + "-05-12T08:17:27.120Z"]
            if fr == "second-exact":
                return [y + "-05-12T08:17:27Z"]
            return [y + "-05-12T08:17:27Z", y + "-05-12T08:17:27.000Z", y + "-05-12T08:17:27.5Z", y + "-05-12T08:17:27.123456Z", y + "-05-12T08:17:27.1234567Z",
                    y + "-05-12T08:17:27.999999Z", y + "-02-28T23:59:59Z"]
        if k == "dictionary":
            if name in ("options", "contents"):
                return [self.first(name, p, key, "min")]
            return [{"key": "v"}, {"key": {"nested": 1}}, {"name": "v", "key2": 2}, {"key": {"nested": 1}, "key-extra": "v", "key_0": 0}]
        if k == "hashes":
            algs = [a for a in self.sp.hash_algorithms if a in HASHES]
            out = [{a: HASHES[a]} for a in algs]
            if len(algs) >= 2:
                out.append({algs[1]: HASHES[algs[1]], algs[0]: HASHES[algs[0]]})
            return out
        if k == "binary":
            return ["YQ==", "YWJj" * 19]
        if k == "hex":
            return ["00", "AbCd"]
        if k == "ref":
            return [uid(t, 2) for t in self.ref_targets(p)]
        if k == "objref":
            return [{"$objref": t} for t in (p.get("allow_types") or ["file"])]
        if k == "embedded":
            return [self.build(p["class"], "min", 1), self.build(p["class"], "max", 1)]
        if k == "observables":
            return [self.container()]
        if k == "stixobject":
            return [self.minimal("objects:identity")]
        return []

    def with_prop(self, key, base, name, value):
        """base + {name: value}, dragging along what the co-constraints require"""
        d = copy.deepcopy(base)
        d[name] = copy.deepcopy(value)
        sets, drops = DRAGS.get((key, name), ({}, []))
        for k, v in sets.items():
            d[k] = copy.deepcopy(v)
        for k in drops:
            d.pop(k, None)
        if key == "objects:malware" and name == "is_family" and value is True:
            d.setdefault("name", "family")
        # ordering partners: keep first <= last by moving the partner onto the same instant family
        return d

    def optional_props(self, key):
        c = self.sp.classes[key]
        out = []
        for name, p in c["properties"].items():
            if "fixed" in p or p["kind"] in ("type", "id", "extensions") or name in ("spec_version",):
                continue
            if name == "granular_markings":
                continue
            if p["kind"].startswith("opaque"):
                continue
            out.append(name)
        return out

    def instances(self, key, pairs=False):
        """(label, instance) for one class: minimal, maximal, minimal + each property x alphabet, optional pairs"""
        c = self.sp.classes[key]
        mn, mx = self.minimal(key), self.maximal(key)
        yield ("min", mn)
        yield ("max", mx)
        names = self.optional_props(key)
        for name in names:
            p = c["properties"][name]
            for i, v in enumerate(self.alphabet(name, p, key)):
                if name in mn and mn[name] == v:
                    continue
                if key == "objects:marking-definition" and name in ("definition_type", "definition"):
                    continue
                yield ("min+%s#%d" % (name, i), self.with_prop(key, mn, name, v))
        if c["category"] == "observables":
            for e in model.EXT_HOSTS.get(c["type"], []):
                if "extensions:" + e in self.sp.classes:
                    yield ("min+ext:%s:min" % e, dict(copy.deepcopy(mn), extensions={e: self.build("extensions:" + e, "min", 1)}))
                    yield ("min+ext:%s:max" % e, dict(copy.deepcopy(mn), extensions={e: self.build("extensions:" + e, "max", 1)}))
        if self.version == "2.1" and c["category"] in ("objects", "observables") and "extensions" in c["properties"] and key != "objects:marking-definition":
            # extension-definition extensions (STIX 2.1 section 7.3) that are NOT registered with the library
            pe = ("extension-definition--" + U + "e1", {"extension_type": "property-extension", "rank": 5, "toxicity": 0})
            te = ("extension-definition--" + U + "e2", {"extension_type": "toplevel-property-extension"})
            tl = {"ext_rank": 5, "ext_flag": False}
            yield ("min+extdef:prop", dict(copy.deepcopy(mn), extensions=dict([pe])))
            yield ("min+extdef:top", dict(copy.deepcopy(mn), extensions=dict([te]), **tl))
            yield ("min+extdef:top+prop", dict(copy.deepcopy(mn), extensions=dict([te, pe]), **tl))
            yield ("min+extdef:prop+top", dict(copy.deepcopy(mn), extensions=dict([pe, te]), **tl))
        if pairs:
            opt = [n for n in names if n not in mn]
            for a, b in itertools.combinations(opt, 2):
                pa, pb = c["properties"][a], c["properties"][b]
                va, vb = self.alphabet(a, pa, key), self.alphabet(b, pb, key)
                if not va or not vb:
                    continue
                d = self.with_prop(key, mn, a, va[0])
                d = self.with_prop(key, d, b, vb[0])
                if (key, a) in DRAGS and b in DRAGS[(key, a)][1] or (key, b) in DRAGS and a in DRAGS[(key, b)][1]:
                    continue
                yield ("min+%s+%s" % (a, b), d)

    # ---- 2.0 observable context ------------------------------------------------------------------------
    def resolve_objrefs(self, obj):
        """Turns {'$objref': type} placeholders into container keys (members are minimal instances whose own references are resolved
        into the same container). Returns the container dict; the object itself is member "0"."""
        members = {"0": None}
        counter = [0]

        def walk(x, depth):
            if isinstance(x, dict):
                if set(x) == {"$objref"}:
                    counter[0] += 1
                    k = str(counter[0])
                    members[k] = None
                    m = self.minimal("observables:" + x["$objref"])
                    members[k] = walk(m, depth + 1) if depth < 3 else {kk: v for kk, v in m.items() if "$objref" not in repr(v)}
                    return k
                return {kk: walk(v, depth) for kk, v in x.items()}
            if isinstance(x, list):
                return [walk(v, depth) for v in x]
            return x
        members["0"] = walk(copy.deepcopy(obj), 0)
        return members

    def observed_data_with(self, container):
        od = self.minimal("objects:observed-data")
        od.pop("object_refs", None)
        od["objects"] = container
        return od

    # ---- slot paths ------------------------------------------------------------------------------------
    def top_keys(self):
        return [k for k, c in self.sp.classes.items() if c["category"] in ("objects", "observables")]


def slot_paths(v, prefix=()):
    """every position of a JSON value: yields (path tuple, value) for the value itself and, recursively, for members / elements"""
    yield prefix, v
    if isinstance(v, dict):
        for k, x in v.items():
            for r in slot_paths(x, prefix + (k,)):
                yield r
    elif isinstance(v, list):
        for i, x in enumerate(v):
            for r in slot_paths(x, prefix + (i,)):
                yield r


def get_path(v, path):
    for s in path:
        v = v[s]
    return v


def set_path(v, path, value):
    v = copy.deepcopy(v)
    cur = v
    for s in path[:-1]:
        cur = cur[s]
    cur[path[-1]] = value
    return v


def del_path(v, path):
    v = copy.deepcopy(v)
    cur = v
    for s in path[:-1]:
        cur = cur[s]
    del cur[path[-1]]
    return v
