#!/bin/bash
# usage: tools/seed_matrix.sh [seeded/Cxx-k ...]
# runs confirmed seeds (default: all) against the check of their own property (tier $SEED_TIER, default quick); rewrites their rows in seeded/RESULTS.tsv
cd /verif
touch seeded/RESULTS.tsv
DIRS="$@"; [ -z "$DIRS" ] && DIRS=$(ls -d seeded/C??-[0-9]* | sort -V)
for d in $DIRS; do
  d=${d%/}
  ID=$(basename $d | cut -d- -f1)
  R=$(tools/seedrun.sh $d/patch.diff $ID 2>&1 | tail -1)
  n=$(echo "$R" | sed -n 's/.*violations=\([0-9]*\).*/\1/p')
  keys=$(echo "$R" | sed -n 's/.*keys=\(.*\)/\1/p' | sed -E 's/: [^[]*\[[0-9]+ cases\]//g' | tr -s ' ' | cut -c1-300)
  grep -v "^$(basename $d)	" seeded/RESULTS.tsv > seeded/RESULTS.tmp; mv seeded/RESULTS.tmp seeded/RESULTS.tsv
  printf "%s\t%s\t%s\t%s\n" "$(basename $d)" "$ID" "${n:-does-not-apply}" "$keys" | tee -a seeded/RESULTS.tsv
done
sort -V -o seeded/RESULTS.tsv seeded/RESULTS.tsv
git -C /repo status --short | head -3
