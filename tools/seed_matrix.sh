#!/bin/bash
# runs every confirmed seed against the check of its own property (quick tier); writes seeded/RESULTS.tsv
cd /verif
: > seeded/RESULTS.tsv
for d in seeded/C??-?; do
  ID=$(basename $d | cut -d- -f1)
  R=$(tools/seedrun.sh $d/patch.diff $ID 2>&1 | tail -1)
  n=$(echo "$R" | sed -n 's/.*violations=\([0-9]*\).*/\1/p')
  keys=$(echo "$R" | sed -n 's/.*keys=\(.*\)/\1/p' | sed -E 's/: [^[]*\[[0-9]+ cases\]//g' | tr -s ' ' | cut -c1-300)
  printf "%s\t%s\t%s\t%s\n" "$(basename $d)" "$ID" "${n:-does-not-apply}" "$keys" | tee -a seeded/RESULTS.tsv
done
git -C /repo status --short | head -3
