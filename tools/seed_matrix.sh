#!/bin/bash
# usage: tools/seed_matrix.sh [seeded/Cxx-k ...]
# runs confirmed seeds (default: all) against the check of their own property (tier $SEED_TIER, default quick); rewrites their rows in seeded/RESULTS.tsv
cd /verif
RES="${SEED_RESULTS:-seeded/RESULTS.tsv}"
touch "$RES"
DIRS="$@"; [ -z "$DIRS" ] && DIRS=$(ls -d seeded/C??-[0-9]* | sort -V)
for d in $DIRS; do
  d=${d%/}
  ID=$(basename $d | cut -d- -f1)
  R=$(tools/seedrun.sh $d/patch.diff $ID 2>&1 | tail -1)
  n=$(echo "$R" | sed -n 's/.*violations=\([0-9]*\).*/\1/p')
  keys=$(echo "$R" | sed -n 's/.*keys=\(.*\)/\1/p' | sed -E 's/: [^[]*\[[0-9]+ cases\]//g' | tr -s ' ' | cut -c1-300)
  grep -v "^$(basename $d)	" "$RES" > "$RES.tmp"; mv "$RES.tmp" "$RES"
  printf "%s\t%s\t%s\t%s\n" "$(basename $d)" "$ID" "${n:-does-not-apply}" "$keys" | tee -a "$RES"
done
sort -V -o "$RES" "$RES"
git -C "${SEED_REPO:-/repo}" status --short | head -3
