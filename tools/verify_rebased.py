#!/usr/bin/env python3
"""Re-confirms every seeded/<id>/patch-rebased.diff against the CURRENT /repo HEAD in a scratch worktree (never /repo itself):
demo passes on the clean tree, fails with the rebased patch, every BASELINE stable_pass test still passes. Removes the worktree afterwards."""
import glob, json, os, subprocess, sys, tempfile, xml.etree.ElementTree as ET
BASE = set(json.load(open('/root/.vp/BASELINE.json'))['stable_pass'])
PY = '/venv/bin/python'
def sh(cmd, cwd, env=None):
    e = dict(os.environ); e.update(env or {})
    return subprocess.run(cmd, cwd=cwd, env=e, capture_output=True, text=True)
wt = tempfile.mkdtemp(prefix='rebased-', dir='/tmp')
os.rmdir(wt)
sh(['git', 'worktree', 'add', '--detach', wt, 'HEAD'], '/repo')
try:
    only = set(sys.argv[1:])
    for pth in sorted(glob.glob('/verif/seeded/*/patch-rebased.diff')):
        if only and os.path.basename(os.path.dirname(pth)) not in only:
            continue
        d = os.path.dirname(pth)
        sh(['git', 'checkout', '--', '.'], wt)
        rc0 = sh([PY, '-B', os.path.join(d, 'demo.py')], wt, {'PYTHONPATH': wt}).returncode
        ap = sh(['git', 'apply', pth], wt)
        rc1 = sh([PY, '-B', os.path.join(d, 'demo.py')], wt, {'PYTHONPATH': wt}).returncode
        out = tempfile.mktemp(suffix='.xml', dir='/dev/shm')
        sh([PY, '-B', '-m', 'pytest', '-q', '-p', 'no:cacheprovider', '--timeout=900', '--continue-on-collection-errors', '--junitxml=' + out], wt, {'PYTHONPATH': wt})
        passed = set()
        for tc in ET.parse(out).getroot().iter('testcase'):
            if not any(ch.tag in ('failure', 'error', 'skipped') for ch in tc):
                passed.add('%s::%s' % (tc.get('classname'), tc.get('name')))
        os.unlink(out)
        missing = sorted(BASE - passed)
        ok = ap.returncode == 0 and rc0 == 0 and rc1 != 0 and not missing
        print('%s %s applies=%s demo clean=%d patched=%d baseline-tests-lost=%d %s' % (os.path.basename(d), 'CONFIRMED' if ok else 'REJECTED', ap.returncode == 0, rc0, rc1, len(missing), missing[:3]), flush=True)
        if ok:
            m = json.load(open(os.path.join(d, 'meta.json')))
            m['rebased_confirmed_on'] = sh(['git', 'rev-parse', '--short', 'HEAD'], wt).stdout.strip()
            json.dump(m, open(os.path.join(d, 'meta.json'), 'w'), indent=1)
finally:
    sh(['git', 'worktree', 'remove', '--force', wt], '/repo')
    sh(['git', 'worktree', 'prune'], '/repo')
