#!/usr/bin/env python3
"""Mechanical single-token mutants of the anchored library files, as a cheap additional source of property-breaking changes (next to the sub-agents' seeds):
    tools/mutants.py [stix2/file.py ...]        (default: every file named by an anchor in properties.jsonl)
Works in its own scratch worktree of /repo HEAD (/tmp/mutrepo, removed at the end), never in /repo; evidence / replays of these runs go to /dev/shm (VERIF_OUT).
For each mutant: the quick checks of the properties anchored in that file (plus those whose seeds touched it) run, cheapest first, until one reports a VIOLATION.
Only for mutants NO check reports the pinned test suite is run as well: a mutant the suite kills is not a 'change that passes the existing tests'; one that survives
both is either an equivalent mutant, outside the 20 properties, or a gap - those rows are what to read. Resumable: rows already in seeded/MUTANTS.tsv are skipped."""
import collections, glob, io, json, os, subprocess, sys, tempfile, tokenize, xml.etree.ElementTree as ET

V = '/verif'
WT = '/tmp/mutrepo'
OUTF = os.path.join(V, 'seeded', 'MUTANTS.tsv')
PY = '/venv/bin/python'
COST = {'C20': 1, 'C10': 2, 'C06': 2, 'C04': 3, 'C14': 3, 'C13': 3, 'C16': 3, 'C01': 5, 'C03': 6, 'C05': 6, 'C02': 10, 'C19': 11, 'C09': 13, 'C12': 15, 'C08': 17, 'C17': 19, 'C15': 22, 'C11': 23,
        'C18': 23, 'C07': 35}
SWAP = {'<': ['<='], '<=': ['<'], '>': ['>='], '>=': ['>'], '==': ['!='], '!=': ['=='], 'and': ['or'], 'or': ['and'], 'True': ['False'], 'False': ['True']}
BASE = set(json.load(open('/root/.vp/BASELINE.json'))['stable_pass'])


def sh(cmd, cwd=None, env=None, timeout=3600):
    e = dict(os.environ)
    e.update(env or {})
    return subprocess.run(cmd, cwd=cwd, env=e, capture_output=True, text=True, timeout=timeout)


def file_props():
    m = collections.defaultdict(set)
    for l in open(os.path.join(V, 'properties.jsonl')):
        d = json.loads(l)
        for f in d['anchors']['files']:
            m[f].add(d['id'])
    for mf in glob.glob(os.path.join(V, 'seeded', '*', 'meta.json')):
        pid = os.path.basename(os.path.dirname(mf)).split('-')[0]
        try:
            for f in json.load(open(mf)).get('files', []):
                m[f].add(pid)
        except Exception:
            pass
    for f in list(m):
        if f.startswith(("stix2/v20/", "stix2/v21/")):
            m[f].update(("C01", "C03", "C15", "C05"))      # the per-type tables are read by every property that sweeps the frozen model
    return m


def sites(src):
    out = []
    for t in tokenize.generate_tokens(io.StringIO(src).readline):
        if (t.type == tokenize.OP or t.type == tokenize.NAME) and t.string in SWAP:
            for new in SWAP[t.string]:
                out.append((t.start[0], t.start[1], t.string, new))
    return out


def mutate(src, line, col, old, new):
    lines = src.split('\n')
    l = lines[line - 1]
    assert l[col:col + len(old)] == old
    lines[line - 1] = l[:col] + new + l[col + len(old):]
    return '\n'.join(lines)


def suite_survives():
    out = tempfile.mktemp(suffix='.xml', dir='/dev/shm')
    sh([PY, '-B', '-m', 'pytest', '-q', '-p', 'no:cacheprovider', '--timeout=900', '--continue-on-collection-errors', '--junitxml=' + out], WT, {'PYTHONPATH': WT})
    passed = set()
    try:
        for tc in ET.parse(out).getroot().iter('testcase'):
            if not any(ch.tag in ('failure', 'error', 'skipped') for ch in tc):
                passed.add('%s::%s' % (tc.get('classname'), tc.get('name')))
    finally:
        if os.path.exists(out):
            os.unlink(out)
    return not (BASE - passed)


def main():
    fp = file_props()
    files = sys.argv[1:] or sorted(f for f in fp if f.endswith('.py'))
    done = set()
    if os.path.exists(OUTF):
        for l in open(OUTF):
            done.add(tuple(l.split('\t')[:4]))
    head = sh(['git', 'rev-parse', '--short', 'HEAD'], '/repo').stdout.strip()
    sh(['git', 'worktree', 'remove', '--force', WT], '/repo')
    sh(['git', 'worktree', 'add', '--detach', WT, 'HEAD'], '/repo')
    env = {'VERIF_REPO': WT, 'VERIF_OUT': '/dev/shm/mutants-out', 'VERIF_SEED': '0'}
    try:
        for f in files:
            path = os.path.join(WT, f)
            src = open(path).read()
            props = sorted(fp.get(f, []), key=lambda p: COST.get(p, 50))
            for line, col, old, new in sites(src):
                k = (f, str(line), str(col), '%s->%s' % (old, new))
                if k in done:
                    continue
                open(path, 'w').write(mutate(src, line, col, old, new))
                by, keys = '', ''
                if sh([PY, '-B', '-m', 'py_compile', path]).returncode != 0:
                    by = 'does-not-compile'
                else:
                    for p in props:
                        r = sh([os.path.join(V, 'check'), p], V, env)
                        if 'VIOLATION property=' in r.stdout:
                            by = p
                            keys = ' '.join(sorted(set(x.strip().split(':')[0] for x in r.stdout.split('\n') if x.startswith('  %s/' % p)))[:3])
                            break
                        if r.returncode not in (0, 1):
                            by, keys = p + ':harness-rc=%d' % r.returncode, (r.stdout + r.stderr)[-200:].replace('\n', ' ').replace('\t', ' ')
                            break
                suite = ''
                if not by:
                    suite = 'suite-passes' if suite_survives() else 'suite-kills'
                text = src.split('\n')[line - 1].strip()[:120].replace('\t', ' ')
                with open(OUTF, 'a') as o:
                    o.write('\t'.join(k + (by or 'NONE', suite, head, keys, text)) + '\n')
                print('\t'.join(k + (by or 'NONE', suite, keys[:80])), flush=True)
            open(path, 'w').write(src)
    finally:
        sh(['git', 'worktree', 'remove', '--force', WT], '/repo')
        sh(['git', 'worktree', 'prune'], '/repo')


if __name__ == '__main__':
    main()
