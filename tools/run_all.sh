#!/bin/bash
# usage: tools/run_all.sh [quick|thorough]   -- runs every claimed check, prints one line per check
TIER="${1:-quick}"
cd "$(dirname "$0")/.."
set -o pipefail
for ID in $(python3 -c "import json; print(' '.join(c['property_id'] for c in json.load(open('MANIFEST.json'))['checks']))"); do
  S=$(date +%s.%N)
  OUT=$(./check $ID --tier $TIER 2>&1 | grep -v conda)
  rc=$?
  E=$(date +%s.%N)
  printf "%s rc=%s wall=%.1fs known=%s viol=%s :: %s\n" "$ID" "$rc" "$(echo "$E - $S" | bc)" "$(echo "$OUT" | grep -c '^KNOWN-FINDING')" "$(echo "$OUT" | grep -c '^VIOLATION')" "$(echo "$OUT" | grep "^$ID tier" | cut -c1-150)"
done
