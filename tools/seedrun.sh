#!/bin/bash
# usage: tools/seedrun.sh <patch.diff> <ID> [<ID>...]   -- apply a seeded change to /repo, run the quick checks, always revert.
# Never leaves the tree modified. Prints one line per check: SEED <patch> <ID> rc=<rc> violations=<n> keys=...
PATCH="$(realpath "$1")"; shift
REPO="${SEED_REPO:-/repo}"   # SEED_REPO=<another worktree of /repo at the same HEAD> keeps /repo itself untouched
if [ -n "$(git -C "$REPO" status --porcelain --untracked-files=no)" ]; then echo "refusing: $REPO has uncommitted changes"; exit 2; fi
trap 'git -C "$REPO" reset -q --hard HEAD >/dev/null 2>&1; git -C /verif clean -qfX replays/ >/dev/null 2>&1' EXIT   # replays written while a seed was applied are not kept   # safe: the script refuses to start on a dirty /repo
if ! git -C "$REPO" apply "$PATCH" 2>/dev/null; then
  REB="$(dirname "$PATCH")/patch-rebased.diff"
  if [ -f "$REB" ] && git -C "$REPO" apply "$REB" 2>/dev/null; then :;
  elif ! git -C "$REPO" apply -3 "$PATCH" >/dev/null 2>&1; then git -C "$REPO" reset -q --hard HEAD; echo "SEED $PATCH does-not-apply"; exit 3;
  else git -C "$REPO" reset -q; fi   # keep the change in the working tree only
fi
TIER="${SEED_TIER:-quick}"
mkdir -p "${SEED_OUT:-/dev/shm/seed-out}/evidence" "${SEED_OUT:-/dev/shm/seed-out}/replays"   # evidence / replays of seeded runs never land in /verif
for ID in "$@"; do
  OUT=$(cd /verif && VERIF_OUT="${SEED_OUT:-/dev/shm/seed-out}" VERIF_REPO="$REPO" ./check "$ID" --tier "$TIER" 2>&1 | grep -v conda)
  rc=$?
  n=$(echo "$OUT" | grep -c '^VIOLATION')
  keys=$(echo "$OUT" | grep -E "^  $ID/" | sed -E 's/^  ([^ ]+): .*/\1/' | sort -u | head -4 | tr '\n' ' ')
  echo "SEED $(basename $(dirname $PATCH))/$(basename $PATCH) $ID violations=$n keys=$keys"
  [ -n "$SEED_VERBOSE" ] && echo "$OUT" | tail -20
done
