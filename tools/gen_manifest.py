#!/usr/bin/env python3
"""Regenerates /verif/MANIFEST.json from the table below (kept in one place so the manifest is always valid)."""
import json
import os

VERIF = os.path.dirname(os.path.dirname(os.path.abspath(__file__)))

# id -> (technique, level text, level note, design ref)   -- only checks that exist under mc/checks are claimed
CHECKS = {
    "C10": ("bounded exhaustive enumeration of pattern syntax trees (full atom product, all trees <= 3/4 leaves with every parenthesisation) against an independent reader",
            "The full product of the atom menus (12 operators x NOT x every compatible constant kind incl. escapes, astral characters, hex, binary, timestamps with trailing zeros, sets x 13 path shapes incl. quoted, indexed, reference, hyphenated-type steps), all comparison trees and all observation trees with <=3 (thorough 4) leaves over every operator assignment and every choice of redundant parentheses, qualifier placements (each kind, stacked pairs, on operand vs on group) and mixed trees are run through text -> create_pattern_object -> str (twice), a field-by-field walk of the model object, and programmatic construction from the public classes, under the 2.1 grammar and (where the third-party parser accepts the text) the 2.0 grammar. An independent reader (third-party ANTLR parse tree + own listener) must read back a structurally equal tree (modulo redundant parentheses and associative flattening); findings are delta-debugged to the smallest deviation from [x:p = 1].",
            "trusted: the stix2-patterns ANTLR grammar as the definition of a valid pattern; mc/ref/pattern_ast.py (printer/reader round trip self-consistent on the whole generated set)", "DESIGN.md §3 C10"),
    "C13": ("exhaustive exploration of operation histories (depth <= 2 over a menu of public operations) under a frame-condition monitor",
            "63 public operations (constructors, parse/parse_observable/dict_to_stix2, copy/deepcopy/serialize/canonicalize, new_version/revoke/remove_custom_stix on objects and dicts, the six marking functions on objects, dicts and as methods, bundling, ObjectFactory/Environment, MemoryStore/Source/Sink, FileSystemStore, navigation, CompositeDataSource, filters, pattern equivalence, utils) are run alone on 5 argument shapes (flat/nested, aliased, non-canonical hash spellings, library objects shared between parents, tuples) and in ordered pairs on the same inputs (quick: all pairs within an API area + a deterministic cross-area cover on 2 shapes; thorough: all 3969 pairs on all shapes); deep snapshots of every argument and of every object created earlier are compared around each call. For the maximal instance of every type of both versions and 6 objects with custom / extension properties: setattr, delattr, setitem, delitem of every property (and of nested library objects) are refused and change nothing; deepcopy is equal, same class and container-disjoint; two independently created Environments do not influence each other.",
            "trusted: snapshot function snap() in the check; aliasing into new objects is not flagged, only observed changes", "DESIGN.md §3 C13"),
    "C14": ("exhaustive differential enumeration of entry points x types x versions x identifier classes against a direct parse",
            "Every public entry point with a version parameter (dict_to_stix2, parse, parse_observable, MemoryStore/MemorySource/MemorySink construction, add (object and list form), load_from_file, FileSystemSource get/all_versions/query and FileSystemStore.get over raw files, FileSystemSink.add in dict/text/list form) x every type of both content versions x version argument {None, 2.0, 2.1} x 5 identifier classes (UUIDv4, UUIDv1, nil, non-RFC-4122 variant, malformed) x allow_custom {False, default} is compared with stix2.parse(content, allow_custom, version=version): same class or same refusal; the strict outcome is recomputed after the same content went through the relaxed mode (history independence); with no version named the library's own serialization is recognised as its version by every entry point.",
            "trusted: stix2.parse(..., version=) as reference (the parser itself is judged by C02/C03); filesystem read entries only with ids the directory layout can address", "DESIGN.md §3 C14"),
    "C06": ("bounded exhaustive enumeration of observable contents x entry forms / argument orders against an independent RFC 8785 + uuid5 recomputation",
            "All 18 SCO types of STIX 2.1 plus two harness-registered custom observables: every generated valid instance (every property x value alphabet incl. escapes, astral characters, boundary and 1e16-1e21 numbers, timestamp spellings, extensions with floats / nested lists / embedded objects; thorough: pairs), every subset of the contributing properties, 171 hash dictionaries (subsets x insertion orders x alias spellings) per hash-carrying type, each built through 8 entry forms / keyword and nested-dictionary orders and by re-parsing the own serialization without id. The id must equal type + uuid5(STIX namespace, independent canonical JSON of exactly the contributing properties of the serialized object with one hash chosen by precedence), be a fresh UUIDv4 when none is present, be unaffected by non-contributing properties, and ids <-> contributing values must be a bijection over the whole enumerated set.",
            "trusted: contributing-property lists frozen in mc/spec/stix21.json; mc/ref/jcs.py; 'else first' hash choice is order-dependent by definition, such dictionaries are not permuted", "DESIGN.md §3 C06"),
    "C04": ("bounded exhaustive enumeration of bases x injection sites x injection kinds x strictness x entry forms (1 injection, thorough 2)",
            "For the minimal and maximal instance of every type of both spec versions, every injection site found by walking the instance along the frozen model (top level, each embedded object, each registered extension, each hashes dictionary, each reference, bundle and observed-data members, extensions slots) x 14 injection kinds (x_/unknown property, custom_properties key, unregistered extension, extension-definition flavours, unknown and non-vocabulary hash algorithms, references to unregistered types and to names registered in another category, unregistered member types, unregistered top-level types with extension-definition flavours), each also nested in a bundle, x allow_custom x {constructor, parse(dict), parse(text), MemoryStore.add, FileSystemSink.add(dict|text)}, plus permissively pre-built sub-object instances given to strict and permissive parents and deep copies. Strict: refused; permissive: has_custom == (strict re-parse of the serialization is refused).",
            "trusted: site enumeration from the frozen spec model; extension-definition extensions are judged only through the equivalence (library-documented choice)", "DESIGN.md §3 C04"),
    "C17": ("exhaustive single-fault enumeration (every slot x every wrong-kind value) and bounded enumeration of arbitrary JSON parser inputs",
            "Every minimal and maximal valid instance of every type of both spec versions x every slot (recursively through lists, embedded objects, extensions, containers) x 16 junk values of another JSON kind (incl. 600-level nesting that json.loads still decodes) x both allow_custom settings through parse(dict), parse(text), constructor, parse_observable, MemoryStore.add and FileSystemSink.add (thorough: pairs of replacements on minimal bases), plus every JSON object of depth <=2 over the key alphabet {type,id,objects,spec_version,extensions,x} with every registered type name and every wrong-kind type value, top-level scalars and malformed texts. Every call must terminate and return or raise STIXError/ValueError/TypeError; registries and stores must be unchanged after a failure.",
            "trusted: instances from the frozen spec model; deep nesting that only defeats the JSON writer of a store is treated as resource exhaustion (not asserted)", "DESIGN.md §3 C17"),
    "C01": ("bounded exhaustive enumeration of objects x serialization option sets, round-trip chain followed to its fixed point",
            "Every generated valid instance of every type of both spec versions (frozen spec model; deviation bound 1, thorough 2), objects with custom properties / extensions, harness-registered custom object, observable, extension, top-level extension and marking types, bundles of all minimal objects, bundles with unregistered dicts, an observed-data container holding every 2.0 SCO, and 180 timestamp transplants (values moved between properties of different precision, as string / datetime / library value) are serialized under the 26 option sets, parsed back without naming the version and serialized again (two iterations). Clauses: strict JSON, same class and equal, byte-identical text, all option sets denote the same JSON value modulo spec-default optionals (recursive), pretty output in frozen specification order, canonical timestamps.",
            "trusted: frozen spec model for instances, key order and defaults; equality is the library's own Mapping equality plus class identity", "DESIGN.md §3 C01"),
    "C02": ("exhaustive single-fault enumeration (every slot x every corruption of its kind) against an independent validator driven by a frozen spec model",
            "For every type of both spec versions, on the minimal and the maximal valid instance, every slot (recursively through lists, embedded objects, extensions, containers) x every corruption of the menu for its kind (null, every other JSON kind, removal, out-of-range, out-of-vocabulary, 13 timestamp and 14 identifier malformations, every forbidden reference target type, dictionary-key / hash / binary / hex malformations) + object-level corruptions (unknown properties, ~60 violated co-constraints, wrong type / spec_version, bad granular markings and external references) through constructor, parse(dict) and parse(text) in strict mode, plus permissively pre-built sub-object instances handed to strict parents; thorough adds every corruption x one extra valid optional property. Whatever is accepted must serialize to JSON the frozen validator accepts.",
            "trusted: frozen validator mc/spec/model.py (MUST-level rules only, lenient where the specification is unclear; zero findings on the repository's example content); stix2patterns for patterns", "DESIGN.md §3 C02"),
    "C03": ("bounded exhaustive enumeration of specification-valid instances generated from a frozen spec model (deviation bound 1, thorough 2)",
            "For every type of STIX 2.0 and 2.1 (objects, observables, every pre-defined extension, embedded types, bundles): the minimal and maximal instance, minimal + each property x every value of its alphabet (all vocabulary entries, every legal reference target type, boundary numbers, false/0/'' values, timestamp spellings, long and repeated lists, nested dictionaries), unregistered extension-definition extensions in both orders, thorough: all pairs of optional properties; each in 3-4 entry contexts (parse(dict), parse(text), bundle member, observed-data member) and, for minimal/maximal instances, one granular-marking variant per addressable path. Strict parse must succeed and the include-optional-defaults serialization must contain every input property with an equal value (timestamps as exact instants), adding only spec-default optionals (compared recursively).",
            "trusted: frozen spec model mc/spec (bootstrapped once from the library tables, audited by hand, no stricter than the specification); generator output is re-validated by the frozen validator before use; stix2patterns for pattern syntax", "DESIGN.md §3 C03"),
    "C08": ("bounded exhaustive enumeration of objects x paths x entry points against an independent path resolver",
            "For every type of both versions the minimal and maximal instance and every generated instance storing a falsy value, equal list elements, a list with two-digit indices or hyphen-extended sibling keys: every path an independent walker finds in the JSON form (properties, list indices, nested keys, embedded objects, extensions, container members) and up to 8 kinds of near-miss paths derived from it are passed through 16 entry points (parse, constructor, get_markings/is_marked/add/set/remove/clear on the object and on its dict form); accepted <=> the walker resolves the selector.",
            "trusted: mc/spec/harness.py:selector_paths/resolves; only selectors the selector syntax can spell are asserted on object forms", "DESIGN.md §3 C08"),
    "C19": ("explicit-state BFS over registration histories on the real process-wide registries with a registry reference model in lock-step",
            "Every history of length <=2 over the full event menu (4 kinds incl. extension-definition flavours and extension_name objects x 2 spec versions x 14 name classes x 6 property-name classes; 146 events) and up to length 3 (thorough 4) over the valid/duplicate core menu is executed on the real decorators; after every event the complete registry contents are compared with the model (exactly the previous registry plus that name for that version; refusals change nothing; caller tables untouched) and every name of the menu is probed under both versions through parse, parse_observable, MarkingDefinition and extensions, together with the built-in answers. Registries are restored from a snapshot before each history.",
            "trusted: registry model and naming rules in mc/checks/c19_registration.py (only unambiguous rules asserted); states merged on the set of registered (version, category, name)", "DESIGN.md §3 C19"),
    "C05": ("explicit-state BFS over versioning histories on the real objects with the wall-clock answer as an explored environment choice",
            "From 11 start forms (2.0/2.1 SDO and SRO as object and as dict, sub-millisecond start, registered custom object, unregistered custom dict, versionable 2.1 SCO) every history of new_version/revoke/marking operations up to depth 2 over the full alphabet (change/add/remove one or two properties, required and unmodifiable and id-contributing properties incl. None values, explicit modified at 6 offsets as string and datetime) and up to depth 4 over a reduced alphabet is executed; at every clock-reading operation all 8 clock answers relative to the current modified (-1 s ... +1 s, incl. sub-precision steps) are explored. Frame invariants, exact change-set application, strict ordering of serialized instants at the version precision and the refusal rules are checked on every transition; all ordered pairs of forms are also run back to back in one process (shared module state).",
            "trusted: clock seam (module attributes replaced, answer frozen per operation); integer timestamp parser mc/ref/tsfmt.py; states merged on the serialized object text", "DESIGN.md §3 C05"),
    "C18": ("exhaustive enumeration of data partitions x attachment orders x navigation options against a union list model",
            "Every assignment of an 8-element population (3 versions of one id, related objects, creator, relationship objects in two versions and both directions) to non-empty subsets of 2 member sources x both attachment orders, the version triple over 3 members x all 6 orders, composite filters, nested composites, filesystem members, single stores incl. a self-relationship, and every get/all_versions/query/relationships/related_to/creator_of option combination through CompositeDataSource, Environment(source=), Environment(store=) is executed and compared with the de-duplicated union; the ObjectFactory.create default/argument/list_append table (2x16x81) is enumerated completely.",
            "trusted: union list model in mc/checks/c18_federation.py; navigation with composite-attached filters is not asserted (undefined)", "DESIGN.md §3 C18"),
    "C12": ("bounded exhaustive enumeration of filter sets x routes x stores against a naive reference evaluator",
            "All filter sets of size <=2 (thorough <=3) over ~50 filters (every operator on type/id incl. contradictory and repeated ones, scalar, list, timestamp in several spellings and as datetime, dotted paths, absent property) are executed on MemorySource and FileSystemSource through every route (query argument, attached, composite, nested composite, every mixed assignment for pairs) and compared with a naive evaluation over all stored objects; conjunction=intersection, route-independence, store agreement and attached-filter coverage of get/all_versions are asserted on the library's own answers.",
            "trusted: reference evaluator in mc/checks/c12_filters.py; population fixed (10 stored versions); only type-consistent filters", "DESIGN.md §3 C12"),
    "C11": ("exhaustive exploration of add-histories (operation sequences up to a depth) on both real stores against a list model",
            "Every history of length <=3 (thorough: + length 4 over 13 core events) over a menu of 23 add events (versions of one id in every order, object/dict/list/bundle/JSON-text forms, duplicate and conflicting versions, timestamp spellings, sub-millisecond neighbours, unversioned SCO, marking-definition, 2.0 object, registered custom, unregistered dicts, non-v4 UUID ids, bundlify) is executed on MemoryStore and FileSystemStore side by side with a list model in lock-step; get/all_versions/query for every id and type after every history; save_to_file/load_from_file from every state of length <=2. No state merging: every order is executed.",
            "trusted: list model + parse() as the definition of 'what went in' (C03 covers the parser); result order never compared; refusals are loud and pin the model (DESIGN §3 C11)", "DESIGN.md §3 C11"),
    "C07": ("explicit-state BFS over marking-operation histories on the real objects, set model in lock-step, canonical-state de-duplication",
            "From the unmarked object of each kind (2.0 SDO, 2.1 SDO, 2.1 SRO, plain dict) every history of add/remove/set/clear events of length <=3 over the event alphabet (selector options incl. string-prefix siblings, list parent/child, nested, multi-selector, empty; marking refs, language markings, duplicates, marking objects; flag variants) is executed with the set-of-(selector,marking) model in lock-step; in every reached state all get_markings/is_marked queries x flag combinations are compared with the model and with each other; layout variants and every directly constructed state with <=2 pairs (incl. the non-versionable 2.1 marking-definition) are explored as well. States are merged on (kind, pair set).",
            "trusted: mc/ref/markset.py; canonicalisation argument in DESIGN §3 C07 K; selectors through embedded objects are blocked by the C08 defect on object forms (counted in evidence notes)", "DESIGN.md §3 C07"),
    "C15": ("bounded exhaustive enumeration (deviation-bounded, DEV mode) against an integer-arithmetic reference formatter",
            "All 10^6 microsecond values x 3 precisions x 2 constraints on one base date, a structured product of 13 years x calendar/time boundaries x 9 tzinfo kinds x microsecond digit patterns x 2 entry forms, accepted string spellings (0-9 fraction digits, case variants) and timestamp properties of real objects are executed on format_datetime/parse_into_datetime and compared with an independent integer formatter; fixpoint and order clauses checked on every produced text. Covers the digit/precision dimension completely and the calendar dimension at its boundaries.",
            "trusted: mc/ref/tsfmt.py (days-from-civil integer algorithm, self-tested against datetime); years/dates covered at boundaries only", "DESIGN.md §3 C15"),
    "C16": ("bounded exhaustive enumeration (DEV mode) against an independent RFC 8785 implementation",
            "Every binary exponent x 200 (thorough 2000) mantissa patterns x sign, +-2 ulp around every power of ten, all d.dd(d) x 10^k, integer boundaries, the code-point alphabet as values and keys, every insertion order of <=4 of 8 keys, and all JSON values of depth <=3 are canonicalized by the real code and compared with mc/ref/jcs.py; parse-back, fixpoint, UTF-8 form, order independence and NaN/inf refusal are asserted per case.",
            "trusted: mc/ref/jcs.py (passes the RFC 8785 Appendix B vectors); shortest round-trip digits come from CPython repr(float) on both sides (layout is independent)", "DESIGN.md §3 C16"),
    "C20": ("complete enumeration of the conversion domain against frozen specification tables",
            "Every integer -200..300 and every label/near-miss label of the five scales is executed on the real functions and compared with a frozen copy of STIX 2.1 Appendix A plus table-independent monotonicity/round-trip clauses; the domain named by the property (0..100, all labels) is covered completely.",
            "trusted: frozen range tables transcribed from the specification (mc/checks/c20_confidence.py)", "DESIGN.md §3 C20"),
}

PENDING_REASON = "check not built yet in this revision (planned, see DESIGN.md §3); not claimed until its machinery exists"


def main():
    props = [json.loads(l) for l in open(os.path.join(VERIF, "properties.jsonl"))]
    have = {f.split("_")[0].upper() for f in os.listdir(os.path.join(VERIF, "mc", "checks")) if f.startswith("c") and f.endswith(".py")}
    checks, na = [], []
    for p in props:
        pid = p["id"]
        if pid in CHECKS and pid in have:
            tech, text, note, ref = CHECKS[pid]
            checks.append({
                "property_id": pid,
                "quick_cmd": "./check %s --tier quick" % pid,
                "thorough_cmd": "./check %s --tier thorough" % pid,
                "evidence_file": "/verif/evidence/%s.json" % pid,
                "replay_cmd_template": "./check %s --replay {path}" % pid,
                "engine": "mc-explorer",
                "level_claimed": {"category": "model_checking", "text": text, "design_ref": ref},
                "level_note": note,
                "technique": tech,
            })
        else:
            na.append({"property_id": pid, "reason": PENDING_REASON})
    man = {
        "version": 1,
        "setup_cmd": "./check --selftest",
        "hooks": {
            "guard": "OASIS_OPEN_CTI_PYTHON_STIX2_VERIF",
            "enable": "no source hook is needed: clock, uuid4 and registry seams are installed from outside by mc/env.py (module attributes replaced); checks import /repo's working tree directly",
            "baseline_off_cmd": "/verif/tools/baseline_off.sh",
            "source_commits": [],
            "add_only": True,
        },
        "engines": [{
            "name": "mc-explorer", "path": "/verif/mc/core.py", "serves_properties": [c["property_id"] for c in checks],
            "kind_free_text": "hand-written bounded exhaustive explorer for Python: DEV mode (deviation-bounded enumeration from canonical bases) and BFS mode (explicit-state search over operation histories, canonical-state de-duplication), executing the real library with reference models in lock-step; fork-once sharding over 16 cores",
        }],
        "checks": checks,
        "not_applicable": na,
        "notes": "All checks are bounded exhaustive explorations of the implementation itself (every explored trace is an implementation run). known_findings.json lists genuine defects recorded rather than repaired; seeded/ holds confirmed property-breaking changes used to test the checks.",
    }
    with open(os.path.join(VERIF, "MANIFEST.json"), "w") as f:
        json.dump(man, f, indent=1)
        f.write("\n")
    try:
        import jsonschema
        jsonschema.validate(man, json.load(open("/root/.vp/MANIFEST.schema.json")))
        print("MANIFEST.json valid: %d claimed, %d pending" % (len(checks), len(na)))
    except ImportError:
        print("MANIFEST.json written (jsonschema not importable here): %d claimed" % len(checks))


if __name__ == "__main__":
    main()
