"""dev aid: generator output must be valid under the frozen validator; shows what the library says about it"""
import sys, json, collections, warnings
warnings.simplefilter('ignore')
sys.path.insert(0, '/verif'); sys.path.insert(0, '/repo')
import stix2
from mc.spec import model, gen
res = collections.Counter()
full = len(sys.argv) > 1
for ver in ('2.0', '2.1'):
    g = gen.Gen(ver)
    for key in g.top_keys():
        for label, inst in (g.instances(key, pairs=False) if full else [('min', g.minimal(key)), ('max', g.maximal(key))]):
            cat = g.sp.classes[key]['category']
            obj = inst
            if cat == 'observables' and ver == '2.0':
                cont = g.resolve_objrefs(inst)
                obj = g.observed_data_with(cont)
            errs = model.validate(obj, ver)
            res['instances'] += 1
            if errs:
                res['MODEL-INVALID'] += 1
                print('MODEL-INVALID', ver, key, label, errs[:3])
                continue
            try:
                o = stix2.parse(json.loads(json.dumps(obj)), allow_custom=False, version=ver)
                res['lib-accepts'] += 1
            except Exception as e:
                res['lib-refuses'] += 1
                print('LIB-REFUSES', ver, key, label, type(e).__name__, str(e)[:160])
print(res)
