#!/usr/bin/env python3
"""Regenerates the machine-derived tables of DESIGN.md (between <!-- BEGIN:x --> / <!-- END:x --> markers) from evidence/, known_findings.json
and seeded/. Usage: tools/design_tables.py   (rewrites DESIGN.md in place)"""
import json, os, re, glob
V = os.path.dirname(os.path.dirname(os.path.abspath(__file__)))

def evidence_table():
    rows = ["| id | tier | states | transitions | executions of the implementation | known findings seen | wall (16 cores) |", "|---|---|---|---|---|---|---|"]
    for f in sorted(glob.glob(os.path.join(V, "evidence", "C*.json"))):
        d = json.load(open(f)); c = d["coverage"]
        rows.append("| %s | %s | %s | %s | %s | %d | %.1f s |" % (d["property_id"], d["tier"], f"{c['states']:,}", f"{c['transitions']:,}", f"{c['traces_validated_against_impl']:,}", len(d.get("known_findings_seen", [])), d["wall_s"]))
    return "\n".join(rows)

def findings_tables():
    k = json.load(open(os.path.join(V, "known_findings.json")))
    fixed = [x for x in k if x["status"] == "fixed"]; op = [x for x in k if x["status"] == "open"]
    a = ["| property | commit | what failed (finding key under which the machinery first reported it) |", "|---|---|---|"]
    for x in fixed:
        what = re.sub(r"^fixed: property=C\d+ \w+ ", "", x["what"])
        a.append("| %s | `%s` | %s (`%s`) |" % (x["property"], x["commit"], what.replace("|", "\\|"), x["key"].replace("|", "\\|")))
    b = ["| property | finding key | what fails, and why it is recorded rather than repaired |", "|---|---|---|"]
    for x in op:
        b.append("| %s | `%s` | %s - e.g. `%s` |" % (x["property"], x["key"].replace("|", "\\|"), x["what"].replace("|", "\\|"), str(x.get("example", "")).replace("|", "\\|")[:120]))
    return "\n".join(a), "\n".join(b)

def seed_table():
    rows = ["| seed | what the change does (sub-agent's summary) | needs, in order to manifest | keys reported by the property's quick check |", "|---|---|---|---|"]
    res = {}
    p = os.path.join(V, "seeded", "RESULTS.tsv")
    if os.path.exists(p):
        for l in open(p):
            parts = l.rstrip("\n").split("\t")
            if len(parts) >= 4: res[parts[0]] = (parts[2], parts[3])
    for d in sorted(glob.glob(os.path.join(V, "seeded", "C??-[0-9]*")), key=lambda x: (os.path.basename(x)[:3], int(os.path.basename(x)[4:]))):
        name = os.path.basename(d)
        try: m = json.load(open(os.path.join(d, "meta.json")))
        except Exception: m = {}
        n, keys = res.get(name, ("?", ""))
        keys = " ".join(keys.split()[:3])
        rows.append("| %s | %s | %s | %s violation keys, e.g. `%s` |" % (name, str(m.get("summary", "")).replace("|", "\\|")[:220], str(m.get("needs_to_manifest", "")).replace("|", "\\|")[:200], n, keys.replace("|", "\\|")[:160]))
    return "\n".join(rows)

def main():
    p = os.path.join(V, "DESIGN.md"); s = open(p).read()
    fx, op = findings_tables()
    for name, body in (("evidence", evidence_table()), ("fixed", fx), ("open", op), ("seeds", seed_table())):
        b, e = "<!-- BEGIN:%s -->" % name, "<!-- END:%s -->" % name
        if b in s and e in s:
            s = s[:s.index(b) + len(b)] + "\n" + body + "\n" + s[s.index(e):]
    open(p, "w").write(s)
    print("DESIGN.md tables regenerated")
main()
