#!/bin/bash
# Runs the repository's pinned baseline with the verification guard OFF and compares the passing set with BASELINE.json.stable_pass.
unset OASIS_OPEN_CTI_PYTHON_STIX2_VERIF
OUT=$(mktemp /dev/shm/verif-baseline-XXXXXX.xml 2>/dev/null || mktemp)
cd /repo && /venv/bin/python -B -m pytest -ra -q -p no:cacheprovider --timeout=900 --continue-on-collection-errors --junitxml="$OUT" >/dev/null 2>&1
/venv/bin/python -B - "$OUT" <<'PY'
import json, sys, xml.etree.ElementTree as ET
base = json.load(open('/root/.vp/BASELINE.json')) if __import__('os').path.exists('/root/.vp/BASELINE.json') else None
passed = set()
for tc in ET.parse(sys.argv[1]).getroot().iter('testcase'):
    if not any(ch.tag in ('failure', 'error', 'skipped') for ch in tc):
        passed.add('%s::%s' % (tc.get('classname'), tc.get('name')))
print('passed: %d' % len(passed))
if base is None:
    sys.exit(0)
want = set(base['stable_pass'])
missing = sorted(want - passed)
print('baseline stable_pass: %d, missing now: %d' % (len(want), len(missing)))
for m in missing[:20]:
    print('  MISSING', m)
sys.exit(1 if missing else 0)
PY
rc=$?
rm -f "$OUT"
exit $rc
