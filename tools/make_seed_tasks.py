#!/usr/bin/env python3
"""Prepares a wave of independent seeding tasks: tools/make_seed_tasks.py <root> <wave-number>
For every property: a scratch git worktree of /repo HEAD at <root>/<ID> and a task file <root>/<ID>.task.md that contains ONLY the property text, the working
rules and the delivery format (nothing from /verif). The sub-agents are then started with: 'Read <root>/<ID>.task.md and do exactly what it says.'"""
import json, os, subprocess, sys
root, wave = sys.argv[1], int(sys.argv[2])
EMPHASIS = {
 13: """   * ONE of several near-identical twins diverging: the library repeats the same logic per spec version, per object type, per scale, per marking function, per store kind, per comparison
     operator, per qualifier, per constant class - change ONE copy (preferably a rarely used one) so that it no longer agrees with its siblings,
   * two SIMILAR THINGS SWAPPED or confused: two arguments of the same type, source and target, created and modified, first and last, min and max, key and value, the 2.0 and the 2.1 constant,
     `and` / `or` in a compound condition whose operands are rarely both true, an index off by one in a slice,
   * the DEFAULT value of a keyword argument or of a property changed, or a default that is now shared / evaluated at another time; an option that is honoured when given explicitly but not
     when left at its default (or the reverse),
   * modules a first reading skips: `stix2/environment.py`, `stix2/workbench.py`, `stix2/hashes.py`, the vocabularies, `stix2/v20/*`, `stix2/equivalence/pattern/transform/*` and `compare/*`,
     `stix2/datastore/filters.py`, `stix2/patterns.py` constants, `stix2/pattern_visitor.py`, `stix2/custom.py`, `stix2/registry.py`, `stix2/serialization.py`,
   * a change that only shows for content that is BOTH unusual AND arrives through the less common entry point (two rarities multiplied),
   * an EARLY RETURN, a `continue`, or a narrowed `if` that skips the rest of a function for one class of inputs (the skipped rest being a validation, a copy, a normalisation or a bookkeeping step).""",
 12: """   * COMPENSATING or self-consistent defects: a change on a path that BOTH sides of an obvious self-check share, so that round trips, "parse what you wrote", "both stores agree" or "the flag agrees
     with a strict re-parse" still come out consistent while the absolute result is wrong against the specification / documentation (a writer and its reader changed together, a helper used by
     both implementations, a normalisation applied on the way in and on the way out),
   * the clause of the property statement that is EASIEST TO OVERLOOK: re-read the statement and pick a sub-clause, a "hence", an "also", a parenthesis or a listed special case that a checker is
     least likely to have covered, and break exactly that,
   * a threshold in SIZE or COUNT: behaviour that changes at the 2nd / 10th / 11th / 100th / 256th element, at a string length, at a nesting depth, after N calls (a bounded cache evicting, a counter,
     a chunked loop, a slice with a hard-coded bound, pagination-like batching),
   * stable ORDER and TIES: a sort made unstable or keyed differently, min / max picking another of several equal candidates, "first match" becoming "last match", de-duplication keeping another
     representative, an order that used to be insertion order becoming sorted order (or the reverse),
   * the LESS-USED HALF of an API pair: the 2.0 twin of a 2.1 function, the sink of a store, the `MemorySource` / `MemorySink` classes next to `MemoryStore`, `FileSystemSource` used directly, object methods
     next to module functions, `Environment` methods next to the objects they wrap, positional next to keyword arguments,
   * an input that is VALID BUT UNUSUAL for the specification (optional property present with its default value, empty-but-legal strings, maximal lengths, the rarest vocabulary entry, the last entry of
     a table, properties in reverse order, a reference to the object itself, two list elements that are equal).""",
 11: """   * a defect that needs THREE things to coincide (three properties present together, a flag plus a nesting level plus an object form, three members of a federation), or a HISTORY of
     four or more operations on the same object / store / registry / module (the fourth call misbehaves because of what the first three left behind) - something a check that
     tries "one or two departures from the ordinary" would not reach,
   * how the library calls the STANDARD LIBRARY and its third-party dependencies (simplejson options, `json` hooks, pytz / datetime arithmetic, `re` flags and anchors, `uuid`, `copy`,
     `collections`, `itertools`, `os.path` / `io`, the stix2patterns parser and its listeners): one option, flag, argument or return-value convention used slightly wrongly for one caller,
   * CALENDAR and number arithmetic: leap days, month and year ends, negative and fractional UTC offsets that move the date, 59.999999 seconds, year 1 and 9999, integer division versus
     rounding, float representation of decimal fractions, sign handling, very small and very large magnitudes,
   * NAMING conventions the code keys on: property names ending in `_ref` / `_refs` / `_hex` / `_bin` / `_hashes`, names that start with `x_` or contain a dot, hyphen or digit, type names that are
     prefixes or suffixes of other type names, ids whose UUID part has a particular version / variant nibble or letter case, keys that differ only in case,
   * the library's EXCEPTION classes and handlers: an error class re-parented or replaced so that a caller's `except` no longer matches, an error raised while the message of another error
     is being built, a `finally` / cleanup step that does not run on one exit path, an error swallowed in a loop so that the loop continues with stale state,
   * the same logical value arriving in DIFFERENT PYTHON TYPES along one pipeline (str / bytes, list / tuple / set / generator, dict / OrderedDict / library object, int / bool / float / Decimal,
     datetime / date / STIXdatetime / text) where one stage normalises and a later stage assumes the normalised type.""",
 10: """   * what the DOCSTRINGS and the user guide of the public calls promise (argument forms they list, defaults they state, what they say is returned or raised): break one of those
     promises for a form / default / return shape the tests do not exercise,
   * the interaction of TWO library features that each work alone: markings x versioning, custom properties x extensions, bundles x stores, filters x composite sources,
     patterns x indicators, interoperability mode x strict mode, `new_version` x deterministic ids, deep copies x stores, language content / granular `lang` markings x selectors,
   * an object that goes through a PIPELINE of three or more public operations (create -> mark -> version -> bundle -> serialize -> parse -> store -> query -> compare): a defect that
     only the composition shows (something dropped, re-ordered, re-typed, re-timestamped along the way),
   * state that lives on a CLASS or a MODULE rather than on an instance (class attributes, decorator-made classes sharing a table, defaults built once),
   * "cleanup" commits: dead-looking code removed that was load-bearing for one input class; a redundant-looking copy / sort / check dropped; an `else` branch merged into its `if`,
   * laziness and iteration: results returned as generators or views instead of lists (or the reverse), iterating a container while it is modified, a second iteration over an
     exhausted iterator, dictionary views kept across an insert.""",
 9: """   * the ENVIRONMENT the code runs in: the process time zone (TZ), locale, PYTHONHASHSEED, `os.listdir` order, the order of dictionary / set iteration over registries, file name case,
     path separators, a file that starts with a byte-order mark or uses another encoding / line ending, a directory that also holds unrelated files or sub-directories, symbolic links -
     a change that is right in the developer's environment and wrong in another, or that makes a result depend on one of these,
   * the TEXT form of JSON input as opposed to the dict form: `\\u` escapes and surrogate pairs, numbers written `1.0` / `1e2` / `-0` / with many digits for integer / float / boolean
     properties, duplicate member names, members in an unusual order (`type` or `id` last, `extensions` first), `null` members, very large documents, bytes versus str input,
   * NUMERIC kinds meeting each other: bool / int / float / Decimal / numeric text where one is expected and another arrives (1 versus 1.0 versus True versus "1"), negative zero, values at
     2**31, 2**53, 2**63, exponent notation,
   * a validation or normalisation STEP REMOVED (not weakened) on one rarely used path: a value that is already an instance of the expected class skips `clean`, a second call skips a
     check the first one made, an `interoperability=True` / `allow_custom=True` branch that returns early, a `try` whose `except` swallows and continues,
   * file-system store specifics: the file name derived from `modified` (digits, time zone), what counts as the same version, overwriting, `bundlify`, `encoding`, objects without
     `modified`, ids whose characters are unusual for file names, type directories created by other tools,
   * anything that makes two runs of the same program give different results (ordering of a returned list, which of two equal candidates is chosen, a timestamp or uuid drawn at import).""",
 8: """   * the per-type TABLES of the object model rather than the generic machinery: one property of one class whose kind / `required` / default / allowed values / bounds / precision / valid
     reference types is slightly off, one entry of a vocabulary or of an `_id_contributing_properties` list dropped or added, one class's `_check_object_constraints` weakened, the order of a
     property table changed - pick classes and properties that are NOT the usual examples (not malware / indicator / file `name`),
   * a REFACTORING gone slightly wrong: a helper extracted where one argument is no longer passed on, a `super()` call dropped or moved, a method overridden in a subclass with a narrower
     signature, a mixin order changed, a loop variable captured late in a closure, a dictionary comprehension that silently de-duplicates, `dict.update` order reversed,
   * a repair applied to the STIX 2.0 module but not to its 2.1 twin (or the reverse), or to the SDO flavour of a decorator / helper but not to the SCO / marking / extension flavour,
   * something evaluated at IMPORT time that must be evaluated per call (a default timestamp, a default list, a uuid, a compiled table built before registrations happen) or the reverse,
   * a type-specific rule that needs TWO properties to meet (a co-constraint, a dependency, a mutually exclusive pair, a "at least one of" group, start/stop or first/last ordering),
   * `__eq__` / `__hash__` / ordering of library objects and timestamps used as dictionary keys or in sets by the datastore and de-duplication code.""",
 7: """   * a PERFORMANCE-motivated rewrite that is right for the common input only: a memo / lru_cache / class-level table keyed too coarsely, a fast path that skips a step for "already clean"
     values, an early exit from a loop, a pre-computed set that goes stale, `is` instead of `==`, a generator where a list was re-read,
   * the Python data model of the library's own objects: `==` / `!=` / hash, `in`, `len`, `keys()` / `items()` / `get()`, iteration order, `copy` / `deepcopy` / `pickle`, `str` / `repr`,
     attribute versus item access, subclasses of the library's classes, Mapping / Sequence look-alikes (OrderedDict, MappingProxyType, tuple, set, generator, dict views) passed where dict / list is usual,
   * coercions between value kinds: bool versus int versus float versus numeric text, bytes versus str, integer-valued floats, `Decimal`, enum members, datetime subclasses, None versus missing versus empty,
   * text classes: non-ASCII letters and digits, combining characters, upper/lower case pairs that are not one-to-one, astral characters, control characters, leading / trailing / inner white space, very long text,
   * PARTIAL failure: one bad element among good ones in a list / bundle / batch (what is kept, what is reported, what a retry does), the second error after a first one, an exception raised half-way through a
     multi-step update,
   * rarely used keyword options of public calls (serialize(pretty / include_optional_defaults / sort_keys / indent / ensure_ascii), new_version(allow_custom), query forms, `encoding`, `bundlify`, `path` of
     save_to_file / load_from_file, FileSystem `bundlify` / `allow_custom`), alone or combined with each other.""",
 2: """   * a multi-step SEQUENCE of operations (state left behind by an earlier call: a cache, a module-level or class-level mutable default, an object reused between calls),
   * two cooperating code sites that each look fine alone,
   * a rarely used type / property / option combination, or a value class at a boundary (an exponent range, a particular digit pattern, a Unicode class, a list length, an ordering of dictionary keys),
   * a difference that only shows on ONE of several entry points / object forms / spec versions.""",
 6: """   * the MIRROR IMAGE of the defect one would think of first: where the obvious slip is "accepts too much", make it "refuses (or alters) something valid" - or the reverse; where it is
     "forgets to copy", make it "copies / rebuilds where identity or metadata matters",
   * SECOND-ORDER use: the result of one operation (new_version, add/remove/clear markings, parse, deepcopy, store.get / query, ObjectFactory.create, str(pattern)) fed into another
     operation, where only the combination misbehaves,
   * properties of RESULTS: order of a returned list, duplicates, list versus generator, the same object returned twice, a result that aliases an input or internal state,
   * limits and degenerate sizes: 0 and 1 elements, 250/256-character names, the largest/smallest representable number, year 0001 / 9999, empty string versus missing, single-character keys,
   * content whose spec version is implicit or mixed (no spec_version member, bundles holding both versions, a 2.1 observable inside a 2.0 container, custom types registered for one version only),
   * the convenience layers (Environment, ObjectFactory, the object methods, stix2.parse of bundles and lists, datastore `relationships` / `related_to` / `creator_of`) dropping or re-defaulting something the core honours.""",
 5: """   * a SILENT change of data rather than a refusal: a value normalised, truncated, rounded, re-ordered, re-cased, de-duplicated, defaulted or dropped on one path only,
   * the API surface beyond the obvious calls: methods on objects (obj.new_version, obj.revoke, obj.serialize with keyword options, obj.add_markings / is_marked ...), the Environment
     and ObjectFactory wrappers, the workbench-style helpers, the small helpers in stix2.utils / stix2.versioning / stix2.markings.utils that several features share,
   * a flag or option (allow_custom, interoperability, version, spec_version, inherited, descendants, pretty ...) that is dropped, inverted or defaulted differently at ONE nesting level or in ONE wrapper,
   * classes created through the decorators (CustomObject, CustomObservable, CustomExtension, CustomMarking) and how they interact with the property,
   * two objects / two calls that should be treated alike but differ in something incidental (key order, list order, object vs dict, id shape, presence of an unrelated optional property),
   * off-by-one and comparison-operator slips (< vs <=, first vs last, any vs all, min vs max) in code that picks one of several candidates.""",
 4: """   * code that STIX 2.0 and 2.1 share (a table, a regular expression, a helper, a default): one version silently gets the other's rule, or a 2.1-only feature leaks into 2.0,
   * sizes and shapes: long strings, many list elements, deep nesting, large or tiny numbers, empty-but-present containers, duplicate elements, ties when something is sorted,
   * an exception handler made slightly narrower or wider, an error turned into a default value (or the reverse), a check moved before/after a conversion,
   * default argument values, keyword-versus-positional confusion, an argument that is now mutated or retained, a generator or iterator that is consumed twice,
   * copying, comparing, hashing, re-serializing or re-versioning objects that were themselves produced by the library (rather than written by hand),
   * behaviour that differs between an object built by a constructor, the same object parsed from text, and the same content kept as a plain dict.""",
 3: """   * the INTERACTION of two features or options that are each exercised separately by the suite (an option combined with a nesting level, a flag combined with an object form, two optional properties that meet),
   * an entry point, argument form (positional vs keyword, object vs dict vs text vs file, single vs list) or object kind OTHER than the most common one,
   * what is left behind or returned after a REFUSAL / partial failure, or a refusal that silently turns into acceptance (or the reverse) for a narrow class of inputs,
   * the exact boundary of a documented limit (length, count, range, precision), or a variant of otherwise valid text (letter case, surrounding or trailing white space, a different but equivalent spelling, Unicode look-alikes),
   * a result that starts to depend on ORDER (dictionary insertion order, list order, order of attachment / registration / addition, which of two equal things came first),
   * a change in a helper that several features share, written so that only one of its callers is affected.""",
}
os.makedirs(root, exist_ok=True)
for l in open('/verif/properties.jsonl'):
    p = json.loads(l)
    pid = p['id']
    wt = os.path.join(root, pid)
    if not os.path.isdir(wt):
        subprocess.check_call(['git', '-C', '/repo', 'worktree', 'add', '--detach', wt, 'HEAD'], stdout=subprocess.DEVNULL, stderr=subprocess.DEVNULL)
    a = p['anchors']
    mech = '; '.join('%s (%s)' % (m['name'], m['where']) for m in a.get('mechanism', []))
    text = f"""# Task: produce property-breaking changes ("seeded defects") for oasis-open/cti-python-stix2

You work ONLY inside your own scratch git worktree of the library: `{wt}` (a detached checkout).
Never use `git stash` (the stash is shared by all worktrees; use `git diff > file; git checkout -- .; git apply file`).
Do NOT read or write anything under `/verif` or `/repo` (other agents own those); do not touch other directories under {root}.
There is no network. Python is `/venv/bin/python` (3.12). The library is installed in development mode pointing at /repo, so to
import YOUR worktree's code always run with `cd {wt} && PYTHONPATH={wt} /venv/bin/python -B ...` and verify once with
`PYTHONPATH={wt} /venv/bin/python -B -c "import stix2; print(stix2.__file__)"` that the path printed is under `{wt}`.
(Every shell command may print a harmless "conda" WARNING line; ignore it.)

## The property (this is all you are given about what must hold)

id: {pid}
title: {p['title']}

statement: {p['statement']}

quantified over: {p['quantifier']['text']}

why the existing tests cannot settle it: {p['why_tests_cant']}

code anchors: files {', '.join(a.get('files', []))}; mechanisms: {mech}

## What to deliver

Produce **3 independent changes** to the library source (each a separate patch against the checked-out commit, each a realistic
regression a developer could plausibly introduce during a refactor/optimisation/bug-fix: NOT a commented "BUG HERE", no dead code, no
test edits, no new files in the library) such that each change:

1. **breaks the property above** (a behaviour a user relying on the statement would call a bug);
2. still imports/compiles and **the repository's existing test suite still passes exactly as before**. The suite is run with
   `cd {wt} && PYTHONPATH={wt} /venv/bin/python -B -m pytest -q -p no:cacheprovider --timeout=900 --continue-on-collection-errors -q 2>&1 | tail -15`.
   On the UNCHANGED tree, offline, about 2434 tests pass and ~47 fail + 2 collection errors (taxii / missing optional
   packages) - run it once first on the unchanged worktree and save the list of passing test ids
   (`-rA` or `--junitxml`; one parametrised test id embeds a random uuid1 - normalise it) so you can confirm that exactly the same tests pass after each change;
3. **needs something specific to manifest** - please be subtle and varied; prefer
{EMPHASIS[wave]}
   It must NOT be something ordinary use (or the first obvious call) would expose at once.
4. comes with a **demonstration**: a small standalone Python program `demo.py` (only stdlib + stix2, no pytest needed, no network, finishes in
   seconds) that exits 0 on the unchanged tree and exits non-zero (assert failure with a clear message) with the change applied. It must take the
   library from `PYTHONPATH`/cwd (do not hardcode the worktree path inside it).

The 3 changes should exercise **different mechanisms / code sites / aspects** of the property, and differ in what they need in order to manifest.

Write the results into `{wt}/_seeded/` (create it; it is untracked) as:

```
{wt}/_seeded/1/patch.diff     (output of `git diff`, touching only library source under stix2/, not stix2/test)
{wt}/_seeded/1/demo.py
{wt}/_seeded/1/meta.json      {{"property": "{pid}", "summary": "<one line: what was changed>", "files": [...],
                               "needs_to_manifest": "<what specific input/sequence/configuration exposes it>",
                               "why_tests_pass": "<why the existing suite does not notice>",
                               "ran": ["<commands you ran and their outcome, briefly>"]}}
{wt}/_seeded/2/...            (and so on)
```

Procedure per change: edit the source in the worktree -> run demo (must fail) -> run the full test suite (same pass set as baseline) ->
`git diff > _seeded/k/patch.diff` -> `git checkout -- .` (revert tracked files; `_seeded/` is untracked so it survives) -> run demo again (must pass)
-> `git apply --check _seeded/k/patch.diff` (must succeed on the clean tree). Leave the worktree clean (only `_seeded/` untracked) and commit nothing.
Finish with a short report of the three changes (what, where, what it needs to manifest).
"""
    open(os.path.join(root, pid + '.task.md'), 'w').write(text)
print('prepared', root)
