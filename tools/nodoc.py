#!/usr/bin/env python3
"""print a python file without docstrings/comments (reading aid): tools/nodoc.py file [name-filter]"""
import ast, sys
src = open(sys.argv[1]).read()
tree = ast.parse(src)
for node in ast.walk(tree):
    if isinstance(node, (ast.FunctionDef, ast.ClassDef, ast.AsyncFunctionDef, ast.Module)):
        if node.body and isinstance(node.body[0], ast.Expr) and isinstance(getattr(node.body[0], 'value', None), ast.Constant) and isinstance(node.body[0].value.value, str):
            node.body = node.body[1:] or [ast.Pass()]
flt = sys.argv[2] if len(sys.argv) > 2 else None
if flt:
    for node in ast.walk(tree):
        if isinstance(node, (ast.FunctionDef, ast.ClassDef)) and node.name == flt:
            print(ast.unparse(node))
else:
    print(ast.unparse(tree))
