#!/usr/bin/env python3
"""Confirm sub-agent seeds myself and import them: [SEED_ROOT=/tmp/w2 SEED_OFFSET=3] tools/confirm_seed.py C20 [C16 ...]
For every $SEED_ROOT/<ID>/_seeded/<k>/ (k numeric; stored as <ID>-<k+SEED_OFFSET>): in the scratch worktree (never /repo): clean tree -> demo must exit 0; apply patch -> demo must exit != 0;
pinned test command -> every BASELINE stable_pass test still passes; revert. Confirmed seeds are copied to /verif/seeded/<ID>-<k>/."""
import json, os, shutil, subprocess, sys, tempfile, xml.etree.ElementTree as ET

BASE = set(json.load(open('/root/.vp/BASELINE.json'))['stable_pass'])
PY = '/venv/bin/python'
ROOT = os.environ.get('SEED_ROOT', '/tmp/wt')
OFFSET = int(os.environ.get('SEED_OFFSET', '0'))

def sh(cmd, cwd, env=None, timeout=1800):
    e = dict(os.environ); e.update(env or {})
    return subprocess.run(cmd, cwd=cwd, env=e, capture_output=True, text=True, timeout=timeout)

def demo(wt, path):
    r = sh([PY, '-B', path], wt, {'PYTHONPATH': wt})
    return r.returncode, (r.stdout + r.stderr)[-400:]

def suite(wt):
    out = tempfile.mktemp(suffix='.xml', dir='/dev/shm')
    sh([PY, '-B', '-m', 'pytest', '-q', '-p', 'no:cacheprovider', '--timeout=900', '--continue-on-collection-errors', '--junitxml=' + out], wt, {'PYTHONPATH': wt})
    passed = set()
    for tc in ET.parse(out).getroot().iter('testcase'):
        if not any(ch.tag in ('failure', 'error', 'skipped') for ch in tc):
            passed.add('%s::%s' % (tc.get('classname'), tc.get('name')))
    os.unlink(out)
    return sorted(BASE - passed)

for pid in sys.argv[1:]:
    wt = ROOT + '/' + pid
    sd = os.path.join(wt, '_seeded')
    for k in sorted(os.listdir(sd)):
        d = os.path.join(sd, k)
        if not k.isdigit() or not os.path.isfile(os.path.join(d, 'patch.diff')):
            continue
        dst = '/verif/seeded/%s-%d' % (pid, int(k) + OFFSET)
        if os.path.exists(dst):
            continue
        sh(['git', 'checkout', '--', '.'], wt)
        rc0, _ = demo(wt, os.path.join(d, 'demo.py'))
        ap = sh(['git', 'apply', os.path.join(d, 'patch.diff')], wt)
        if ap.returncode != 0:
            print('SEED %s-%s REJECTED patch does not apply: %s' % (pid, k, ap.stderr[:200])); continue
        touched = sh(['git', 'diff', '--name-only'], wt).stdout.split()
        rc1, out1 = demo(wt, os.path.join(d, 'demo.py'))
        missing = suite(wt)
        sh(['git', 'checkout', '--', '.'], wt)
        rc2, _ = demo(wt, os.path.join(d, 'demo.py'))
        ok = rc0 == 0 and rc1 != 0 and rc2 == 0 and not missing and all(t.startswith('stix2/') and '/test/' not in t for t in touched)
        print('SEED %s-%s %s demo clean=%d patched=%d reverted=%d baseline-tests-lost=%d files=%s' % (pid, k, 'CONFIRMED' if ok else 'REJECTED', rc0, rc1, rc2, len(missing), touched))
        if not ok:
            print('   ', missing[:5], out1[-200:]); continue
        os.makedirs(dst)
        shutil.copy(os.path.join(d, 'patch.diff'), dst)
        shutil.copy(os.path.join(d, 'demo.py'), dst)
        try:
            meta = json.load(open(os.path.join(d, 'meta.json')))
        except Exception:
            meta = {}
        meta['property'] = pid
        meta['wave'] = 1 if OFFSET == 0 else 2
        meta['base_commit'] = sh(['git', 'rev-parse', 'HEAD'], wt).stdout.strip()
        meta['confirmed_by_me'] = {'worktree': wt, 'demo_exit_clean_tree': rc0, 'demo_exit_with_patch': rc1, 'demo_exit_after_revert': rc2,
                                   'pinned_suite': 'all %d BASELINE stable_pass tests still pass with the patch applied' % len(BASE),
                                   'commands': ['git apply patch.diff', 'PYTHONPATH=<wt> /venv/bin/python -B demo.py',
                                                '/venv/bin/python -B -m pytest -q -p no:cacheprovider --timeout=900 --continue-on-collection-errors --junitxml=...',
                                                'git checkout -- .']}
        json.dump(meta, open(os.path.join(dst, 'meta.json'), 'w'), indent=1)
