import stix2, json, warnings, itertools, collections, copy, tempfile, shutil, os, io
warnings.simplefilter('ignore')
from gen import all_instances
from stix2 import MemoryStore, MemorySource, MemorySink, FileSystemStore, FileSystemSource, FileSystemSink
from stix2.exceptions import STIXError
def outcome(f):
    try:
        r=f()
        if r is None: return ("none",)
        if isinstance(r,list): r=r[0] if r else None
        return ("ok", type(r).__module__+"."+type(r).__name__)
    except (STIXError,ValueError,TypeError) as e: return ("refused",)
    except Exception as e: return ("ESC",type(e).__name__)
IDS={"v4":"3f7f0c5f-5d54-4292-94ea-ec1e1952be11","v1":"420eb0c2-b2a0-11f1-8ab2-02fc00000001","nil":"00000000-0000-0000-0000-000000000000","short":"3f7f0c5f-5d54-4292-94ea-ec1e1952be1"}
res=collections.Counter(); ex=collections.defaultdict(list)
tmp=tempfile.mkdtemp(dir="/dev/shm")
cnt=0
for ver in ("2.0","2.1"):
    for (v,cat,t,mode,c,d0) in all_instances(ver):
        if mode!="min" or cat!="objects" or t=="bundle": continue
        for idk,u in IDS.items():
            d=dict(d0,id=t+"--"+u)
            for varg in (None,"2.0","2.1"):
                for ac in (True,False):
                    cnt+=1
                    direct=outcome(lambda: stix2.parse(d,allow_custom=ac,version=varg))
                    eps={}
                    eps["MemoryStore(data)"]=outcome(lambda: MemoryStore(d,allow_custom=ac,version=varg).get(d["id"]))
                    eps["MemoryStore.add"]=outcome(lambda: (lambda s:(s.add(d,version=varg),s.get(d["id"]))[1])(MemoryStore(allow_custom=ac)))
                    eps["MemorySource(data)"]=outcome(lambda: MemorySource(d,allow_custom=ac,version=varg).get(d["id"]))
                    def lff():
                        p=os.path.join(tmp,"f%d.json"%cnt); json.dump(d,open(p,"w")); s=MemoryStore(allow_custom=ac); s.load_from_file(p,version=varg); return s.get(d["id"])
                    eps["load_from_file"]=outcome(lff)
                    def fsread():
                        dd=os.path.join(tmp,"fs%d_%s_%s"%(cnt,varg,ac)); os.makedirs(os.path.join(dd,t,d["id"]) if "modified" in d else os.path.join(dd,t))
                        p=os.path.join(dd,t,d["id"],"20200101000000000.json") if "modified" in d else os.path.join(dd,t,d["id"]+".json")
                        json.dump(d,open(p,"w")); return FileSystemSource(dd,allow_custom=ac).get(d["id"],version=varg)
                    eps["FileSystemSource.get"]=outcome(fsread)
                    def fsadd():
                        dd=os.path.join(tmp,"fw%d_%s_%s"%(cnt,varg,ac)); os.makedirs(dd); FileSystemSink(dd,allow_custom=ac).add(d,version=varg); return FileSystemSource(dd,allow_custom=ac).get(d["id"],version=varg)
                    eps["FileSystemSink.add"]=outcome(fsadd)
                    for name,o in eps.items():
                        if o!=direct:
                            k=(name,"ver="+str(varg),"id="+idk,"direct="+direct[0],"got="+o[0]+(":"+o[1] if o[0]=="ESC" else ""), ("classdiff" if o[0]=="ok" and direct[0]=="ok" else ""))
                            res[k]+=1
                            if len(ex[k])<2: ex[k].append((ver,t,ac,direct,o))
                        else: res["agree"]+=1
shutil.rmtree(tmp)
print(cnt,"cases")
for k,v in sorted(res.items(),key=str): print(v,k,ex.get(k,[])[:1])
