import stix2, json, warnings, itertools, collections, tempfile, shutil, datetime as dt, time
warnings.simplefilter('ignore')
from stix2 import MemoryStore, FileSystemStore, Filter, CompositeDataSource
from stix2.utils import parse_into_datetime
U="3f7f0c5f-5d54-4292-94ea-ec1e1952be1"
RED=stix2.TLP_RED.id
pop=[
 dict(type="malware",spec_version="2.1",id="malware--"+U+"1",created="2020-01-01T00:00:00.000Z",modified="2020-01-01T00:00:00.000Z",name="alpha",is_family=False,labels=["a","b"],confidence=10),
 dict(type="malware",spec_version="2.1",id="malware--"+U+"1",created="2020-01-01T00:00:00.000Z",modified="2020-01-02T00:00:00.000Z",name="alpha2",is_family=False,labels=["b"],confidence=50),
 dict(type="malware",spec_version="2.1",id="malware--"+U+"2",created="2020-01-03T00:00:00.000Z",modified="2020-01-03T00:00:00.500Z",name="beta",is_family=True,revoked=True),
 dict(type="indicator",spec_version="2.1",id="indicator--"+U+"3",created="2020-01-02T00:00:00.000Z",modified="2020-01-02T00:00:00.000Z",name="alpha",pattern="[a:b = 1]",pattern_type="stix",pattern_version="2.1",valid_from="2020-01-01T00:00:00Z",labels=["a"],
      external_references=[{"source_name":"cve","external_id":"CVE-1"},{"source_name":"x","url":"u"}], granular_markings=[{"marking_ref":RED,"selectors":["name","labels"]}]),
 dict(type="identity",spec_version="2.1",id="identity--"+U+"4",created="2020-01-01T00:00:00.000Z",modified="2020-01-01T00:00:00.000Z",name="id"),
 dict(type="ipv4-addr",spec_version="2.1",id="ipv4-addr--"+U+"5",value="1.2.3.4"),
 dict(type="campaign",id="campaign--"+U+"6",created="2020-01-01T00:00:00.000Z",modified="2020-01-01T00:00:00.000Z",name="old20"),
 dict(type="x-foo",spec_version="2.1",id="x-foo--"+U+"7",created="2020-01-01T00:00:00Z",modified="2020-01-01T00:00:00Z",name="alpha",labels=["a"]),
]
ids=sorted({o["id"] for o in pop}); types=sorted({o["type"] for o in pop})
F=[]
for op,vals in (("=",["malware","x-foo","tool"]),("!=",["malware","tool"]),("in",[("malware","indicator"),("tool",)])):
    for v in vals: F.append(Filter("type",op,v))
for op,vals in (("=",[pop[0]["id"],pop[5]["id"],"tool--"+U+"9"]),("!=",[pop[0]["id"]]),("in",[(pop[0]["id"],pop[3]["id"]),("tool--"+U+"9",)])):
    for v in vals: F.append(Filter("id",op,v))
F+=[Filter("name","=","alpha"),Filter("name","!=","alpha"),Filter("name","in",("alpha","beta")),Filter("name","contains","lph"),
    Filter("labels","=","a"),Filter("labels","contains","a"),Filter("labels","in",("a","z")),
    Filter("created",">","2020-01-01T00:00:00Z"),Filter("created",">=","2020-01-02T00:00:00.000000Z"),Filter("modified","<","2020-01-02T00:00:00.000Z"),Filter("modified","<=",parse_into_datetime("2020-01-02T00:00:00Z")),Filter("modified","=","2020-01-03T00:00:00.5Z"),
    Filter("confidence","<",50),Filter("confidence",">=",50),Filter("revoked","=",True),Filter("revoked","!=",True),
    Filter("external_references.source_name","=","cve"),Filter("granular_markings.selectors","in",("name",)),Filter("granular_markings.selectors","contains","labels"),Filter("nonexistent","=","x")]
print(len(F),"filters")
import re
def inst(s):
    if isinstance(s,dt.datetime): return s
    return parse_into_datetime(s) if isinstance(s,str) and re.match(r"^\d{4}-\d\d-\d\dT",s) else None
TS={"created","modified","valid_from"}
def refprop(f,val,prop):
    fv=f.value
    if prop in TS and isinstance(val,str): 
        val=inst(val)
        if isinstance(fv,str): fv=inst(fv)
    import operator
    try:
        if f.op=="=": return val==fv
        if f.op=="!=": return val!=fv
        if f.op=="in": return val in fv
        if f.op=="contains": return fv in val
        return {">":operator.gt,"<":operator.lt,">=":operator.ge,"<=":operator.le}[f.op](val,fv)
    except TypeError: return "TYPEERR"
def ref(f,o,path=None):
    path=f.property.split(".") if path is None else path
    if not isinstance(o,dict) or path[0] not in o: return False
    v=o[path[0]]
    if len(path)>1:
        if isinstance(v,list): return any(ref(f,e,path[1:]) is True for e in v)
        return ref(f,v,path[1:])
    if isinstance(v,list): return any(refprop(f,e,path[0]) is True for e in v)
    return refprop(f,v,path[0])
def key(o):
    m=o.get("modified"); 
    return (o["id"], None if m is None else parse_into_datetime(m) if isinstance(m,str) else m)
d=tempfile.mkdtemp(dir="/dev/shm"); fs=FileSystemStore(d,allow_custom=True); ms=MemoryStore()
for o in pop: ms.add(o); fs.add(o)
issues=collections.Counter(); ex={}
t=time.time(); n=0
for r in (1,2):
    for fset in itertools.combinations(F,r):
        exp={key(o) for o in pop if all(ref(f,o) is True for f in fset)}
        for name,st in (("mem",ms),("fs",fs)):
            n+=1
            try: got=[key(o) for o in st.query(list(fset))]
            except Exception as e:
                issues[(name,"exc",type(e).__name__)]+=1; ex.setdefault((name,"exc",type(e).__name__),(fset,str(e)[:100])); continue
            if len(got)!=len(set(got)): issues[(name,"dups")]+=1
            if set(got)!=exp:
                k=(name,"mismatch","extra" if set(got)-exp else "missing"); issues[k]+=1; ex.setdefault(k,(fset,sorted(map(str,set(got)^exp))))
print(n,"queries",time.time()-t,"s")
for k,v in issues.items(): print(v,k,str(ex.get(k))[:500])
shutil.rmtree(d)
