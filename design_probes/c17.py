import stix2, json, warnings, itertools, collections, copy, time
warnings.simplefilter('ignore')
from gen import all_instances
from stix2.exceptions import STIXError
JUNK=[None,True,0,1.5,"s","",[],[1],{},{"a":1},[[]],[{}],{"a":{}},[None]]
def slots(v,pre=()):
    if isinstance(v,dict):
        for k,x in v.items():
            yield pre+(k,)
            yield from slots(x,pre+(k,))
    elif isinstance(v,list):
        for i,x in enumerate(v):
            yield pre+(i,)
            yield from slots(x,pre+(i,))
def setp(o,path,val):
    o=copy.deepcopy(o); cur=o
    for p in path[:-1]: cur=cur[p]
    cur[path[-1]]=val; return o
res=collections.Counter(); ex=collections.defaultdict(list); n=0; t0=time.time()
for ver in ("2.0","2.1"):
    for (v,cat,t,mode,c,d) in all_instances(ver):
        if cat=="observables" and ver=="2.0": continue
        if t=="bundle" and mode=="max":
            pass
        for path in slots(d):
            for j in JUNK:
                dd=setp(d,path,j)
                for ac in (False,True):
                    n+=1
                    try: stix2.parse(dd,allow_custom=ac); res["returned"]+=1
                    except (STIXError,ValueError,TypeError): res["family"]+=1
                    except Exception as e:
                        gp=tuple("#" if isinstance(p,int) else p for p in path)
                        k=(type(e).__name__, gp[-1] if gp[-1]!="#" else gp[-2:], type(j).__name__ if not isinstance(j,(list,dict)) else json.dumps(j))
                        res[("ESCAPE",)+k]+=1
                        if len(ex[k])<2: ex[k].append((ver,t,mode,path,j,str(e)[:60]))
print(n,"cases",time.time()-t0,"s")
esc=collections.Counter()
for k,v in res.items():
    if isinstance(k,tuple): esc[(k[1],k[2])]+=v
print({k:v for k,v in res.items() if not isinstance(k,tuple)})
for k,v in sorted(esc.items(),key=str): print(v,k)
