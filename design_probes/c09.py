import itertools, re, sys, time
from stix2.equivalence.pattern import equivalent_patterns as eq
atoms = {
 "p = 1": lambda o: o['p']==1, "p != 1": lambda o:o['p']!=1, "p NOT = 1": lambda o:o['p']!=1, "p = 1.0": lambda o:o['p']==1,
 "p > 0": lambda o:o['p']>0, "p >= 1": lambda o:o['p']>=1, "p < 2": lambda o:o['p']<2,
 "p IN (1, 2)": lambda o:o['p'] in (1,2), "p IN (2, 1)": lambda o:o['p'] in (1,2), "p NOT IN (1, 2)": lambda o:o['p'] not in (1,2),
 "q = 'a'": lambda o:o['q']=='a', "q LIKE 'a%'": lambda o:o['q'].startswith('a'), "q NOT LIKE 'a%'": lambda o: not o['q'].startswith('a'),
 "q MATCHES '^a'": lambda o:o['q'].startswith('a'),
}
U = [dict(p=p,q=q) for p in (0,1,2,3) for q in ('a','ab','b')]
pats = {}
for a,f in atoms.items(): pats["[x:%s]"%a] = tuple(f(o) for o in U)
A = list(atoms.items())[:8] + list(atoms.items())[10:12]
for (a,f),(b,g) in itertools.product(A,A):
    pats["[x:%s AND x:%s]"%(a,b)] = tuple(f(o) and g(o) for o in U)
    pats["[x:%s OR x:%s]"%(a,b)] = tuple(f(o) or g(o) for o in U)
names = list(pats)
print(len(names))
t=time.time(); bad=0; errs=0; n=0
import collections
cnt=collections.Counter()
for i,P in enumerate(names):
    for Q in names[i:]:
        n+=1
        try: r = eq(P,Q)
        except Exception as e: errs+=1; continue
        if r and pats[P]!=pats[Q]:
            bad+=1
            if bad<15: print("UNSOUND", P, "==", Q)
        cnt[r]+=1
print(n, "pairs", time.time()-t, "s", "unsound", bad, "errs", errs, cnt)
