import stix2, json, warnings, itertools, collections, copy
warnings.simplefilter('ignore')
from stix2 import MemorySource, CompositeDataSource, Filter, Environment
from stix2.utils import parse_into_datetime
U="3f7f0c5f-5d54-4292-94ea-ec1e1952be1"
def mk(t,n,mod="2020-01-01T00:00:00.000Z",**kw): return stix2.parse(dict(type=t,spec_version="2.1",id=t+"--"+U+str(n),created="2020-01-01T00:00:00.000Z",modified=mod,**kw))
I=mk("identity",0,name="creator")
X1=mk("malware",1,name="x1",is_family=False,created_by_ref=I.id); X2=mk("malware",1,"2020-01-02T00:00:00.000Z",name="x2",is_family=False,created_by_ref=I.id); X3=mk("malware",1,"2020-01-03T00:00:00.000Z",name="x3",is_family=False,created_by_ref=I.id)
Y=mk("tool",2,name="y"); Z=mk("campaign",3,name="z")
R1=mk("relationship",4,relationship_type="uses",source_ref=X1.id,target_ref=Y.id); R2=mk("relationship",5,relationship_type="targets",source_ref=Z.id,target_ref=X1.id)
pop=[I,X1,X2,X3,Y,Z,R1,R2]
def key(o): return (o["id"],o["modified"].isoformat())
res=collections.Counter(); ex=collections.defaultdict(list); n=0
for assign in itertools.product((1,2,3),repeat=len(pop)):   # 1: m1, 2: m2, 3: both
    for order in (0,1):
        n+=1
        m1=MemorySource([o for o,a in zip(pop,assign) if a in(1,3)] or None); m2=MemorySource([o for o,a in zip(pop,assign) if a in(2,3)] or None)
        c=CompositeDataSource(); c.add_data_sources([m1,m2] if order==0 else [m2,m1])
        U_={key(o):o for o in pop}
        # get
        for id_ in {o["id"] for o in pop}:
            g=c.get(id_); exp=max(k for k in U_ if k[0]==id_)
            if key(g)!=exp: res[("get-not-newest",)]+=1; ex[("get-not-newest",)].append((assign,order,id_[:8]))
            av=[key(o) for o in c.all_versions(id_)]
            if sorted(av)!=sorted(k for k in U_ if k[0]==id_): res[("all_versions",)]+=1; ex[("all_versions",)].append((assign,order,av))
        q=[key(o) for o in c.query([Filter("type","=","malware")])]
        if sorted(q)!=sorted(k for k in U_ if k[0].startswith("malware")): res[("query",)]+=1
        # navigation
        for obj in (X1,Y,Z):
            for rt in (None,"uses"):
                for so,to in ((False,False),(True,False),(False,True)):
                    rels=[r for r in (R1,R2) if (rt is None or r.relationship_type==rt) and ((not to and r.source_ref==obj.id) or (not so and r.target_ref==obj.id))]
                    got=c.relationships(obj,relationship_type=rt,source_only=so,target_only=to)
                    if sorted(r.id for r in got)!=sorted(r.id for r in rels): res[("relationships",)]+=1; ex[("relationships",)].append((assign,order))
                    exp_ids={(r.target_ref if r.source_ref==obj.id else r.source_ref) for r in rels}
                    gotr={o["id"] for o in c.related_to(obj,relationship_type=rt,source_only=so,target_only=to)}
                    if gotr!=exp_ids:
                        k=("related_to","missing" if exp_ids-gotr else "extra"); res[k]+=1
                        if len(ex[k])<3: ex[k].append((assign,order,obj.id[:8],rt,so,to,sorted(x[:6] for x in gotr),sorted(x[:6] for x in exp_ids)))
                    else: res["nav-ok"]+=1
        cr=c.creator_of(X1)
        if cr is None or cr.id!=I.id: res[("creator_of",)]+=1
print(n,"configs")
for k,v in sorted(res.items(),key=str): print(v,k,ex.get(k,[])[:2])
