import itertools, sys, time, collections
from stix2.equivalence.pattern import equivalent_patterns as eq
# AST: ('leaf',k) k in 'X','Y','Z'; ('AND',l,r) ... ; ('Q', qual, sub)
LEAF = {'X':"[x:p = 1]", 'Y':"[x:q = 'a']", 'Z':"[x:p = 1 AND x:q = 'a']"}
SAT = {'X': lambda c: c in (1,3), 'Y': lambda c: c in (2,3), 'Z': lambda c: c==3}  # obs class bits: 1=p,2=q
QUALS = [('R',2),('W',1),('W',2),('S',0,2)]
def text(e, top=True):
    k=e[0]
    if k=='leaf': return LEAF[e[1]]
    if k=='Q':
        q=e[1]; s=text(e[2],False)
        if e[2][0] not in ('leaf',): s = s if s.startswith('(') else '('+s+')'
        if q[0]=='R': return "%s REPEATS %d TIMES"%(s,q[1])
        if q[0]=='W': return "%s WITHIN %d SECONDS"%(s,q[1])
        return "%s START t'2020-01-01T00:00:0%dZ' STOP t'2020-01-01T00:00:0%dZ'"%(s,q[1],q[2])
    s = "%s %s %s"%(text(e[1],False),k,text(e[2],False))
    return s if top else "("+s+")"
def ev(e, obs, sem):
    distinct, strict, wclosed = sem
    k=e[0]
    if k=='leaf': return {frozenset([i]) for i,(c,t) in enumerate(obs) if SAT[e[1]](c)}
    if k=='OR': return ev(e[1],obs,sem)|ev(e[2],obs,sem)
    if k in ('AND','FOLLOWEDBY'):
        L=ev(e[1],obs,sem); R=ev(e[2],obs,sem); out=set()
        for a in L:
            for b in R:
                if distinct and a&b: continue
                if k=='FOLLOWEDBY':
                    ta=max(obs[i][1] for i in a); tb=min(obs[i][1] for i in b)
                    if not (ta<tb if strict else ta<=tb): continue
                out.add(a|b)
        return out
    if k=='Q':
        q=e[1]; S=ev(e[2],obs,sem)
        if q[0]=='R':
            out=set()
            for combo in itertools.combinations(S,q[1]):
                if distinct and any(a&b for a,b in itertools.combinations(combo,2)): continue
                out.add(frozenset().union(*combo))
            return out
        if q[0]=='W':
            return {b for b in S if ((max(obs[i][1] for i in b)-min(obs[i][1] for i in b)) <= q[1] if wclosed else (max(obs[i][1] for i in b)-min(obs[i][1] for i in b)) < q[1])}
        return {b for b in S if all(q[1]<=obs[i][1]<q[2] for i in b)}
leaves=[('leaf',k) for k in 'XYZ']
ops=['AND','OR','FOLLOWEDBY']
trees=list(leaves)
two=[(o,a,b) for o in ops for a in leaves for b in leaves]
trees+=two
L2=[('leaf','X'),('leaf','Y')]
three=[(o1,(o2,a,b),c) for o1 in ops for o2 in ops for a in L2 for b in L2 for c in L2]+[(o1,a,(o2,b,c)) for o1 in ops for o2 in ops for a in L2 for b in L2 for c in L2]
trees+=three
qual=[]
for t in leaves+two[:]:
    for q in QUALS:
        qual.append(('Q',q,t))
        if t[0]!='leaf':
            qual.append((t[0],('Q',q,t[1]),t[2]))
trees+=qual
print(len(trees))
# universe
U=[]
for n in (1,2,3):
    for cs in itertools.product((0,1,2,3),repeat=n):
        for ts in itertools.combinations_with_replacement((0,1,2,3),n):
            U.append(list(zip(cs,ts)))
print("universe",len(U))
SEMS=list(itertools.product((True,False),(True,False),(True,False)))
t0=time.time()
sig={}
for e in trees:
    sig[e]=tuple(tuple(bool(ev(e,o,s)) for o in U) for s in SEMS)
print("eval",time.time()-t0)
texts={e:text(e) for e in trees}
# pair matrix on a subset
import random
sub=trees if len(sys.argv)<2 else trees[:int(sys.argv[1])]
t0=time.time(); n=0; bad=0; cnt=collections.Counter()
for i,P in enumerate(sub):
    for Q in sub[i:]:
        n+=1
        r=eq(texts[P],texts[Q]); cnt[r]+=1
        if r and all(sig[P][k]!=sig[Q][k] for k in range(len(SEMS))):
            bad+=1
            if bad<20: print("UNSOUND", texts[P], "==", texts[Q])
        elif r and any(sig[P][k]!=sig[Q][k] for k in range(len(SEMS))):
            cnt['disputed']+=1
print(n,"pairs",time.time()-t0,"s unsound",bad,cnt)
