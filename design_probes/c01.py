import stix2, json, warnings, itertools, collections
warnings.simplefilter('ignore')
from gen import all_instances
from stix2 import markings
from stix2.exceptions import InvalidSelectorError
res=collections.Counter(); ex=collections.defaultdict(list)
opts=[dict(pretty=p,sort_keys=s,indent=i,include_optional_defaults=d) for p in (False,True) for s in (False,True) for i in (None,0,2) for d in (False,True)]
def mk(ver,cat,t,d):
    if cat=="observables" and ver=="2.0": return stix2.parse_observable(d,{"*":"*"},version="2.0")
    return stix2.parse(d,version=ver)
n=0
for ver in ("2.0","2.1"):
    for (v,cat,t,mode,c,d) in all_instances(ver):
        try: o=mk(ver,cat,t,d)
        except Exception as e: res[("reject",ver,t,mode)]+=1; continue
        # C03: preserved
        out=json.loads(o.serialize(include_optional_defaults=True))
        for k,val in d.items():
            if out.get(k)!=val:
                res[("C03-changed",k)]+=1; ex[("C03-changed",k)].append((ver,t,val,out.get(k)))
        extra=set(out)-set(d)
        for k in extra: res[("C03-extra",k,json.dumps(out[k]))]+=1
        # C01
        texts={}
        for op in opts:
            n+=1
            key=tuple(sorted(op.items(),key=str))
            try:
                kw=dict(op); 
                if kw["indent"] is None: kw.pop("indent")
                text=o.serialize(**kw)
            except Exception as e: res[("C01-serialize-exc",type(e).__name__)]+=1; ex[("C01-serialize-exc",type(e).__name__)].append((ver,t,op)); continue
            texts[key]=text
            try:
                if cat=="observables" and ver=="2.0": p=stix2.parse_observable(text,{"*":"*"},version="2.0")
                else: p=stix2.parse(text)
            except Exception as e: res[("C01-reparse-exc",type(e).__name__)]+=1; ex[("C01-reparse-exc",type(e).__name__)].append((ver,t,mode,str(e)[:80])); continue
            if type(p) is not type(o): res[("C01-class",)]+=1; ex[("C01-class",)].append((ver,t,type(p).__name__))
            elif p!=o: res[("C01-neq",)]+=1; ex[("C01-neq",)].append((ver,t,mode))
            else:
                t2=p.serialize(**kw)
                if t2!=text: res[("C01-bytes",)]+=1; ex[("C01-bytes",)].append((ver,t,mode,op))
                else: res["ok"]+=1
            if op["pretty"] and not op["sort_keys"]:
                keys=[k for k,_ in json.loads(text,object_pairs_hook=list)]
                order=[k for k in c._properties if k in keys]
                if keys!=order: res[("C01-order",)]+=1; ex[("C01-order",)].append((ver,t,mode,keys,order))
        # cross-option equality modulo defaults
        js={k:json.loads(v) for k,v in texts.items()}
        full=[v for k,v in js.items() if dict(k)["include_optional_defaults"]]; part=[v for k,v in js.items() if not dict(k)["include_optional_defaults"]]
        if any(x!=full[0] for x in full) or any(x!=part[0] for x in part): res[("C01-options-differ",)]+=1; ex[("C01-options-differ",)].append((ver,t,mode))
        diff={k:full[0][k] for k in full[0] if k not in part[0]}
        for k,vv in diff.items(): res[("dropped-default",k,json.dumps(vv))]+=1
        if any(k in part[0] and part[0][k]!=full[0][k] for k in full[0] if not isinstance(full[0][k],(dict,list))): res[("C01-top-value-differs",)]+=1
print(n,"serializations")
for k,v in sorted(res.items(),key=str): print(v,k, ex.get(k,[])[:3])
