import stix2, json, warnings, itertools, collections, copy, datetime as dt, pytz, re
warnings.simplefilter('ignore')
import stix2.versioning as V, stix2.base as B
from stix2.utils import STIXdatetime
from stix2.exceptions import STIXError, UnmodifiablePropertyError, RevokeError, InvalidValueError
U="3f7f0c5f-5d54-4292-94ea-ec1e1952be1"
def inst(s):
    m=re.match(r"^(\d{4})-(\d\d)-(\d\d)T(\d\d):(\d\d):(\d\d)(?:\.(\d+))?Z$",s); 
    d=dt.datetime(*map(int,m.groups()[:6]),tzinfo=pytz.utc); f=(m.group(7) or ""); 
    return (d, int(f.ljust(6,"0")[:6]) , f[6:].rstrip("0"))
NOW=[dt.datetime(2020,1,1,tzinfo=pytz.utc)]
V.get_timestamp=lambda: STIXdatetime(NOW[0]); B.get_timestamp=V.get_timestamp
CLK=[-1000000,-1,0,1,999,1000,1001,1000000]
def ser(o): return o.serialize() if hasattr(o,"serialize") else json.dumps(o,default=lambda x: stix2.utils.format_datetime(x),sort_keys=True)
def J(o): return json.loads(ser(o))
starts={}
for ver,mod in (("2.0",stix2.v20),("2.1",stix2.v21)):
    base=dict(id="campaign--"+U+"1",created="2020-01-01T00:00:00.000Z",modified="2020-01-01T00:00:00.500Z",name="n",description="d",created_by_ref="identity--"+U+"0")
    o=mod.Campaign(**base); starts[(ver,"obj")]=o; starts[(ver,"dict")]=J(o)
starts[("2.1","obj-subms")]=stix2.v21.Campaign(id="campaign--"+U+"1",created="2020-01-01T00:00:00.000Z",modified="2020-01-01T00:00:00.500001Z",name="n",description="d")
def ops(cur):
    m=inst(J(cur)["modified"]); md=m[0]+dt.timedelta(microseconds=m[1])
    yield "chg-desc",dict(description="d2"),None
    yield "rm-desc",dict(description=None),None
    yield "add-obj",dict(objective="o"),None
    yield "rm-required",dict(name=None),"err"
    for k,v in (("id","campaign--"+U+"9"),("type","tool"),("created","2019-01-01T00:00:00.000Z"),("created_by_ref","identity--"+U+"8")): yield "unmod-"+k,{k:v},UnmodifiablePropertyError
    for nm,delta in (("mod-earlier",-1000),("mod-equal",0),("mod+1us",1),("mod+999us",999),("mod+1ms",1000),("mod+1s",1000000)):
        yield nm,dict(modified=md+dt.timedelta(microseconds=delta)),("modified",delta)
    yield "revoke",None,None
res=collections.Counter(); ex=collections.defaultdict(list); n=0
def explore(ver,kind,cur,hist,depth,chain):
    global n
    if depth==0: return
    before=ser(cur); jb=J(cur)
    mb=inst(jb["modified"]); mdb=mb[0]+dt.timedelta(microseconds=mb[1])
    for name,cs,expect in ops(cur):
        clocks=CLK if (cs is None or "modified" not in cs) else [0]
        for c in clocks:
            n+=1
            NOW[0]=mdb+dt.timedelta(microseconds=c)
            try:
                new = (V.revoke(cur) if cs is None else V.new_version(cur,**cs))
                err=None
            except STIXError as e: new=None; err=e
            except Exception as e: res[("ESC",name,type(e).__name__)]+=1; continue
            if ser(cur)!=before: res[("ORIGINAL-MUTATED",name)]+=1
            H=hist+[(name,c)]
            revoked=jb.get("revoked",False)
            if revoked:
                if not isinstance(err,RevokeError): res[("revoked-not-refused",name,ver,kind)]+=1; ex[("revoked-not-refused",name,ver,kind)].append(H)
                continue
            if isinstance(expect,type):
                if not isinstance(err,expect): res[("unmod-accepted",name,ver,kind)]+=1
                continue
            if expect=="err":
                if err is None: res[("required-removed",)]+=1
                continue
            if isinstance(expect,tuple):
                delta=expect[1]
                # strictly later at serialization precision: 2.0 ms exact; 2.1 exact us
                later = (delta>=1000) if ver=="2.0" else (delta>0)
                if later and err is not None: res[("explicit-later-refused",ver,kind,delta)]+=1; continue
                if not later:
                    if err is None: res[("explicit-not-later-accepted",ver,kind,delta)]+=1; ex[("explicit-not-later-accepted",ver,kind,delta)].append(H)
                    continue
            if err is not None: res[("unexpected-refusal",name,type(err).__name__)]+=1; ex[("unexpected-refusal",name,type(err).__name__)].append((H,str(err)[:80])); continue
            jn=J(new)
            for k in ("type","id","created","created_by_ref"):
                if jn.get(k)!=jb.get(k): res[("identity-changed",k)]+=1
            expd=dict(jb)
            if cs is None: expd["revoked"]=True
            else:
                for k,v in cs.items():
                    if k=="modified": continue
                    if v is None: expd.pop(k,None)
                    else: expd[k]=v
            a=dict(jn); a.pop("modified"); b=dict(expd); b.pop("modified")
            if a!=b: res[("changes-not-exact",name,ver,kind)]+=1; ex[("changes-not-exact",name,ver,kind)].append((H,a,b))
            mn=inst(jn["modified"])
            if not (mn>mb): res[("NOT-STRICTLY-LATER",ver,kind,name,c)]+=1; ex[("NOT-STRICTLY-LATER",ver,kind,name,c)].append((H,jb["modified"],jn["modified"]))
            else: res["ok"]+=1
            if type(new) is not type(cur): res[("class-changed",)]+=1
            explore(ver,kind,new,H,depth-1,chain+[mn])
for (ver,kind),o in starts.items():
    explore(ver,kind,o,[],2,[])
print(n,"transitions")
for k,v in sorted(res.items(),key=str): print(v,k,ex.get(k,[])[:1])
