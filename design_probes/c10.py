import itertools, collections, re, sys
from antlr4 import TerminalNode
from stix2patterns.v21.pattern import Pattern as P21
from stix2patterns.v21.grammars.STIXPatternParser import STIXPatternParser as PP
from stix2.pattern_visitor import create_pattern_object as cpo
# ---------- independent reader: parse tree -> AST (tuples)
def txt(n): return n.getText()
def unesc(s): # string literal body -> value
    out=[];i=0
    while i<len(s):
        if s[i]=="\\": out.append(s[i+1]); i+=2
        else: out.append(s[i]); i+=1
    return "".join(out)
def lit(tok):
    t=tok.symbol.type; s=tok.getText()
    if t in (PP.IntPosLiteral,PP.IntNegLiteral): return ("int",int(s))
    if t in (PP.FloatPosLiteral,PP.FloatNegLiteral): return ("float",float(s))
    if t==PP.StringLiteral: return ("str",unesc(s[1:-1]))
    if t==PP.BoolLiteral: return ("bool",s=="true")
    if t==PP.HexLiteral: return ("hex",s[2:-1].lower())
    if t==PP.BinaryLiteral: return ("bin",s[2:-1])
    if t==PP.TimestampLiteral: return ("ts",s[2:-1])
    raise ValueError(s)
def terminals(ctx):
    return [c for c in ctx.getChildren() if isinstance(c,TerminalNode)]
def rd(ctx):
    n=type(ctx).__name__
    ch=list(ctx.getChildren())
    if n=="PatternContext": return rd(ch[0])
    if n in("ObservationExpressionsContext","ObservationExpressionOrContext","ObservationExpressionAndContext"):
        if len(ch)==1: return rd(ch[0])
        return ("obs",txt(ch[1]),rd(ch[0]),rd(ch[2]))
    if n=="ObservationExpressionSimpleContext": return ("leaf",rd(ch[1]))
    if n=="ObservationExpressionCompoundContext": return ("paren",rd(ch[1]))
    if n in("ObservationExpressionRepeatedContext","ObservationExpressionWithinContext","ObservationExpressionStartStopContext"):
        return ("qual",rd(ch[1]),rd(ch[0]))
    if n=="RepeatedQualifierContext": return ("REPEATS",lit(ch[1]))
    if n=="WithinQualifierContext": return ("WITHIN",lit(ch[1]))
    if n=="StartStopQualifierContext": return ("STARTSTOP",lit(ch[1]),lit(ch[3]))
    if n in("ComparisonExpressionContext","ComparisonExpressionAndContext"):
        if len(ch)==1: return rd(ch[0])
        return ("bool",txt(ch[1]),rd(ch[0]),rd(ch[2]))
    if n=="PropTestParenContext": return ("paren",rd(ch[1]))
    if n=="PropTestExistsContext":
        return ("cmp","EXISTS",ctx.NOT() is not None,rd(ctx.objectPath()),None)
    if n.startswith("PropTest"):
        neg=ctx.NOT() is not None
        toks=[t for t in terminals(ctx) if t.symbol.type!=PP.NOT]
        op=txt(toks[0])
        rhs=ch[-1]
        return ("cmp",op,neg,rd(ctx.objectPath()),rd(rhs) if not isinstance(rhs,TerminalNode) else lit(rhs))
    if n=="SetLiteralContext": return ("set",tuple(rd(c) if not isinstance(c,TerminalNode) else None for c in ch if not isinstance(c,TerminalNode)))
    if n in("PrimitiveLiteralContext","OrderableLiteralContext"):
        c=ch[0]; return lit(c) if isinstance(c,TerminalNode) else rd(c)
    if n=="ObjectPathContext":
        steps=[]
        def walk(c):
            m=type(c).__name__
            if m=="FirstPathComponentContext":
                t=c.getChild(0); steps.append(("key", unesc(txt(t)[1:-1]) if t.symbol.type==PP.StringLiteral else txt(t)))
            elif m=="KeyPathStepContext":
                t=c.getChild(1); steps.append(("key", unesc(txt(t)[1:-1]) if t.symbol.type==PP.StringLiteral else txt(t)))
            elif m=="IndexPathStepContext":
                t=c.getChild(1); steps.append(("idx", txt(t)))
            elif m=="PathStepContext":
                for k in c.getChildren(): walk(k)
            elif not isinstance(c,TerminalNode):
                for k in c.getChildren(): walk(k)
        for c in ch[2:]: walk(c)
        return ("path",txt(ch[0]),tuple(steps))
    raise ValueError(n)
def read(text):
    p=P21(text); return rd(p._Pattern__parse_tree)
def norm(a):
    # remove parens, flatten same assoc ops; '!=' == NOT '=' ; '<>' too
    k=a[0]
    if k=="paren": return norm(a[1])
    if k in("obs","bool"):
        op=a[1]; items=[]
        for s in (norm(a[2]),norm(a[3])):
            if s[0]==k+"N" and s[1]==op: items+=list(s[2])
            else: items.append(s)
        return (k+"N",op,tuple(items))
    if k=="leaf": return ("leaf",norm(a[1]))
    if k=="qual": return ("qual",a[1],norm(a[2]))
    if k=="cmp":
        op,neg=a[1],a[2]
        if op in("!=","<>"): op,neg="=",not neg
        rhs=a[4]
        if rhs and rhs[0]=="ts": rhs=("ts",re.sub(r"\.?0*Z$","Z",rhs[1]))
        return ("cmp",op,neg,a[3],rhs)
    return a
# ---------- generator (text only, from menus)
ops=["=","!=","<",">=","IN","LIKE","MATCHES","ISSUBSET","ISSUPERSET"]
consts={"=":"1","!=":"1","<":"1",">=":"1","IN":"(1, 2)","LIKE":"'a%'","MATCHES":"'^a'","ISSUBSET":"'1.2.3.0/24'","ISSUPERSET":"'1.2.3.0/24'"}
cases=[]
for op in ops:
    for neg in ("","NOT "):
        cases.append("[x:p %s%s %s]"%(neg,op,consts[op]))
cases+=["[x:p EXISTS]","[EXISTS x:p]","[NOT EXISTS x:p]"]
for c in ["-1","1.5","'a'","'it\\'s'","'back\\\\slash'","'ü😀'","true","h'AB'","b'YQ=='","t'2017-01-01T00:00:00Z'","t'2017-01-01T00:00:00.123456Z'","t'2017-01-01T00:00:00.000Z'","'1' ","('a', 'b')"]:
    cases.append("[x:p = %s]"%c)
for path in ["p.q","p[1]","p[*].q","p_ref.q","'k-k'","hashes.'SHA-256'","hashes.MD5","'k k'","'k.k'","p.'q'","p[1][2]"]:
    cases.append("[x:%s = 1]"%path)
cases.append("[x-y:p = 1]")
A,B,C="x:p = 1","x:q = 2","x:r = 3"
for s in ["%s AND %s OR %s","%s OR %s AND %s","(%s OR %s) AND %s","%s AND (%s OR %s)","(%s AND %s) OR %s","%s AND (%s AND %s)","(%s) AND %s AND %s","%s OR (%s OR %s)","((%s OR %s)) AND %s"]:
    cases.append("["+s%(A,B,C)+"]")
X,Y,Z="[x:p = 1]","[x:q = 2]","[x:r = 3]"
for o1,o2 in itertools.product(["AND","OR","FOLLOWEDBY"],repeat=2):
    cases.append("%s %s %s %s %s"%(X,o1,Y,o2,Z)); cases.append("(%s %s %s) %s %s"%(X,o1,Y,o2,Z)); cases.append("%s %s (%s %s %s)"%(X,o1,Y,o2,Z))
for q in ["REPEATS 2 TIMES","WITHIN 5 SECONDS","START t'2017-01-01T00:00:00Z' STOP t'2018-01-01T00:00:00Z'","REPEATS 2 TIMES WITHIN 5 SECONDS"]:
    cases+=["%s %s"%(X,q),"(%s AND %s) %s"%(X,Y,q),"%s AND %s %s"%(X,Y,q),"(%s %s) AND %s"%(X,q,Y)]
res=collections.Counter(); ex={}
for t in cases:
    try: a0=norm(read(t))
    except Exception as e: res[("generator-invalid",type(e).__name__)]+=1; ex.setdefault(("generator-invalid",type(e).__name__),t); continue
    try: t2=str(cpo(t,version="2.1"))
    except Exception as e: k=("lib-parse-fails",type(e).__name__); res[k]+=1; ex.setdefault(k,[]).append(t) if isinstance(ex.get(k),list) else ex.__setitem__(k,[t]); continue
    try: a2=norm(read(t2))
    except Exception as e: k=("printed-invalid",); res[k]+=1; ex.setdefault(k,[]); ex[k].append((t,t2)); continue
    if a2!=a0: k=("meaning-changed",); res[k]+=1; ex.setdefault(k,[]); ex[k].append((t,t2))
    else:
        t3=str(cpo(t2,version="2.1"))
        if t3!=t2: res[("not-fixpoint",)]+=1
        else: res[("ok",)]+=1
print(len(cases),"cases")
for k,v in res.items():
    print(v,k)
    for e in (ex.get(k) if isinstance(ex.get(k),list) else [ex.get(k)]) or []: print("     ",e)
