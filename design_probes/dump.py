import stix2, inspect, json
from stix2 import properties as P, registry
from stix2.base import _STIXBase
def desc(p):
    n=type(p).__name__; d={}
    for a in ('required','min','max','precision','precision_constraint','spec_version','valid_types','invalid_types','allowed','required_prefix'):
        if hasattr(p,a):
            v=getattr(p,a)
            if a=='allowed' and isinstance(v,list) and len(v)>6: v="[%d entries]"%len(v)
            if v not in (None,False) : d[a]=v
    if hasattr(p,'_fixed_value'): d['fixed']=p._fixed_value
    if hasattr(p,'default') and not hasattr(p,'_fixed_value'):
        try:
            dv=p.default(); d['default']= 'NOW' if dv is stix2.utils.NOW else (dv if not isinstance(dv,str) or '--' not in dv else 'gen-id')
        except Exception as e: d['default']='?'
    if isinstance(p,P.ReferenceProperty):
        d['auth']='white' if p.auth_type==0 else 'black'; d['generics']=sorted(x.name for x in p.generics); d['specifics']=sorted(p.specifics)
    if isinstance(p,P.ListProperty):
        c=p.contained
        d['of']= desc(c) if isinstance(c,P.Property) else c.__name__
    if isinstance(p,P.EmbeddedObjectProperty): d['type']=p.type.__name__
    return n+(" "+json.dumps(d,default=str) if d else "")
seen=set()
def dump(cls, label):
    if cls in seen: return
    seen.add(cls)
    print("###",label,cls.__module__.split('.')[1],cls.__name__, getattr(cls,'_id_contributing_properties',''))
    for k,p in cls._properties.items(): print("   ",k,":",desc(p))
    src=inspect.getsource(cls)
    if '_check_object_constraints' in src: print("    [has constraints]")
    for k,p in cls._properties.items():
        for q in (p, getattr(p,'contained',None)):
            if isinstance(q,P.EmbeddedObjectProperty): dump(q.type,'embedded')
            if inspect.isclass(q) and issubclass(q,_STIXBase): dump(q,'embedded')
import sys
ver=sys.argv[1]
for cat in ('objects','observables','extensions','markings'):
    for t,c in sorted(registry.STIX2_OBJ_MAPS[ver][cat].items()): dump(c,cat+":"+t)
