import stix2, json, warnings, itertools, collections, uuid, copy
warnings.simplefilter('ignore')
from stix2.exceptions import STIXError
U="3f7f0c5f-5d54-4292-94ea-ec1e1952be1"
def ok(f):
    try: return True, f()
    except (STIXError,ValueError,TypeError) as e: return False, type(e).__name__
    except Exception as e: return False, "ESCAPE:"+type(e).__name__
file21=dict(type="file",spec_version="2.1",id="file--"+U+"1",name="f",hashes={"MD5":"d41d8cd98f00b204e9800998ecf8427e"},extensions={"ntfs-ext":{"sid":"s","alternate_data_streams":[{"name":"ads","hashes":{"SHA-1":"a"*40}}]},"windows-pebinary-ext":{"pe_type":"exe","optional_header":{"magic_hex":"ab"},"sections":[{"name":"s"}]}})
ind21=dict(type="indicator",spec_version="2.1",id="indicator--"+U+"2",created="2020-01-01T00:00:00.000Z",modified="2020-01-01T00:00:00.000Z",pattern="[a:b = 1]",pattern_type="stix",valid_from="2020-01-01T00:00:00Z",
  external_references=[{"source_name":"s","url":"u","hashes":{"SHA-256":"a"*64}}],kill_chain_phases=[{"kill_chain_name":"k","phase_name":"p"}],granular_markings=[{"marking_ref":stix2.TLP_RED.id,"selectors":["pattern"]}],created_by_ref="identity--"+U+"3")
rep21=dict(type="report",spec_version="2.1",id="report--"+U+"4",created="2020-01-01T00:00:00.000Z",modified="2020-01-01T00:00:00.000Z",name="r",published="2020-01-01T00:00:00Z",object_refs=["indicator--"+U+"2"])
md=dict(type="marking-definition",spec_version="2.1",id="marking-definition--"+U+"5",created="2020-01-01T00:00:00.000Z",definition_type="statement",definition={"statement":"s"})
em=dict(type="email-message",spec_version="2.1",id="email-message--"+U+"6",is_multipart=True,body_multipart=[{"body":"b","content_type":"text/plain"}])
bases={"file":file21,"indicator":ind21,"report":rep21,"marking-definition":md,"email-message":em}
def sites(o, path=()):
    # yield (path, kind) for dict-like objects where a custom prop can be injected, hashes dicts, refs
    if isinstance(o,dict):
        yield path,"obj"
        for k,v in o.items():
            if k=="hashes": yield path+(k,),"hashes"
            elif k.endswith("_ref") and isinstance(v,str): yield path+(k,),"ref"
            elif k.endswith("_refs"): yield path+(k,0),"ref"
            elif k=="extensions": 
                yield path+(k,),"extmap"
                for ek,ev in v.items(): yield from sites(ev,path+(k,ek))
            elif isinstance(v,dict) and k not in("definition",): yield from sites(v,path+(k,))
            elif k=="definition": yield from sites(v,path+(k,))
            elif isinstance(v,list):
                for i,e in enumerate(v):
                    if isinstance(e,dict): yield from sites(e,path+(k,i))
def setpath(o,path,fn):
    o=copy.deepcopy(o); cur=o
    for p in path[:-1]: cur=cur[p]
    if path: cur[path[-1]]=fn(cur[path[-1]])
    else: o=fn(o)
    return o
res=collections.Counter(); ex={}
for name,b in bases.items():
    # zero injection
    s,o=ok(lambda: stix2.parse(b,allow_custom=True)); assert s,(name,o)
    if o.has_custom: res[("base-flag-true",name)]+=1
    for path,kind in sites(b):
        if kind=="obj": inj=[("x_foo",lambda d: dict(d,x_foo=1)),("foo",lambda d: dict(d,foo_bar=1))]
        elif kind=="hashes": inj=[("unk-hash",lambda d: dict(d,foo="abc")),("nonspec-hash",lambda d: dict(d,**{"SHA-224":"a"*56}))]
        elif kind=="ref": inj=[("custom-ref",lambda v: "x-foo--"+U+"9")]
        elif kind=="extmap": inj=[("unk-ext",lambda d: dict(d,**{"x-foo-ext":{"a":1}})),("unk-extdef-prop",lambda d: dict(d,**{"extension-definition--"+U+"8":{"extension_type":"property-extension","a":1}})),("unk-extdef-toplevel",lambda d: dict(d,**{"extension-definition--"+U+"8":{"extension_type":"toplevel-property-extension"}}))]
        for iname,fn in inj:
            d=setpath(b,path,fn)
            s0,r0=ok(lambda: stix2.parse(d,allow_custom=False))
            s1,r1=ok(lambda: stix2.parse(d,allow_custom=True))
            key=(name,".".join(map(str,path)),iname)
            if not s1: res[("permissive-refused",)+key+(r1,)]+=1; continue
            flag=r1.has_custom
            s2,r2=ok(lambda: stix2.parse(r1.serialize(),allow_custom=False))
            if flag==s2: res[("FLAG-MISMATCH flag=%s strict_ok=%s"%(flag,s2),)+key]+=1
            if s0 and flag: res[("STRICT-ACCEPTED-CUSTOM",)+key]+=1
            res["ok"]+=1
for k,v in sorted(res.items(),key=str): print(v,k)
