import stix2, json, warnings, itertools, collections, datetime as dt, pytz
warnings.simplefilter('ignore')
import stix2.versioning as V, stix2.base as B
from stix2.utils import STIXdatetime
from stix2 import markings
from stix2.exceptions import MarkingNotFoundError, InvalidSelectorError
T=[dt.datetime(2020,1,1,tzinfo=pytz.utc)]
def clock():
    T[0]+=dt.timedelta(seconds=1); return STIXdatetime(T[0])
V.get_timestamp=clock; B.get_timestamp=clock
RED=stix2.TLP_RED.id; GRN=stix2.TLP_GREEN.id
base=dict(type="malware",spec_version="2.1",id="malware--3f7f0c5f-5d54-4292-94ea-ec1e1952be17",created="2020-01-01T00:00:00.000Z",modified="2020-01-01T00:00:00.000Z",
  name="n",description="d",is_family=False,created_by_ref="identity--3f7f0c5f-5d54-4292-94ea-ec1e1952be17",labels=["l0","l1"],external_references=[{"source_name":"s","description":"x"}])
S=["name","description","created","created_by_ref","labels","labels.[0]","labels.[1]","external_references","external_references.[0]","external_references.[0].description"]
M=[RED,GRN,"en"]
def pairs(o):
    out=set()
    for m in o.get("object_marking_refs",[]): out.add((None,m))
    for g in o.get("granular_markings",[]):
        for s in g["selectors"]: out.add((s, g.get("marking_ref") or g.get("lang")))
    return frozenset(out)
def comps(s): return tuple(s.split("."))
def anc(a,b): # a is strict ancestor of b
    ca,cb=comps(a),comps(b); return len(ca)<len(cb) and cb[:len(ca)]==ca
def model_get(ps, sel, inh, desc):
    r=set()
    for (s,m) in ps:
        if s is None:
            if inh: r.add(m)
        elif s==sel or (inh and anc(s,sel)) or (desc and anc(sel,s)): r.add(m)
    return r
def build(kind, ps):
    d=dict(base)
    om=[m for s,m in ps if s is None]
    gm=[({"lang":m} if m in("en","fr") else {"marking_ref":m})|{"selectors":[s]} for s,m in ps if s is not None]
    if om: d["object_marking_refs"]=om
    if gm: d["granular_markings"]=gm
    return d if kind=="dict" else stix2.parse(d)
issues=collections.Counter(); ex={}
def note(k,e):
    issues[k]+=1; ex.setdefault(k,e)
for kind in ("dict","obj"):
  # states: all sets of <=2 pairs over a reduced alphabet
  P=[(s,m) for s in [None]+S for m in M if not (s is None and m=="en")]
  states=[frozenset(c) for n in (0,1,2) for c in itertools.combinations(P,n)]
  nq=0
  for ps in states:
    try: o=build(kind,ps)
    except Exception as e: note(("build",kind,type(e).__name__), (sorted(map(str,ps)),str(e)[:80])); continue
    if pairs(o)!=ps: note(("build-mismatch",kind),(ps,pairs(o)))
    # queries
    for sel in S:
        for inh in (False,True):
            for desc in (False,True):
                try: got=set(markings.get_markings(o,[sel],inherited=inh,descendants=desc))
                except InvalidSelectorError: note(("invalid-selector",kind,sel),None); continue
                exp=model_get(ps,sel,inh,desc); nq+=1
                if got!=exp: note(("get",kind,inh,desc, "extra" if got-exp else "missing"),(sorted(map(str,ps)),sel,sorted(got),sorted(exp)))
                for m in M:
                    im=markings.is_marked(o,m,[sel],inherited=inh,descendants=desc)
                    if im!=(m in got): note(("is_marked-vs-get",kind,inh,desc,im),(sorted(map(str,ps)),sel,m,sorted(got)))
    # ops: add one pair
    for (s,m) in P:
        try:
            n=markings.add_markings(o,m,None if s is None else [s])
            if pairs(n)!=ps|{(s,m)}: note(("add",kind),(ps,(s,m),pairs(n)))
        except InvalidSelectorError: pass
        except Exception as e: note(("add-exc",kind,type(e).__name__),(sorted(map(str,ps)),(s,m),str(e)[:80]))
        try:
            n=markings.remove_markings(o,m,None if s is None else [s])
            exp=ps-{(s,m)}
            if pairs(n)!=exp: note(("remove",kind),(ps,(s,m),pairs(n)))
        except MarkingNotFoundError:
            if (s,m) in ps: note(("remove-notfound-but-present",kind),(ps,(s,m)))
        except InvalidSelectorError: pass
        except Exception as e: note(("remove-exc",kind,type(e).__name__),(sorted(map(str,ps)),(s,m),str(e)[:80]))
    for s in [None]+S:
        try:
            n=markings.clear_markings(o,None if s is None else [s])
            exp=frozenset(p for p in ps if p[0]!=s)
            if pairs(n)!=exp: note(("clear",kind),(ps,s,pairs(n)))
        except MarkingNotFoundError:
            if any(p[0]==s for p in ps): note(("clear-notfound-but-present",kind),(ps,s))
        except InvalidSelectorError: pass
        except Exception as e: note(("clear-exc",kind,type(e).__name__),(sorted(map(str,ps)),s,str(e)[:80]))
  print(kind,"states",len(states),"queries",nq)
for k,v in sorted(issues.items(),key=str): print(v,k,ex[k])
