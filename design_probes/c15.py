import datetime as dt, time, pytz
from stix2.utils import format_datetime, parse_into_datetime, STIXdatetime
def ref(us, p, c):
    if p=="second":
        frac = "" if c=="exact" else ("%06d"%us).rstrip("0")
    elif p=="millisecond":
        frac = ("%06d"%us)[:3] if c=="exact" else ("%06d"%us).rstrip("0").ljust(3,"0")
    else: frac=("%06d"%us).rstrip("0")
    return "2017-03-04T05:06:07"+("."+frac if frac else "")+"Z"
t=time.time(); bad=0; n=0
base=dt.datetime(2017,3,4,5,6,7,tzinfo=pytz.utc)
for us in range(0,1000000,7):
    d=base.replace(microsecond=us)
    for p in ("any","second","millisecond"):
        for c in ("exact","min"):
            n+=1
            if format_datetime(parse_into_datetime(d,p,c))!=ref(us,p,c): bad+=1
print(n, time.time()-t, "s bad", bad, "=> full 6M est", (time.time()-t)*7, "s cpu")
