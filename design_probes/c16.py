import struct, decimal, json, time, itertools, math
from stix2.canonicalization.Canonicalize import canonicalize
def es6(x):
    if x==0: return "0"
    if x!=x or x in (float('inf'),float('-inf')): raise ValueError
    sign="-" if x<0 else ""; x=abs(x)
    t=decimal.Decimal(repr(x)).as_tuple()
    digits="".join(map(str,t.digits)).rstrip("0") or "0"
    # value = 0.d1d2... * 10^n  where n = len(all digits)+exponent
    n=len(t.digits)+t.exponent; k=len(digits)
    if k<=n<=21: return sign+digits+"0"*(n-k)
    if 0<n<=21: return sign+digits[:n]+"."+digits[n:]
    if -6<n<=0: return sign+"0."+"0"*(-n)+digits
    e=n-1; es=("+" if e>=0 else "-")+str(abs(e))
    if k==1: return sign+digits+"e"+es
    return sign+digits[0]+"."+digits[1:]+"e"+es
vec={0x0000000000000000:"0",0x8000000000000000:"0",0x0000000000000001:"5e-324",0x8000000000000001:"-5e-324",0x7fefffffffffffff:"1.7976931348623157e+308",0xffefffffffffffff:"-1.7976931348623157e+308",
0x4340000000000000:"9007199254740992",0xc340000000000000:"-9007199254740992",0x4430000000000000:"295147905179352830000",0x44b52d02c7e14af5:"9.999999999999997e+22",0x44b52d02c7e14af6:"1e+23",0x44b52d02c7e14af7:"1.0000000000000001e+23",
0x444b1ae4d6e2ef4e:"999999999999999700000",0x444b1ae4d6e2ef4f:"999999999999999900000",0x444b1ae4d6e2ef50:"1e+21",0x3eb0c6f7a0b5ed8c:"9.999999999999997e-7",0x3eb0c6f7a0b5ed8d:"0.000001",0x41b3de4355555553:"333333333.3333332",0x41b3de4355555554:"333333333.33333325",0x41b3de4355555555:"333333333.3333333",0x41b3de4355555556:"333333333.3333334",0x41b3de4355555557:"333333333.33333343",0xbecbf647612f3696:"-0.0000033333333333333333",0x43143ff3c1cb0959:"1424953923781206.2"}
for b,s in vec.items():
    x=struct.unpack(">d",struct.pack(">Q",b))[0]
    assert es6(x)==s,(hex(b),es6(x),s)
print("RFC vectors ok")
t=time.time(); n=0; bad=0
for e in range(0,2047):
    for m in (0,1,2,1<<51,(1<<52)-1,0x5555555555555,0xAAAAAAAAAAAAA,0xFFFFF,12345678901,(1<<52)-2):
        for sg in (0,1):
            b=(sg<<63)|(e<<52)|m
            x=struct.unpack(">d",struct.pack(">Q",b))[0]
            n+=1
            got=canonicalize(x,utf8=False); exp=es6(x)
            if got!=exp:
                bad+=1
                if bad<5: print("DIFF",hex(b),x,got,exp)
print(n,"doubles",time.time()-t,"s bad",bad)
# ints
for v in [0,1,-1,2**53,2**53+1,10**21,10**21-1,10**22,2**63,2**64, 10**15, 123456789012345678]:
    try: print(v, canonicalize(v,utf8=False), es6(float(v)))
    except Exception as e: print(v,"ERR",type(e).__name__,e)
# keys
ks=["","a","A","aa","\n","é","","\U00010000"]
def jcs(v):
    if isinstance(v,dict):
        items=sorted(v.items(), key=lambda kv:[c for c in kv[0].encode('utf-16-be')] and list(struct.unpack(">%dH"%(len(kv[0].encode('utf-16-be'))//2), kv[0].encode('utf-16-be'))))
        return "{"+",".join(json.dumps(k,ensure_ascii=False)+":"+jcs(x) for k,x in items)+"}"
    return json.dumps(v)
bad=0;n=0
for r in (2,3):
    for sub in itertools.permutations(ks,r):
        d={k:i for i,k in enumerate(sub)}; n+=1
        if canonicalize(d,utf8=False)!=jcs(d): bad+=1
print(n,"dicts bad",bad)
print(canonicalize({"":1,"\U00010000":2},utf8=False))
for s in ["\x7f","\x1f"," ","/","\ud800"]:
    try: print(repr(s), canonicalize(s,utf8=False))
    except Exception as e: print(repr(s),"ERR",type(e).__name__)
