import stix2, json, warnings, itertools, collections, copy, re, math
warnings.simplefilter('ignore')
from gen import all_instances
from stix2 import properties as P
from stix2.exceptions import STIXError
from stix2.base import _STIXBase
JUNK=[None,True,0,1.5,"s","",[],[1],{},{"a":1},[[]],[{}],{"a":{}},[None],-1,2**53+1,"12","true","nan","inf",float("nan"),1e400,"2020-01-01T00:00:00Z","x--1"]
TSRE=re.compile(r"^\d{4}-\d\d-\d\dT\d\d:\d\d:\d\d(\.\d+)?Z$")
def kindcheck(p,v,ver):
    n=type(p).__name__
    if hasattr(p,"_fixed_value"): return v==p._fixed_value
    if n=="ListProperty":
        if not isinstance(v,list) or not v: return False
        c=p.contained
        return all(kindcheck(c,x,ver) if isinstance(c,P.Property) else objcheck(c,x,ver)==[] for x in v)
    if n in("StringProperty","PatternProperty","OpenVocabProperty","ObjectReferenceProperty","SelectorProperty"): return isinstance(v,str)
    if n=="EnumProperty": return v in p.allowed
    if n=="IntegerProperty": return isinstance(v,int) and not isinstance(v,bool) and (p.min is None or v>=p.min) and (p.max is None or v<=p.max)
    if n=="FloatProperty": return isinstance(v,(int,float)) and not isinstance(v,bool) and math.isfinite(v)
    if n=="BooleanProperty": return isinstance(v,bool)
    if n=="TimestampProperty": return isinstance(v,str) and bool(TSRE.match(v))
    if n in("DictionaryProperty","HashesProperty","ExtensionsProperty","ObservableProperty"): return isinstance(v,dict) and len(v)>0
    if n in("IDProperty","ReferenceProperty"): return isinstance(v,str) and bool(re.match(r"^[a-z0-9-]+--[0-9a-f]{8}-[0-9a-f]{4}-[1-5][0-9a-f]{3}-[89ab][0-9a-f]{3}-[0-9a-f]{12}$",v))
    if n=="EmbeddedObjectProperty": return objcheck(p.type,v,ver)==[]
    if n in("BinaryProperty","HexProperty"): return isinstance(v,str)
    return True
def objcheck(cls,j,ver):
    bad=[]
    if not isinstance(j,dict): return ["not-object"]
    for k,v in j.items():
        p=cls._properties.get(k)
        if p is None: bad.append(("unknown",k)); continue
        if v is None: bad.append(("null",k)); continue
        if not kindcheck(p,v,ver): bad.append((type(p).__name__,k,json.dumps(v)[:40]))
    return bad
def slots(v,pre=()):
    if isinstance(v,dict):
        for k,x in v.items():
            yield pre+(k,); yield from slots(x,pre+(k,))
    elif isinstance(v,list):
        for i,x in enumerate(v):
            yield pre+(i,); yield from slots(x,pre+(i,))
def setp(o,path,val):
    o=copy.deepcopy(o); cur=o
    for p in path[:-1]: cur=cur[p]
    cur[path[-1]]=val; return o
res=collections.Counter(); ex=collections.defaultdict(list); n=0
for ver in ("2.0","2.1"):
    for (v,cat,t,mode,c,d) in all_instances(ver):
        if cat=="observables" and ver=="2.0": continue
        if mode!="max" or t=="bundle": continue
        for path in slots(d):
            for j in JUNK:
                dd=setp(d,path,j); n+=1
                try: o=stix2.parse(dd,allow_custom=False,version=ver)
                except Exception: res["refused"]+=1; continue
                try: out=json.loads(o.serialize())
                except Exception as e: res[("serialize-fails",type(e).__name__)]+=1; ex[("serialize-fails",type(e).__name__)].append((ver,t,path,repr(j))); continue
                bad=objcheck(c,out,ver)
                if bad:
                    for b in bad:
                        k=("INVALID-OUT",b[0], repr(j)[:12]); res[k]+=1
                        if len(ex[k])<2: ex[k].append((ver,t,path,b))
                else: res["accepted-valid"]+=1
print(n)
for k,v in sorted(res.items(),key=str): print(v,k,ex.get(k,[])[:1])
