# calibration probe for C13 (frame-condition monitor): snapshot args / existing objects around public ops
import stix2, json, warnings, itertools, collections, copy, tempfile, shutil, os, datetime as dt
warnings.simplefilter('ignore')
from stix2 import markings, MemoryStore, FileSystemStore, Environment, ObjectFactory, Filter, CompositeDataSource
from stix2.base import _STIXBase
U="3f7f0c5f-5d54-4292-94ea-ec1e1952be1"
def snap(v):
    if isinstance(v,_STIXBase): return ("obj",type(v).__name__,v.serialize(include_optional_defaults=True),snap(dict(v._inner)))
    if isinstance(v,dict): return ("dict",tuple((k,snap(x)) for k,x in v.items()))
    if isinstance(v,list): return ("list",tuple(snap(x) for x in v))
    if isinstance(v,tuple): return ("tuple",tuple(snap(x) for x in v))
    if isinstance(v,dt.datetime): return ("dt",v.isoformat(),getattr(v,"precision",None))
    return (type(v).__name__,repr(v))
RED=stix2.TLP_RED
def fresh():
    ext={"source_name":"s","url":"u","hashes":{"MD5":"d41d8cd98f00b204e9800998ecf8427e"}}
    d=dict(type="malware",spec_version="2.1",id="malware--"+U+"1",created="2020-01-01T00:00:00.000Z",modified="2020-01-01T00:00:00.000Z",name="n",is_family=False,
           labels=["a","b"],external_references=[ext],granular_markings=[{"marking_ref":RED.id,"selectors":["name","labels"]}],object_marking_refs=[stix2.TLP_GREEN.id],x_custom={"k":[1,{"z":2}]})
    o=stix2.parse(copy.deepcopy(d),allow_custom=True)
    sco=dict(type="file",spec_version="2.1",name="f",hashes={"MD5":"d41d8cd98f00b204e9800998ecf8427e"},extensions={"ntfs-ext":{"sid":"s","alternate_data_streams":[{"name":"a"}]}})
    od=dict(type="observed-data",spec_version="2.1",id="observed-data--"+U+"2",created="2020-01-01T00:00:00.000Z",modified="2020-01-01T00:00:00.000Z",first_observed="2020-01-01T00:00:00Z",last_observed="2020-01-01T00:00:00Z",number_observed=1,
            objects={"0":copy.deepcopy(sco),"1":{"type":"directory","path":"p","contains_refs":[]} } )
    od["objects"]["1"].pop("contains_refs")
    return dict(d=d,o=o,sco=sco,od=od,marks=[RED.id,"en"],sels=["name","labels.[0]"],lst=[o,copy.deepcopy(d)])
tmp=tempfile.mkdtemp(dir="/dev/shm")
cnt=[0]
def fsdir():
    cnt[0]+=1; p=os.path.join(tmp,"d%d"%cnt[0]); os.makedirs(p); return p
OPS={
 "ctor-kwargs": lambda a: stix2.v21.Malware(allow_custom=True,**a["d"]),
 "parse-dict": lambda a: stix2.parse(a["d"],allow_custom=True),
 "parse-sco": lambda a: stix2.parse(a["sco"]),
 "parse-od": lambda a: stix2.parse(a["od"]),
 "parse_observable": lambda a: stix2.parse_observable(a["sco"],[],version="2.1"),
 "deepcopy": lambda a: copy.deepcopy(a["o"]),
 "serialize": lambda a: a["o"].serialize(pretty=True),
 "new_version-obj": lambda a: a["o"].new_version(labels=a["sels"]),
 "new_version-dict": lambda a: stix2.new_version(a["d"],labels=a["sels"]),
 "revoke-dict": lambda a: stix2.revoke(a["d"]),
 "add_markings-obj": lambda a: markings.add_markings(a["o"],a["marks"],a["sels"]),
 "add_markings-dict": lambda a: markings.add_markings(a["d"],a["marks"],a["sels"]),
 "remove_markings-dict": lambda a: markings.remove_markings(a["d"],RED.id,["name"]),
 "clear_markings-dict": lambda a: markings.clear_markings(a["d"],["name"]),
 "set_markings-dict": lambda a: markings.set_markings(a["d"],a["marks"],["name"]),
 "objmark-add-dict": lambda a: markings.add_markings(a["d"],a["marks"][:1]),
 "objmark-remove-dict": lambda a: markings.remove_markings(a["d"],[stix2.TLP_GREEN.id]),
 "get_markings-dict": lambda a: markings.get_markings(a["d"],a["sels"],inherited=True),
 "bundle-args": lambda a: stix2.v21.Bundle(a["o"],a["lst"],allow_custom=True),
 "bundle-objects": lambda a: stix2.v21.Bundle(objects=a["lst"],allow_custom=True),
 "remove_custom": lambda a: stix2.versioning.remove_custom_stix(a["o"]),
 "factory-create": lambda a: ObjectFactory(object_marking_refs=a["marks"][:1],external_references=a["d"]["external_references"]).create(stix2.v21.Tool,name="t",external_references=a["d"]["external_references"]),
 "memstore-init": lambda a: MemoryStore(a["lst"]),
 "memstore-add-query": lambda a: (lambda s:(s.add(a["lst"]),s.query([Filter("labels","in",a["sels"])]),s.get(a["o"].id)))(MemoryStore()),
 "memstore-save-load": lambda a: (lambda s,p:(s.save_to_file(p),MemoryStore().load_from_file(p)))(MemoryStore(a["lst"][:1]),os.path.join(fsdir(),"x.json")),
 "fs-add-get": lambda a: (lambda s:(s.add(a["lst"][:1]),s.get(a["o"].id)))(FileSystemStore(fsdir(),allow_custom=True)),
 "composite": lambda a: (lambda c,l:(c.add_data_sources(l),c.get(a["o"].id),l))(CompositeDataSource(),[MemoryStore(a["lst"][:1]).source]),
 "filter-list": lambda a: Filter("labels","in",a["sels"]),
 "equiv-patterns": lambda a: stix2.equivalence.pattern.find_equivalent_patterns("[a:b = 1]",a.setdefault("pats",["[a:b = 1]","[a:b = 2]"])),
}
import stix2.equivalence.pattern
res=collections.Counter(); ex={}
names=list(OPS)
for seq in [(n,) for n in names]+list(itertools.product(names,repeat=2)):
    a=fresh(); a["pats"]=["[a:b = 1]","[a:b = 2]"]
    before={k:snap(v) for k,v in a.items()}
    for n in seq:
        try:
            r=OPS[n](a)
            if hasattr(r,"__next__"): list(r)
        except Exception as e: res[("exc",n,type(e).__name__)]+=1
        after={k:snap(v) for k,v in a.items()}
        ch=[k for k in before if before[k]!=after[k]]
        if ch:
            res[("MUTATED",n,tuple(ch))]+=1; ex.setdefault(("MUTATED",n,tuple(ch)),seq); before=after
        else: res["ok"]+=1
shutil.rmtree(tmp)
o=fresh()["o"]
for f,name in ((lambda: setattr(o,"name","x"),"setattr"),(lambda: delattr(o,"name"),"delattr"),(lambda: o.__setitem__("name","x"),"setitem"),(lambda: o.__delitem__("name"),"delitem")):
    try: f(); print(name,"ALLOWED")
    except Exception as e: print(name,"refused",type(e).__name__)
for k,v in sorted(res.items(),key=str): print(v,k,ex.get(k,""))
