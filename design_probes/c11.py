import stix2, json, warnings, itertools, collections, copy, tempfile, shutil, os
warnings.simplefilter('ignore')
from stix2 import MemoryStore, FileSystemStore
from stix2.datastore import DataSourceError
from stix2.utils import parse_into_datetime
from stix2.exceptions import STIXError
U="3f7f0c5f-5d54-4292-94ea-ec1e1952be1"
A="campaign--"+U+"1"
def camp(n,mod): return dict(type="campaign",spec_version="2.1",id=A,created="2020-01-01T00:00:00.000Z",modified=mod,name=n)
v1,v2,v3=camp("v1","2020-01-01T00:00:00.000Z"),camp("v2","2020-01-02T00:00:00.000Z"),camp("v3","2020-01-03T00:00:00.5Z")
sco=dict(type="ipv4-addr",spec_version="2.1",id="ipv4-addr--"+U+"2",value="1.2.3.4")
old=dict(type="campaign",id="campaign--"+U+"3",created="2020-01-01T00:00:00.000Z",modified="2020-01-01T00:00:00.000Z",name="old20")
md=dict(type="marking-definition",spec_version="2.1",id="marking-definition--"+U+"4",created="2020-01-01T00:00:00.000Z",definition_type="statement",definition={"statement":"s"})
X="x-foo--"+U+"5"
c1=dict(type="x-foo",spec_version="2.1",id=X,created="2020-01-01T00:00:00Z",modified="2020-01-01T00:00:00.5Z",name="c1")
c2=dict(type="x-foo",spec_version="2.1",id=X,created="2020-01-01T00:00:00Z",modified="2020-01-01T00:00:01Z",name="c2")
O=lambda d: stix2.parse(d,allow_custom=True)
events={
 "v1-obj":lambda: O(v1),"v2-obj":lambda: O(v2),"v3-obj":lambda: O(v3),"v1-dict":lambda: copy.deepcopy(v1),"v2-dict6":lambda: dict(v2,modified="2020-01-02T00:00:00.000000Z"),
 "v3-list":lambda:[copy.deepcopy(v3)],"v1v3-bundle":lambda: stix2.v21.Bundle(O(v1),O(v3)),"v2-bundledict":lambda: json.loads(stix2.v21.Bundle(O(v2)).serialize()),
 "sco":lambda: O(sco),"old20":lambda: copy.deepcopy(old),"md":lambda: O(md),"c1":lambda: copy.deepcopy(c1),"c2":lambda: copy.deepcopy(c2),"mix":lambda:[O(v2),copy.deepcopy(c1),O(sco)],
}
def flat(x):
    if isinstance(x,list): 
        for e in x: yield from flat(e)
    elif x.get("type")=="bundle": 
        for e in x.get("objects",[]): yield from flat(e)
    else: yield x
def key(o):
    m=o.get("modified"); return (o["id"], None if m is None else (parse_into_datetime(m) if isinstance(m,str) else m).isoformat())
IDS=[A,sco["id"],old["id"],md["id"],X]
res=collections.Counter(); ex=collections.defaultdict(list)
names=list(events)
n=0
base=tempfile.mkdtemp(dir="/dev/shm")
for depth in (1,2,3):
    for hist in itertools.product(names,repeat=depth):
        n+=1
        ms=MemoryStore(); d=os.path.join(base,"h%d"%n); os.makedirs(d); fs=FileSystemStore(d,allow_custom=True)
        model={}; order=[]
        for ev in hist:
            item=events[ev]()
            items=list(flat(item if not isinstance(item,stix2.base._STIXBase) or item["type"]!="bundle" else item))
            try: ms.add(events[ev]())
            except Exception as e: res[("mem-add-exc",ev,type(e).__name__)]+=1; ex[("mem-add-exc",ev,type(e).__name__)].append(hist)
            try: fs.add(events[ev]())
            except DataSourceError: res["fs-dup-refused"]+=1
            except Exception as e: res[("fs-add-exc",ev,type(e).__name__)]+=1; ex[("fs-add-exc",ev,type(e).__name__)].append((hist,str(e)[:80]))
            for it in items: model.setdefault(key(it),[]).append(it.get("name"))
        for id_ in IDS:
            mv={k for k in model if k[0]==id_}
            for sname,st in (("mem",ms),("fs",fs)):
                try:
                    av={key(o) for o in st.all_versions(id_)}
                    g=st.get(id_)
                except Exception as e:
                    k=(sname,"query-exc",type(e).__name__); res[k]+=1
                    if len(ex[k])<3: ex[k].append((hist,id_[:8],str(e)[:80]))
                    continue
                if av!=mv:
                    k=(sname,"all_versions","missing" if mv-av else "extra",id_.split("--")[0]); res[k]+=1
                    if len(ex[k])<3: ex[k].append((hist,sorted(av),sorted(mv)))
                exp=max(mv,key=lambda k:(k[1] or "")) if mv else None
                got=None if g is None else key(g)
                if got!=exp:
                    k=(sname,"get-not-latest",id_.split("--")[0]); res[k]+=1
                    if len(ex[k])<3: ex[k].append((hist,got,exp))
                else: res["ok"]+=1
        shutil.rmtree(d)
shutil.rmtree(base)
print(n,"histories")
for k,v in sorted(res.items(),key=str): print(v,k,ex.get(k,[])[:2])
