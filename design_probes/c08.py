import stix2, json, warnings, itertools, collections, re
warnings.simplefilter('ignore')
from gen import all_instances, uid
from stix2 import markings
from stix2.exceptions import InvalidSelectorError, STIXError
SEL=re.compile(r"^([a-z0-9_-]{3,250}(\.(\[\d+\]|[a-z0-9_-]{1,250}))*|id)$")
def paths(v,pre=()):
    if isinstance(v,dict):
        for k,x in v.items():
            yield pre+(k,),x
            yield from paths(x,pre+(k,))
    elif isinstance(v,list):
        for i,x in enumerate(v):
            yield pre+("[%d]"%i,),x
            yield from paths(x,pre+("[%d]"%i,))
res=collections.Counter(); ex=collections.defaultdict(list)
M=uid("marking-definition")
for ver in ("2.0","2.1"):
    for (v,cat,t,mode,c,d) in all_instances(ver):
        if mode!="max" or "granular_markings" not in c._properties: continue
        d=dict(d); d.pop("granular_markings",None)
        # plant falsy values / duplicates where possible
        if "labels" in c._properties: d["labels"]=["a","a","b"]
        try: o=stix2.parse(d,version=ver)
        except Exception as e: res[("base-reject",ver,t)]+=1; continue
        j=json.loads(o.serialize(include_optional_defaults=True))
        for p,val in paths(j):
            s=".".join(p)
            if not SEL.match(s): res["syntax-out-of-scope"]+=1; continue
            feat=[]
            if val in (False,0,"",0.0) and not isinstance(val,(list,dict)): feat.append("falsy")
            if any(x.startswith("[") for x in p):
                # repeated element?
                cur=j
                for q in p:
                    par=cur; cur=cur[int(q[1:-1])] if q.startswith("[") else cur[q]
                    if q.startswith("[") and isinstance(par,list) and par.index(cur)!=int(q[1:-1]): feat.append("repeated-elem")
            # through embedded object?
            cur=o; thru=False
            try:
                for q in p[:-1]:
                    cur=cur[int(q[1:-1])] if q.startswith("[") else cur[q]
                    if isinstance(cur,stix2.base._STIXBase): thru=True
            except Exception: pass
            if thru: feat.append("through-embedded-object")
            for entry in ("func-obj","func-dict","ctor"):
                try:
                    if entry=="func-obj": markings.add_markings(o,M,[s])
                    elif entry=="func-dict": markings.add_markings(j,M,[s])
                    else: stix2.parse(dict(j,granular_markings=[{"marking_ref":M,"selectors":[s]}]),version=ver)
                    res[("accepted",entry)]+=1
                except InvalidSelectorError:
                    k=("REFUSED-VALID",entry,tuple(feat)); res[k]+=1
                    if len(ex[k])<3: ex[k].append((ver,t,s,val))
                except Exception as e:
                    k=("other-exc",entry,type(e).__name__,tuple(feat)); res[k]+=1
                    if len(ex[k])<3: ex[k].append((ver,t,s,str(e)[:80]))
            # near misses
            for nm in (s+".zzz_absent", ".".join(p[:-1]+("zzz_absent",)) , s+".[0]" if not isinstance(val,list) else s+".[%d]"%len(val)):
                if not SEL.match(nm): continue
                try: markings.add_markings(j,M,[nm]); res[("ACCEPTED-INVALID",)]+=1; ex[("ACCEPTED-INVALID",)].append((ver,t,nm))
                except InvalidSelectorError: res["nearmiss-refused"]+=1
                except Exception as e: res[("nearmiss-other",type(e).__name__)]+=1
for k,v in sorted(res.items(),key=str): print(v,k,ex.get(k,[])[:3])
