# calibration-only instance generator driven by the LIBRARY tables (the real one will use the frozen spec model)
import stix2, json, warnings, copy, uuid, inspect
warnings.simplefilter('ignore')
from stix2 import properties as P, registry
from stix2.base import _STIXBase
U="3f7f0c5f-5d54-4292-94ea-ec1e1952be1"
TS="2020-01-01T00:00:00.000Z"
def uid(t,n=1): return "%s--%s%d"%(t,U,n)
SDO20=["identity","malware","tool"]; 
def ref_target(p,ver):
    if p.auth_type==0:
        if p.specifics: return sorted(p.specifics)[0]
        g=sorted(x.name for x in p.generics)[0]
        return {"SDO":"malware","SCO":"file","SRO":"relationship"}[g]
    return "malware"
def sample(name,p,ver,ctx):
    if hasattr(p,"_fixed_value"): return p._fixed_value
    n=type(p).__name__
    if n=="ListProperty":
        c=p.contained
        if isinstance(c,P.Property): return [sample(name,c,ver,ctx)]
        return [instance(c,ver,"max" if ctx=="max" else "min")]
    if n=="StringProperty": return "s"
    if n=="PatternProperty": return "[a:b = 1]"
    if n in("OpenVocabProperty","EnumProperty"): return p.allowed[0]
    if n=="IDProperty": return p.required_prefix+U+"1"
    if n=="TypeProperty": return p._fixed_value
    if n=="IntegerProperty": return p.min if p.min is not None else 0
    if n=="FloatProperty": return p.min if p.min is not None else 0.0
    if n=="BooleanProperty": return False
    if n=="TimestampProperty": return TS
    if n=="DictionaryProperty": return {"key":"v"}
    if n=="HashesProperty": return {"MD5":"d41d8cd98f00b204e9800998ecf8427e"}
    if n=="BinaryProperty": return "YQ=="
    if n=="HexProperty": return "ab"
    if n=="ReferenceProperty": return uid(ref_target(p,ver))
    if n=="ObjectReferenceProperty": return "0"
    if n=="SelectorProperty": return "type"
    if n=="EmbeddedObjectProperty": return instance(p.type,ver,ctx)
    if n=="ExtensionsProperty": return None
    if n=="ObservableProperty": return {"0":{"type":"ipv4-addr","value":"1.2.3.4"}} if ver=="2.0" else {"0":{"type":"ipv4-addr","value":"1.2.3.4","id":uid("ipv4-addr"),"spec_version":"2.1"}}
    if n=="MarkingProperty": return {"statement":"s"}
    if n=="STIXObjectProperty": return instance(registry.STIX2_OBJ_MAPS[ver]["objects"]["identity"],ver,"min")
    if n=="Property": return "x"
    raise ValueError(n)
# co-constraint overrides: (version,classname) -> (min_extra, max_drop)
OVR={
 "ExternalReference":(["url"],[]),"GranularMarking":(["marking_ref"],["lang"]),"Location":(["region"],[]),"Malware":([],[]),
 "MalwareAnalysis":(["result"],[]),"ObservedData":(["object_refs"] ,["objects"]),"MarkingDefinition":(["definition_type","definition"],[]),
 "Artifact":(["payload_bin"],["url"]),"EmailMIMEComponent":(["body"],[]),"EmailMessage":([],["body"]),"File":(["name"],[]),
 "NetworkTraffic":(["src_ref"],["end"]),"Process":(["pid"],[]),"X509Certificate":(["serial_number"],[]),
 "WindowsPEOptionalHeaderType":(["magic_hex"],[]),"NTFSExt":(["sid"],[]),"PDFExt":(["version"],[]),"RasterImageExt":(["image_height"],[]),"TCPExt":(["src_flags_hex"],[]),
 "WindowsProcessExt":(["aslr_enabled"],[]),"WindowsServiceExt":(["service_name"],[]),"UNIXAccountExt":(["gid"],[]),"SocketExt":([],["options"]),
 "Indicator":([],["valid_until"]),"Relationship":([],["stop_time"]),"Bundle":([],[]),"LanguageContent":([],[]),"Campaign":([],[]),
}
def instance(cls,ver,mode):
    d={}
    extra,drop=OVR.get(cls.__name__,([],[]))
    if cls.__name__=="ObservedData" and ver=="2.0": extra,drop=[],[]
    for k,p in cls._properties.items():
        want = p.required or hasattr(p,"_fixed_value") or k in extra or (mode=="max" and k not in drop) or k in("id","created","modified","spec_version","valid_from")
        if not want: continue
        if k=="extensions": continue
        v=sample(k,p,ver,mode)
        if v is None: continue
        if isinstance(v,_STIXBase): v=json.loads(v.serialize())
        if isinstance(v,list): v=[json.loads(x.serialize()) if isinstance(x,_STIXBase) else x for x in v]
        d[k]=v
    if cls.__name__=="EmailMessage" and mode=="max": d["is_multipart"]=True
    if cls.__name__=="EmailMessage" and mode=="min": d.pop("body_multipart",None)
    if cls.__name__=="Malware" and "name" not in d: d["name"]="m"
    if cls.__name__=="Location" and mode=="max": d["latitude"]=1.0; d["longitude"]=1.0
    if cls.__name__=="NetworkTraffic" and mode=="max": d["is_active"]=True
    if cls.__name__=="Artifact" and mode=="max": pass
    if cls.__name__=="MarkingDefinition": d["definition_type"]="statement"
    if "granular_markings" in d: d["granular_markings"]=[{"marking_ref":uid("marking-definition"),"selectors":["type"]}] if "type" in d else d.pop("granular_markings") and None
    if d.get("granular_markings") is None: d.pop("granular_markings",None)
    return d
def all_instances(ver):
    out=[]
    for cat in ("objects","observables"):
        for t,c in sorted(registry.STIX2_OBJ_MAPS[ver][cat].items()):
            for mode in ("min","max"):
                try: out.append((ver,cat,t,mode,c,instance(c,ver,mode)))
                except Exception as e: print("GENFAIL",ver,t,mode,type(e).__name__,e)
    return out
if __name__=="__main__":
    import collections
    res=collections.Counter()
    for ver in ("2.0","2.1"):
        for (v,cat,t,mode,c,d) in all_instances(ver):
            try:
                if cat=="observables" and ver=="2.0": o=stix2.parse_observable(d,{"0":t} ,version="2.0")
                else: o=stix2.parse(d,version=ver)
                res["ok"]+=1
            except Exception as e:
                print("REJECT",ver,t,mode,type(e).__name__,str(e)[:150])
    print(res)
